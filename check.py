#!/venv/bin/python
"""Static checks for json2python-models.

    check.py <Cxx> [--tier quick|thorough] [--root /repo]
    check.py --all [--tier quick]            (developer convenience)
    check.py --explain <replay.json>         (re-run the rule named in a report and print the obligation)

Exit codes: 0 = every obligation discharged; 1 = VIOLATION; 2 = ANALYSIS-ERROR (fail closed).
"""
from __future__ import annotations

import argparse
import json
import os
import sys
import traceback

HERE = os.path.dirname(os.path.abspath(__file__))
sys.path.insert(0, HERE)

from sa.ctx import Ctx  # noqa: E402
from sa.model import AnalysisError  # noqa: E402
from sa.props import PROPS  # noqa: E402
from sa.report import Reporter  # noqa: E402


def _evidence_dir_for(root: str):
    """Evidence under /verif/evidence is only ever written for /repo itself; other roots (scratch copies) go elsewhere."""
    import sa.report as report
    if os.path.realpath(root) != "/repo" and not os.environ.get("J2M_EVIDENCE_DIR"):
        report.EVIDENCE_DIR = os.path.join("/tmp", "j2m-evidence-" + str(os.getuid()))


def run_property(pid: str, tier: str, root: str, seed: int, ctx=None) -> int:
    _evidence_dir_for(root)
    spec = PROPS.get(pid)
    if spec is None:
        print(f"ANALYSIS-ERROR property={pid} no check is registered for this property")
        return 2
    rep = Reporter(pid, tier, seed, root)
    try:
        ctx = ctx or Ctx(root, tier)
    except AnalysisError as e:
        rep.errors.append(str(e))
        return rep.finish(spec)
    except Exception as e:  # never let a traceback look like a violation
        rep.errors.append(f"internal error while loading the program: {e!r}")
        traceback.print_exc()
        return rep.finish(spec)
    try:
        from sa.shapegate import Gate
        rep.gate = Gate(ctx.prog)
    except Exception as e:
        rep.errors.append(f"shape gate: {e!r}")
    for rule in spec["rules"]:
        try:
            ctx.prog.consulted = set()
            rr = rule(ctx)
            rr.consulted = sorted(set(getattr(rr, "consulted", ())) | ctx.prog.consulted)
            rep.add(rr)
        except AnalysisError as e:
            rep.errors.append(f"{rule.__name__}: {e}")
        except Exception as e:
            rep.errors.append(f"{rule.__name__}: internal error {e!r}")
            traceback.print_exc()
    if tier == "thorough":
        try:
            from sa import thorough
            thorough.extend(pid, ctx, rep)
        except AnalysisError as e:
            rep.errors.append(f"thorough: {e}")
        except Exception as e:
            rep.errors.append(f"thorough: internal error {e!r}")
            traceback.print_exc()
    try:
        cs = ctx.cg.site_stats()
        rep.extra["call_resolution"] = cs
    except Exception:
        pass
    rep.extra["not_decided"] = spec["not_decided"]
    return rep.finish(spec)


def explain(path: str) -> int:
    with open(path) as f:
        r = json.load(f)
    print(json.dumps(r, indent=1))
    pid = r["property"]
    print(f"--- re-running {pid} on {r.get('root', '/repo')} ---")
    return run_property(pid, "quick", r.get("root", "/repo"), 0)


def main() -> int:
    ap = argparse.ArgumentParser()
    ap.add_argument("prop", nargs="?")
    ap.add_argument("--tier", default=os.environ.get("VERIF_TIER", "quick"), choices=["quick", "thorough"])
    ap.add_argument("--root", default=os.environ.get("J2M_ROOT", "/repo"))
    ap.add_argument("--all", action="store_true")
    ap.add_argument("--explain")
    a = ap.parse_args()
    seed = int(os.environ.get("VERIF_SEED", "0") or 0)
    if a.explain:
        return explain(a.explain)
    if a.all:
        worst = 0
        ctx = None
        try:
            ctx = Ctx(a.root, a.tier)
        except Exception:
            pass
        for pid in sorted(PROPS):
            worst = max(worst, run_property(pid, a.tier, a.root, seed, ctx))
        return worst
    if not a.prop:
        ap.error("property id required")
    return run_property(a.prop, a.tier, a.root, seed)


if __name__ == "__main__":
    try:
        rc = main()
    except SystemExit:
        raise
    except BaseException as e:  # pragma: no cover
        traceback.print_exc()
        print(f"ANALYSIS-ERROR internal error: {e!r}")
        rc = 2
    sys.exit(rc)
