#!/venv/bin/python
"""Developer tool: re-base stored seeded patches that no longer apply to /repo HEAD (fuzzy patch), then re-confirm
(suite passes with the patch, demo fails with it and passes without it).  Patches that need a hand port are listed."""
import glob, json, os, subprocess, sys, tempfile
PY = "/venv/bin/python"
def sh(cmd, cwd, env=None, timeout=1500):
    e = dict(os.environ); e.update(env or {})
    r = subprocess.run(cmd, cwd=cwd, env=e, capture_output=True, text=True, timeout=timeout)
    return r.returncode, r.stdout + r.stderr
wt = tempfile.mkdtemp(prefix="report_", dir="/tmp"); os.rmdir(wt)
subprocess.check_call(["git", "-C", "/repo", "worktree", "add", "-q", "--detach", wt, "HEAD"])
head = subprocess.check_output(["git", "-C", "/repo", "rev-parse", "--short", "HEAD"], text=True).strip()
try:
    env = {"PYTHONPATH": wt, "PYTHONDONTWRITEBYTECODE": "1"}
    for d in sorted(glob.glob("/verif/seeded/*/")):
        pf = os.path.join(d, "patch.diff")
        alt = sys.argv[1:] and os.path.join(sys.argv[1], os.path.basename(d.rstrip("/")) + ".diff")
        sh(["git", "checkout", "-q", "--", "."], wt); sh(["git", "clean", "-fdq", "json_to_models"], wt)
        rc, _ = sh(["git", "apply", "--check", pf], wt)
        if rc == 0:
            continue
        sid = os.path.basename(d.rstrip("/"))
        src = alt if alt and os.path.isfile(alt) else pf
        rc, out = sh(["patch", "-p1", "-F3", "-s", "--no-backup-if-mismatch", "-i", src], wt)
        if rc != 0:
            print(sid, "NEEDS HAND PORT:", out.strip().splitlines()[0][:100]); continue
        _, diff = sh(["git", "diff", "--", "json_to_models"], wt)
        rc, out = sh([PY, "-m", "compileall", "-q", "json_to_models"], wt)
        if rc != 0:
            print(sid, "ported patch does not compile"); continue
        rc, out = sh([PY, "-m", "pytest", "-q", "-p", "no:cacheprovider", "-n", "8", "--timeout=900", "test"], wt, env)
        tail = out.strip().splitlines()[-1]
        rc_m, _ = sh([PY, os.path.join(d, "demo.py")], wt, env, 600)
        sh(["git", "checkout", "-q", "--", "."], wt)
        rc_c, _ = sh([PY, os.path.join(d, "demo.py")], wt, env, 600)
        ok = "428 passed" in tail and rc_m != 0 and rc_c == 0
        print(sid, "RE-BASED" if ok else "RE-BASE FAILED", tail[-40:], rc_m, rc_c)
        if ok:
            open(pf, "w").write(diff)
            m = json.load(open(os.path.join(d, "meta.json")))
            m.setdefault("confirmed", {})["ported"] = f"patch re-based on /repo HEAD {head}; suite 428 passed, demo fails with / passes without, re-confirmed"
            json.dump(m, open(os.path.join(d, "meta.json"), "w"), indent=1)
finally:
    subprocess.call(["git", "-C", "/repo", "worktree", "remove", "--force", wt])
