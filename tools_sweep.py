#!/venv/bin/python
"""Developer tool: run every registered check against every mutation found under the given directories."""
import glob, json, os, sys
from concurrent.futures import ProcessPoolExecutor
sys.path.insert(0, os.path.dirname(os.path.abspath(__file__)))
from tools_mut import run

def one(p):
    return p, run(p)

if __name__ == "__main__":
    pats = sys.argv[1:] or ["/tmp/mut/*/MUT/*/patch.diff", "/verif/seeded/*/patch.diff"]
    files = sorted({f for p in pats for f in glob.glob(p)})
    with ProcessPoolExecutor(8) as ex:
        for p, res in ex.map(one, files):
            d = os.path.dirname(p)
            try:
                meta = json.load(open(os.path.join(d, "meta.json")))
            except Exception:
                meta = {}
            target = meta.get("property", "?")
            if "error" in res:
                print(f"{d}: ERROR {res['error'][:100]}"); continue
            fired = [k for k, (rc, _) in res.items() if rc == 1]
            errs = [k for k, (rc, _) in res.items() if rc == 2]
            tag = "HIT " if target in fired else ("miss" if target in res else "n/a ")
            rules = sorted({r.split(" at ")[0].strip() for k in fired for r in res[k][1] if " at " in r})
            print(f"{tag} {d.replace('/tmp/mut/','').replace('/verif/seeded/','S:')} target={target} fired={fired} errors={errs} rules={rules} :: {meta.get('summary','')[:90]}")
