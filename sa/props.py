"""Property id -> rules, level text, assumptions. Rules are added here only when armed (DESIGN.md §9 policy)."""
from __future__ import annotations

from typing import Callable, Dict, List

from .ctx import Ctx
from .report import RuleResult

COMMON_ASSUMPTIONS = [
    "CPython 3.12 semantics for the statement/expression kinds the package uses, as modelled by the analyser",
    "third-party libraries (jinja2, inflection, unidecode, dateutil, ordered_set, attr, pydantic) are outside the "
    "analysis: deterministic functions of their arguments; OrderedSet iterates in insertion order; "
    "jinja2.Template.render interpolates str(value) without auto-escaping",
    "call graph is class-hierarchy analysis plus by-name fallback (over-approximate)",
]
TRUSTED = ["python3.12 ast module", "sa/ engine (model, callgraph, cfg, effects, consts, sym)",
           "tables in sa/tables.py (escaper exactness, unordered constructors, mutator names)"]


def _lazy(modname: str, fn: str) -> Callable[[Ctx], RuleResult]:
    def run(ctx: Ctx) -> RuleResult:
        import importlib
        m = importlib.import_module(f"sa.rules.{modname}")
        return getattr(m, fn)(ctx)
    run.__name__ = fn
    return run


PROPS: Dict[str, dict] = {}


def prop(pid: str, rules: List, explanation: str, not_decided: str, assumptions: List[str] = ()):
    PROPS[pid] = {"rules": rules, "explanation": explanation, "not_decided": not_decided,
                  "assumptions": COMMON_ASSUMPTIONS + list(assumptions), "trusted_base": TRUSTED}


prop("C14", [_lazy("state", "rule_ctx1"), _lazy("state", "rule_ctx2"), _lazy("state", "rule_ctx3"),
             _lazy("state", "rule_glob1"), _lazy("state", "rule_cache1"), _lazy("state", "rule_cache2"),
             _lazy("emit", "rule_label1"), _lazy("infer", "rule_val1"), _lazy("state", "rule_pure1"),
             _lazy("layout", "rule_nameord1"), _lazy("naming", "rule_nameord2"), _lazy("naming", "rule_rename1"),
             _lazy("naming", "rule_optfwd1"), _lazy("cli_flow", "rule_reset1"), _lazy("cli_flow", "rule_regdeliv1"),
             _lazy("naming", "rule_uniq2"),
             _lazy("misc", "rule_compose1"),
             _lazy("misc", "rule_constesc1"),
             _lazy("misc", "rule_memokey1"),
             _lazy("naming", "rule_uniq3"),
             _lazy("misc", "rule_lock1"),
             _lazy("state", "rule_shared1"),
             _lazy("naming", "rule_uniq4"),
             _lazy("emit", "rule_dup1"),
             _lazy("misc", "rule_gencall1"),
             _lazy("misc", "rule_cacheinv1"),
             _lazy("cli_fail", "rule_atom"),
             _lazy("misc2", "rule_proc1"),
             _lazy("misc", "rule_eqhash1"),
             _lazy("misc2", "rule_genpure1"),
             _lazy("misc2", "rule_defarg1"),
             _lazy("naming", "rule_uniq6")],
     "Static decision of the clauses of C14 that are visible in code shape: the thread-local reference context is "
     "saved/restored on every exit and only used through `with` (CTX-1..3); no function reachable from a library "
     "entry point writes module-level, class-level, closure or default-argument state (GLOB-1, effect summaries "
     "over the CHA call graph); memoisation is per generator instance and keyed so that functions sharing a store "
     "cannot serve each other's results (CACHE-1/2).",
     "idempotence of label conversion when the same registry is rendered twice (a string function); equality of "
     "texts across call sequences")

prop("C15", [_lazy("state", "rule_tls1"), _lazy("state", "rule_glob1"), _lazy("state", "rule_cache1"),
             _lazy("state", "rule_thread1"), _lazy("state", "rule_shared1"),
             _lazy("misc", "rule_constesc1"),
             _lazy("misc", "rule_lock1"),
             _lazy("misc", "rule_tmp1"),
             _lazy("misc2", "rule_proc1"),
             _lazy("misc2", "rule_iterself1"),
             _lazy("cli_flow", "rule_regdeliv1"),
             _lazy("misc2", "rule_defarg1")],
     "Static decision of: every read of a threading.local attribute is safe in a thread that never wrote it "
     "(TLS-1: defined by a threading.local subclass, or dominated by a write in the same function; an import-time "
     "assignment does not count); independent pipelines share no written state (GLOB-1, CACHE-1).",
     "atomicity inside third-party objects (shared jinja2.Template instances are assumed re-entrant); schedules "
     "themselves are not explored")

prop("C17", [_lazy("cli_fail", "rule_atom"), _lazy("cli_fail", "rule_exc1"), _lazy("cli_fail", "rule_exit1"),
             _lazy("cli_fail", "rule_out1"), _lazy("cli_fail", "rule_load1"), _lazy("cli_fail", "rule_lookup1"),
             _lazy("cli_fail", "rule_enc1"), _lazy("cli_fail", "rule_keychk1"), _lazy("cli_fail", "rule_load3"),
             _lazy("state", "rule_ctx1"),
             _lazy("misc", "rule_exitcm1"),
             _lazy("misc", "rule_arity1"),
             _lazy("misc", "rule_tmp1"),
             _lazy("misc", "rule_load4"),
             _lazy("cli_flow", "rule_argval1"),
             _lazy("misc", "rule_iter2"),
             _lazy("naming", "rule_optfwd1"),
             _lazy("misc2", "rule_encerr1"),
             _lazy("misc2", "rule_lookup2"),
             _lazy("misc2", "rule_match1"),
             _lazy("dictkeys", "rule_rx1"),
             _lazy("cli_flow", "rule_optflow6"),
             _lazy("misc2", "rule_regexval1"),
             _lazy("misc2", "rule_defarg1")],
     "Static decision of: every file-mutating call reachable from main is classified, and each write-capable one "
     "is a `with` block whose body only writes locals defined before the open, with no call that can fail "
     "reachable afterwards in that function or, after it returns, in its callers up to main (ATOM-1/2, CFG "
     "dominance + interprocedural continuation); sample iterators are consumed eagerly during argument "
     "processing; no exception handler on a CLI path continues normally around a pipeline stage (EXC-1); no "
     "zero-status exit in a handler and entry points call main unwrapped (EXIT-1); nothing but constants and "
     "run()'s final value is printed (OUT-1); each input loader opens its "
     "path itself on every returning path (LOAD-1, sibling agreement of the three loaders).",
     "behaviour of open()/the OS when the write itself fails; which exception each fault kind raises")

prop("C05", [_lazy("registry", "rule_reg12"), _lazy("registry", "rule_reg3"), _lazy("registry", "rule_reg4"),
             _lazy("registry", "rule_cmp1"), _lazy("registry", "rule_cmp2"), _lazy("cli_flow", "rule_reset1_merge"),
             _lazy("registry", "rule_reg5"), _lazy("cli_flow", "rule_argfwd1"),
             _lazy("cli_flow", "rule_optflow4"),
             _lazy("misc", "rule_eqhash1"),
             _lazy("misc", "rule_convnum1"),
             _lazy("cli_flow", "rule_optflow7"),
             _lazy("state", "rule_glob1_registry"),
             _lazy("misc2", "rule_dsu1"),
             _lazy("misc2", "rule_eqcyc1"),
             _lazy("misc2", "rule_closure1"),
             _lazy("cli_flow", "rule_optflow6_merge"),
             _lazy("misc2", "rule_stale1")],
     "Static decision of: the registry mapping is written only by ModelRegistry, and every call that removes a "
     "model is, in the same loop iteration and unconditionally, followed by snapshot loops retargeting all pointers "
     "and re-parenting all child references to the one replacement, which is registered after the loop and built "
     "from the field sets of exactly the models iterated (REG-1/2); ModelPtr.replace/replace_parent detach before "
     "and attach after the retarget; no loop iterates a collection its body resizes unless over a snapshot (REG-3, "
     "transitive size-mutation summaries); every merge is appended with its group to the returned list (REG-4); "
     "similarity is any() over all configured comparators on both key sets, tested for every pair and recorded "
     "symmetrically (CMP-1); the three comparators' normalised comparisons are the documented inclusive ones "
     "(CMP-2).",
     "the iff between merged classes and similarity chains (the closure loop works on run-time groups); 'untouched "
     "models are unchanged'; union-of-fields of a merged model (delegated to merge_field_sets, see C01)")

prop("C09", [_lazy("strtypes", "rule_det1"), _lazy("strtypes", "rule_det2"), _lazy("strtypes", "rule_det3"),
             _lazy("strtypes", "rule_det4"), _lazy("strtypes", "rule_det5"), _lazy("strtypes", "rule_res1"),
             _lazy("infer", "rule_val1"), _lazy("cli_flow", "rule_optflow6_disable"), _lazy("strtypes", "rule_cover1"),
             _lazy("strtypes", "rule_rt1"), _lazy("cli_flow", "rule_regdeliv1"),
             _lazy("infer", "rule_widen1"),
             _lazy("strtypes", "rule_det7"),
             _lazy("strtypes", "rule_regdup1"),
             _lazy("misc", "rule_cacheinv1"),
             _lazy("misc2", "rule_date1"),
             _lazy("state", "rule_glob1_converters"),
             _lazy("perm", "rule_perm1")],
     "Static decision of the protocol clauses of C09: a registry class is returned as the detected type only where "
     "a completed call of that class's own parser on the unmodified input dominates the return and the rejecting "
     "handler cannot fall through (DET-1); the registry iterates its registration list, which is only appended to "
     "or removed from (DET-2); remove() purges the class from the list and from both positions of the replace "
     "relation, remove_by_name matches class name and actual-type name, resolve() returns a subset of its "
     "arguments, and the CLI applies every disabled name before loading samples (DET-3); every pseudo-type class "
     "implements the full interface and raises what the detector catches (DET-4); on CLI paths no registration "
     "event is reachable after a removal event (DET-5, interprocedural event order).",
     "that a parser accepts exactly the intended language; replace pairs and renderers are decided against tables of "
     "confirmed instances (COVER-1, RT-1), not by reasoning about int()/float()/dateutil; the parse/render/parse round "
     "trip on concrete values")

prop("C06", [_lazy("order", "rule_ord1"), _lazy("order", "rule_ndet1"),
             _lazy("misc", "rule_assert1"),
             _lazy("misc", "rule_eqhash1"),
             _lazy("state", "rule_glob1"),
             _lazy("infer", "rule_memo1"),
             _lazy("misc2", "rule_envdep1")],
     "Static decision, for every input and every hash seed: each place where an unordered collection (set, "
     "frozenset, set algebra, set-typed attribute or return value) is iterated, unpacked, joined or converted to a "
     "sequence is found (exposure sites) and must be discharged: the sequence flows only into order-neutral "
     "consumers (sorted/set/any/all/len/min/max/membership), a loop body whose effects are commutative per "
     "element, a singleton guard, or a parameter / return value all of whose uses are neutral (followed "
     "interprocedurally); anything else is a violation unless it carries one of the reasoned allow-list entries "
     "(ORD-1). Calls of id/hash/random/time/environment/directory-listing primitives are allowed only at the "
     "listed sites (NDET-1).",
     "decided up to the stated assumptions: sorted() keys are total on their elements; dict and OrderedSet keep "
     "insertion order; third-party calls are deterministic")

prop("C13", [_lazy("dictkeys", "rule_rx1"), _lazy("dictkeys", "rule_dk"), _lazy("cli_flow", "rule_optflow_dictkeys"),
             _lazy("infer", "rule_widen1"), _lazy("cli_flow", "rule_optflow6_dictkeys"),
             _lazy("cli_flow", "rule_reset1_dictkeys"), _lazy("infer", "rule_elem1"),
             _lazy("infer", "rule_opt3"),
             _lazy("infer", "rule_drop1"),
             _lazy("misc", "rule_memokey1"),
             _lazy("infer", "rule_eq1"),
             _lazy("strtypes", "rule_cover1"),
             _lazy("infer", "rule_opt"),
             _lazy("misc2", "rule_stale1")],
     "Static decision of: the text the CLI compiles from each --dict-keys-regex value is, in every variant the code "
     "can produce, ^ + group containing the unmodified user pattern + $ (regex parse tree with the user part as a "
     "hole), without flags (RX-1); the per-field flag is passed only by _convert as `key not in dict_keys_fields` "
     "for the key being typed and never forwarded by the recursive calls (DK-1); each configured regex is compiled "
     "on its own, and the flag is cleared only under all(<pattern>.match over every key) inside the loop over "
     "patterns; flag set -> model via _convert, cleared -> DDict; empty object -> DDict (DK-3); top-level samples "
     "go straight to _convert (DK-2).",
     "that the value type T of the mapping admits every value (C01 territory); `$` also matching before a trailing "
     "newline (Python regex semantics of `$` with match())")

prop("C19", [_lazy("header", "rule_inj4"), _lazy("header", "rule_shape"), _lazy("cli_fail", "rule_enc1"),
             _lazy("misc", "rule_argp1"),
             _lazy("misc2", "rule_encerr1"),
             _lazy("misc2", "rule_sig1")],
     "Static decision for every argv / preamble text of: each run-time component of the header is located in its "
     "lexical context (raw triple-quoted literal) and must either be a fixed-alphabet value or pass, as its LAST "
     "transformation, a replacement of the closing quote run by quote-free text, with non-quote neighbours and a "
     "newline after it (INJ-4); with placeholders the header parses as one string statement; run() emits header + "
     "generate_code(...) with the stored preamble passed unchanged (SHAPE-1); every layout generate_code can "
     "return is [imports, delimiter]? [preamble, delimiter]? classes newline with the untransformed preamble at "
     "most once, present also without imports and guarded by `if preamble:` alone (SHAPE-2); from --preamble to "
     "the stored value only str.strip() is applied (SHAPE-3).",
     "that every argv yields a valid module is argued from the escaper reasoning, not by parsing outputs; "
     "non-UTF-8 argv bytes (surrogates) are outside the analysis")

prop("C16", [_lazy("cli_flow", "rule_optflow1"), _lazy("cli_flow", "rule_optflow2"), _lazy("cli_flow", "rule_optflow3"),
             _lazy("cli_flow", "rule_optflow4"), _lazy("cli_flow", "rule_stage_same"), _lazy("cli_flow", "rule_seq1"),
             _lazy("cli_fail", "rule_enc1"), _lazy("cli_flow", "rule_optflow6"), _lazy("cli_flow", "rule_path1"),
             _lazy("cli_flow", "rule_reset1"), _lazy("cli_flow", "rule_regdeliv1"), _lazy("cli_flow", "rule_argfwd1"),
             _lazy("misc", "rule_late1"),
             _lazy("misc", "rule_convnum1"),
             _lazy("misc", "rule_memokey1"),
             _lazy("state", "rule_cache1"),
             _lazy("cli_fail", "rule_lookup1"),
             _lazy("misc", "rule_argp1"),
             _lazy("misc", "rule_iter2"),
             _lazy("cli_flow", "rule_sibconv1"),
             _lazy("cli_flow", "rule_optflow7"),
             _lazy("misc2", "rule_encerr1"),
             _lazy("misc2", "rule_load5"),
             _lazy("misc2", "rule_runloop1"),
             _lazy("strtypes", "rule_det3"),
             _lazy("misc2", "rule_lookup2"),
             _lazy("misc2", "rule_match1"),
             _lazy("misc2", "rule_stale1")],
     "Static decision of: every add_argument destination is read from the namespace and nothing else is "
     "(OPTFLOW-1); each option's value flows (forward taint through Cli's methods, attribute cells, dict keys, "
     "called callables) to its documented library parameter, not into another option's slot, and no hop of that "
     "flow is control-dependent on a different option (OPTFLOW-2/5); every accepted choice has a handler and the "
     "tables are indexed only after validation (OPTFLOW-3); converters attached by convert_args are total on the "
     "static type of what reaches them (OPTFLOW-4); run() executes generate -> process_meta_data -> merge_models "
     "-> generate_names -> layout -> generate_code once each, in dominance order, and writes the very local it "
     "would return (STAGE-1, SAME-1); samples are concatenated in argument order, every loop iteration reaches the "
     "accumulation, no order-changing operation is applied, -m and -l append to one destination (SEQ-1); the loaders "
     "hand on the document as the parser reads it (LOAD-5) and every model name goes through both stages (RUNLOOP-1).",
     "dict_lookup / iter_json_file semantics on data; equality of CLI text and library text on concrete inputs")

prop("C18", [_lazy("converters", "rule_tok1"), _lazy("converters", "rule_tok2"), _lazy("converters", "rule_tok3"),
             _lazy("converters", "rule_null1"), _lazy("state", "rule_glob1_converters"), _lazy("emit", "rule_sib1"),
             _lazy("layout", "rule_imp4"), _lazy("converters", "rule_conv_pure"), _lazy("converters", "rule_iter1"),
             _lazy("naming", "rule_label2"), _lazy("imports", "rule_imp5"), _lazy("emit", "rule_kw1"),
             _lazy("converters", "rule_convform1"), _lazy("naming", "rule_label5"),
             _lazy("infer", "rule_opt2"),
             _lazy("naming", "rule_uniq1"),
             _lazy("strtypes", "rule_det1"),
             _lazy("infer", "rule_opt3"),
             _lazy("strtypes", "rule_cover1"),
             _lazy("infer", "rule_opt"),
             _lazy("strtypes", "rule_res1"),
             _lazy("cli_flow", "rule_optflow_strconv"),
             _lazy("misc2", "rule_stale1")],
     "Static decision of: the path tokens and both separators emitted by the generator are the ones the post-init "
     "interpreter dispatches / splits on, and its type-argument index per container token matches the emitted "
     "annotation form (TOK-1); every IR class that rapid type analysis shows the inference pipeline can put in a "
     "field type has an arm in the path writer, container classes have token-producing arms (TOK-2); decorator "
     "entries are named with the same conversion as the field definitions (TOK-3); under the Optional token a None "
     "value is returned before any container branch can iterate it (NULL-1); the converter runtime keeps no state "
     "shared between classes (GLOB-1).",
     "that converted values equal parsing the original strings; behaviour of the per-field attrs converter form")

prop("C10", [_lazy("emit", "rule_lim"), _lazy("emit", "rule_inj3"), _lazy("emit", "rule_lit"), _lazy("state", "rule_glob1_generators"),
             _lazy("cli_flow", "rule_optflow_maxlit"), _lazy("infer", "rule_eq1"), _lazy("infer", "rule_nf7"),
             _lazy("emit", "rule_inj5"), _lazy("infer", "rule_opt"),
             _lazy("infer", "rule_memo1"),
             _lazy("misc", "rule_memokey1"),
             _lazy("emit", "rule_annot1"),
             _lazy("infer", "rule_val1"),
             _lazy("imports", "rule_shadow1"),
             _lazy("cli_flow", "rule_optflow6_lit"),
             _lazy("misc2", "rule_anyelem1"),
             _lazy("infer", "rule_nulldet")],
     "Static decision of: every comparison of a literal count with MAX_LITERALS, of a member length with "
     "MAX_STRING_LENGTH and of the member count with the configured maximum flips exactly at the documented "
     "boundary (evaluated at limit-1, limit, limit+1 after normalisation) and compares the size of ONE collection; "
     "'no limit' is an `is None` test so 0 means zero (LIM-1..3); Literal members are rendered in code context by "
     "an escaper that is exact for every str - repr or json.dumps(ensure_ascii=False) - with nothing but the join "
     "after it (INJ-3); Literal is produced only on paths where the style enables literals, attrs disables them, "
     "the limit is stored per generator instance as int (LIT-1/2) in a style table that is not shared (GLOB-1).",
     "'annotated whenever nothing was generalised' and that the listed strings are precisely the observed ones "
     "(values at run time)")

prop("C11", [_lazy("emit", "rule_inj2"), _lazy("emit", "rule_inj5"), _lazy("emit", "rule_sib2"), _lazy("emit", "rule_label1"),
             _lazy("imports", "rule_shadow1"), _lazy("emit", "rule_dup1"), _lazy("state", "rule_cache2"),
             _lazy("naming", "rule_optfwd1"), _lazy("naming", "rule_uniq1"), _lazy("naming", "rule_uniq2"),
             _lazy("imports", "rule_shadow2"), _lazy("naming", "rule_label2"), _lazy("naming", "rule_label5"),
             _lazy("naming", "rule_uniq4"),
             _lazy("naming", "rule_label6"),
             _lazy("misc", "rule_gencall1"),
             _lazy("misc2", "rule_keytruth1"),
             _lazy("misc2", "rule_encerr1"),
             _lazy("misc2", "rule_inj6"),
             _lazy("naming", "rule_uniq6")],
     "Static decision of: every use of the original key in the field_data family is a comparison, a label "
     "conversion, a container display (rendered by repr) or an exact escaper in code context (INJ-2); on every "
     "feasible path of each generator the original key is attached and rendered whenever the name differs (and "
     "metadata is on) (SIB-2); prepare_label strips non-word characters, rewrites a leading digit, converts case "
     "and tests the exact label against the black-list last (LABEL-1); every name a generated module can import "
     "is black-listed (SHADOW-1); any model whose name is taken is renamed, unconditionally (DUP-1); the label "
     "cache cannot serve one conversion's result for the other (CACHE-2).",
     "that the de-duplication steps UNIQ-1/UNIQ-2 demand actually separate every colliding pair (decided: they exist, consult "
     "the names handed out and change the label; not decided: the string arithmetic of the suffixing); behaviour of "
     "inflection / unidecode on concrete strings")

prop("C03", [_lazy("imports", "rule_imp1"), _lazy("imports", "rule_imp2"), _lazy("imports", "rule_shadow1"), _lazy("imports", "rule_shadow2"), _lazy("imports", "rule_imp5"),
             _lazy("emit", "rule_label1"), _lazy("emit", "rule_dup1"), _lazy("emit", "rule_fwd1"),
             _lazy("emit", "rule_inj2"), _lazy("emit", "rule_inj3"), _lazy("emit", "rule_inj5"), _lazy("emit", "rule_sib1_layout"),
             _lazy("layout", "rule_lay1"), _lazy("layout", "rule_lay2"), _lazy("layout", "rule_imp4"),
             _lazy("layout", "rule_nameord1"), _lazy("naming", "rule_nameord2"), _lazy("naming", "rule_uniq1"),
             _lazy("naming", "rule_uniq2"), _lazy("naming", "rule_label2"), _lazy("naming", "rule_label5"),
             _lazy("misc", "rule_empty1"),
             _lazy("naming", "rule_uniq4"),
             _lazy("naming", "rule_label6"),
             _lazy("misc", "rule_gencall1"),
             _lazy("state", "rule_cache2"),
             _lazy("misc2", "rule_sig1"),
             _lazy("registry", "rule_reg12"),
             _lazy("misc2", "rule_lay5"),
             _lazy("misc2", "rule_inj6"),
             _lazy("header", "rule_inj4"),
             _lazy("naming", "rule_rename1"),
             _lazy("naming", "rule_uniq6")],
     "Static decision of: every import tuple a generator can emit (symbolic components expanded over the class "
     "tables) names an existing module and a name bound at its top level, read from the installed sources "
     "(IMP-1); every identifier in an emitted code fragment (templates, default/factory/converter strings, bases) "
     "is a builtin or imported by the same generator, attribute chains resolve (IMP-2/3); importable names are "
     "black-listed as labels (SHADOW-1); label typestate (LABEL-1); taken names are renamed (DUP-1); model "
     "references are quoted dotted names (FWD-1); keys and literal members cannot break the source text "
     "(INJ-2/3); a field has a default iff optional, so required fields precede defaults (SIB-1).",
     "that the module compiles and every annotation evaluates for each concrete input; behaviour of "
     "inflection/unidecode on concrete strings; attribute names of framework base classes whose source is not "
     "installed here (sqlmodel / SQLAlchemy)")

prop("C04", [_lazy("emit", "rule_sib1"), _lazy("emit", "rule_sib2"), _lazy("emit", "rule_inj2"), _lazy("emit", "rule_inj5"),
             _lazy("emit", "rule_lit"), _lazy("emit", "rule_tbl1"),
             _lazy("state", "rule_cache2"), _lazy("state", "rule_glob1_generators"), _lazy("state", "rule_pure1"),
             _lazy("naming", "rule_nameord2"), _lazy("naming", "rule_optfwd1"), _lazy("emit", "rule_kw1"),
             _lazy("naming", "rule_uniq2"),
             _lazy("naming", "rule_uniq1"),
             _lazy("misc", "rule_empty1"),
             _lazy("emit", "rule_annot1"),
             _lazy("naming", "rule_uniq4"),
             _lazy("naming", "rule_label6"),
             _lazy("misc", "rule_gencall1"),
             _lazy("misc2", "rule_keytruth1"),
             _lazy("misc2", "rule_lay5"),
             _lazy("cli_flow", "rule_optflow6_lit"),
             _lazy("misc2", "rule_inj6"),
             _lazy("naming", "rule_uniq6")],
     "Static decision of: on every feasible path of each framework's field_data (path enumeration with a small "
     "abstract state for the kwargs dict) an optional list/dict/scalar field carries default list/dict/None to "
     "the emitted body and a required field carries none; the optional flag is the sort_fields group, decided by "
     "isinstance(DOptional) before any other criterion (SIB-1); the original key is attached and rendered "
     "whenever the name differs (SIB-2) and escaped exactly (INJ-2); IR wrappers render as their typing "
     "counterparts (TBL-1); field labels cannot come from the class-name conversion (CACHE-2); style tables are "
     "per instance (GLOB-1).",
     "per-program equality between evaluated annotation and IR type; Jinja whitespace; nested-class indentation")

prop("C12", [_lazy("layout", "rule_lay1"), _lazy("layout", "rule_lay2"), _lazy("layout", "rule_lay3"), _lazy("emit", "rule_inj5"),
             _lazy("state", "rule_glob1_generators"), _lazy("cli_flow", "rule_optflow_structure"),
             _lazy("naming", "rule_uniq2"),
             _lazy("misc", "rule_compose1"),
             _lazy("naming", "rule_uniq3"),
             _lazy("naming", "rule_uniq4"),
             _lazy("misc", "rule_gencall1"),
             _lazy("cli_flow", "rule_reset1_structure"),
             _lazy("registry", "rule_reg12"),
             _lazy("misc2", "rule_keytruth1"),
             _lazy("misc2", "rule_lay4"),
             _lazy("misc2", "rule_lay5"),
             _lazy("naming", "rule_uniq6")],
     "Static decision of: in both layout functions the table of structure entries is built once up front and never "
     "rewritten in the placement loop, and on every non-raising path through the per-model loop (path enumeration; "
     "try/except counted once because insert_before raises before inserting) the current model's entry is inserted "
     "into exactly one list (LAY-1); _generate_code creates exactly one generator per entry, renders nested entries "
     "recursively, appends one class text per generator, every generate() override forwards nested_classes, and "
     "the template emits them (LAY-2); nesting happens only on paths without root-level references and with a "
     "single parent/root, the flat layout never touches nested lists and both layouts share the renderer (LAY-3).",
     "class-by-class equality of the two emitted modules; 'root first'; reachability of placed entries for non-tree "
     "graphs (run-time graph shape)")

prop("C01", [_lazy("infer", "rule_opt"), _lazy("infer", "rule_opt2"), _lazy("infer", "rule_opt3"), _lazy("infer", "rule_drop1"),
             _lazy("emit", "rule_dup1"), _lazy("emit", "rule_sib1"), _lazy("infer", "rule_eq1"), _lazy("infer", "rule_samples1"),
             _lazy("strtypes", "rule_res1"), _lazy("strtypes", "rule_cover1"), _lazy("infer", "rule_elem1"),
             _lazy("naming", "rule_uniq1"), _lazy("imports", "rule_shadow2"), _lazy("naming", "rule_label2"),
             _lazy("naming", "rule_label5"),
             _lazy("naming", "rule_nameord2"),
             _lazy("misc", "rule_late1"),
             _lazy("naming", "rule_label6"),
             _lazy("misc", "rule_gencall1"),
             _lazy("emit", "rule_label1"),
             _lazy("emit", "rule_inj5"),
             _lazy("naming", "rule_uniq2"),
             _lazy("emit", "rule_inj3"),
             _lazy("misc", "rule_cacheinv1"),
             _lazy("perm", "rule_perm1"),
             _lazy("emit", "rule_sib2"),
             _lazy("emit", "rule_inj2"),
             _lazy("naming", "rule_uniq4"),
             _lazy("converters", "rule_tok3"),
             _lazy("naming", "rule_uniq6")],
     "Static decision of the optionality / completeness clauses of C01: on every feasible path of the per-field merge "
     "loop (path enumeration with the equality axioms of EQ-1/NF-3) the value left in the merged set is optional "
     "whenever the stored or the incoming side was optional or the field is new in a later set, and the stored type "
     "is kept unmerged only when the incoming type equals it (OPT-1); names missing from a later set are wrapped "
     "(OPT-2); an Optional union member keeps a Null candidate which makes the result Optional (OPT-3); a field is "
     "omitted from emission only by the pydantic/sqlmodel all-null filter, and every key of a sample gets a field "
     "(DROP-1); models whose name is taken are renamed so no class shadows another (DUP-1).",
     "that every VALUE inhabits the annotation chosen for it (type detection, union simplification, pseudo-type "
     "resolution are value-level): e.g. resolve() dropping BooleanString, parsers more lenient than pydantic's")

prop("C02", [_lazy("infer", "rule_opt"), _lazy("infer", "rule_nulldet"), _lazy("infer", "rule_widen1"),
             _lazy("state", "rule_glob1_generators"), _lazy("infer", "rule_val1"), _lazy("emit", "rule_lim"),
             _lazy("infer", "rule_nf6"), _lazy("strtypes", "rule_det6"),
             _lazy("infer", "rule_memo1"),
             _lazy("misc", "rule_memokey1"),
             _lazy("emit", "rule_sib1"),
             _lazy("misc2", "rule_encerr1"),
             _lazy("misc2", "rule_date1"),
             _lazy("misc2", "rule_load5"),
             _lazy("perm", "rule_perm1"),
             _lazy("misc2", "rule_anyelem1")],
     "Static decision of: Optional is introduced in the merge only when justified (converse direction of the OPT "
     "table, OPT-4); Null is produced only under `value is None` and Unknown only under the emptiness test of the "
     "matching container (NULLDET-1); candidates are removed from a union only as documented (Unknown when another "
     "candidate remains and on the final list, Null into Optional, int next to float) and str is introduced only at "
     "the documented sites (WIDEN-1); type construction keeps no state shared between calls (GLOB-1, so members or "
     "literals of another inference cannot leak in).",
     "that a union member / literal / element type at a position was exhibited by a sample routed there (needs the "
     "samples)")

prop("C07", [_lazy("infer", "rule_opt"), _lazy("infer", "rule_eq1"), _lazy("emit", "rule_lim"), _lazy("infer", "rule_opt3"),
             _lazy("infer", "rule_samples1"), _lazy("registry", "rule_cmp1"), _lazy("registry", "rule_cmp2"),
             _lazy("infer", "rule_nf6"), _lazy("infer", "rule_widen1"), _lazy("infer", "rule_memo1"),
             _lazy("misc", "rule_memokey1"),
             _lazy("naming", "rule_uniq5"),
             _lazy("infer", "rule_opt2"),
             _lazy("misc2", "rule_dsu1"),
             _lazy("misc2", "rule_eqcyc1"),
             _lazy("perm", "rule_perm1"),
             _lazy("strtypes", "rule_res1"),
             _lazy("misc2", "rule_closure1")],
     "Static decision of: the merge outcome's optionality is the same for mirrored inputs and the stored side is kept "
     "only on equality (OPT-5 on the OPT path table); equality of IR types is type-exact and order-insensitive "
     "(ComplexType compares the sorted MEMBER lists, StringLiteral compares sets) and caches are invalidated on "
     "every content change (EQ-1); literal limits compare the size of one distinct set, so repeating a sample "
     "cannot push a position over a limit (LIM-1..3).",
     "invariance of the inferred TYPES under permutation (union member sets, literal sets, merged models follow the "
     "values); de-duplication by hash string over dict items in insertion order is an assumption")

prop("C08", [_lazy("infer", "rule_nf"), _lazy("infer", "rule_nf6"), _lazy("infer", "rule_nf7"), _lazy("infer", "rule_eq1"),
             _lazy("infer", "rule_widen1"), _lazy("infer", "rule_opt3"), _lazy("infer", "rule_val1"), _lazy("infer", "rule_nf8"), _lazy("infer", "rule_iface1"), _lazy("infer", "rule_nf10"),
             _lazy("infer", "rule_memo1"),
             _lazy("infer", "rule_nf9"),
             _lazy("infer", "rule_nf11"),
             _lazy("misc", "rule_cacheinv1"),
             _lazy("nf4", "rule_nf4")],
     "Static decision of: every DUnion construction in the inference code is followed by a size test on the "
     "constructed union that replaces a singleton by its member (or is re-simplified by the optimize_type pass), the "
     "final union is built only from a non-empty candidate list, Optional never wraps Optional (NF-1/2/3); merged "
     "models are simplified at once and all models once more (NF-6, needed because one pass is not idempotent); "
     "hash strings / sorted views are invalidated on every content change so de-duplication sees current content "
     "(EQ-1); Unknown and Null leave the final candidate list and Null becomes Optional (WIDEN-1, OPT-3). NF-4: "
     "optimize_type, _optimize_union, _union_members and the DUnion constructor are evaluated from their source over "
     "kind-level abstract values for every union of up to three of 39 (thorough: 54) member types of depth <= 2 - the "
     "property's own quantifier: no pass raises, the result of ONE pass is in normal form at every level (flat, no "
     "duplicate, no single member, no null / Optional member, not int with float, not str with literals or "
     "pseudo-types, Unknown only alone), a second pass returns the same type, also after two pointed-to models "
     "have become one; the constructor flattens unions nested at any depth.",
     "types outside the universe (more than three members, deeper nesting); the content of field sets (decided per "
     "level); the summarised callees: merge_field_sets, registry.resolve, StringLiteral.__init__, get_hash_string")
