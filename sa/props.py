"""Property id -> rules, level text, assumptions. Rules are added here only when armed (DESIGN.md §9 policy)."""
from __future__ import annotations

from typing import Callable, Dict, List

from .ctx import Ctx
from .report import RuleResult

COMMON_ASSUMPTIONS = [
    "CPython 3.12 semantics for the statement/expression kinds the package uses, as modelled by the analyser",
    "third-party libraries (jinja2, inflection, unidecode, dateutil, ordered_set, attr, pydantic) are outside the "
    "analysis: deterministic functions of their arguments; OrderedSet iterates in insertion order; "
    "jinja2.Template.render interpolates str(value) without auto-escaping",
    "call graph is class-hierarchy analysis plus by-name fallback (over-approximate)",
]
TRUSTED = ["python3.12 ast module", "sa/ engine (model, callgraph, cfg, effects, consts, sym)",
           "tables in sa/tables.py (escaper exactness, unordered constructors, mutator names)"]


def _lazy(modname: str, fn: str) -> Callable[[Ctx], RuleResult]:
    def run(ctx: Ctx) -> RuleResult:
        import importlib
        m = importlib.import_module(f"sa.rules.{modname}")
        return getattr(m, fn)(ctx)
    run.__name__ = fn
    return run


PROPS: Dict[str, dict] = {}


def prop(pid: str, rules: List, explanation: str, not_decided: str, assumptions: List[str] = ()):
    PROPS[pid] = {"rules": rules, "explanation": explanation, "not_decided": not_decided,
                  "assumptions": COMMON_ASSUMPTIONS + list(assumptions), "trusted_base": TRUSTED}


prop("C14", [_lazy("state", "rule_ctx1"), _lazy("state", "rule_ctx2"), _lazy("state", "rule_ctx3"),
             _lazy("state", "rule_glob1"), _lazy("state", "rule_cache1"), _lazy("state", "rule_cache2")],
     "Static decision of the clauses of C14 that are visible in code shape: the thread-local reference context is "
     "saved/restored on every exit and only used through `with` (CTX-1..3); no function reachable from a library "
     "entry point writes module-level, class-level, closure or default-argument state (GLOB-1, effect summaries "
     "over the CHA call graph); memoisation is per generator instance and keyed so that functions sharing a store "
     "cannot serve each other's results (CACHE-1/2).",
     "idempotence of label conversion when the same registry is rendered twice (a string function); equality of "
     "texts across call sequences")

prop("C15", [_lazy("state", "rule_tls1"), _lazy("state", "rule_glob1"), _lazy("state", "rule_cache1")],
     "Static decision of: every read of a threading.local attribute is safe in a thread that never wrote it "
     "(TLS-1: defined by a threading.local subclass, or dominated by a write in the same function; an import-time "
     "assignment does not count); independent pipelines share no written state (GLOB-1, CACHE-1).",
     "atomicity inside third-party objects (shared jinja2.Template instances are assumed re-entrant); schedules "
     "themselves are not explored")
