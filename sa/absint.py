"""Kind-level abstract evaluator (engine E3 as built, used by NF-4).

The functions that simplify types (`MetadataGenerator.optimize_type`, `_optimize_union`, `_union_members`, the constructor
of `DUnion` with its closure, the small methods of the IR classes they call) are evaluated *from their source in /repo*
over a finite universe of abstract values, by the tree-walking evaluator below.  Nothing of /repo is imported or executed:
the evaluator reads the `ast` of each function through the program model.

Abstract values
    `Cls(name)`      a class object used as a type: `int`, `float`, `bool`, `str`, the IR classes (resolved through the
                     program model), and `PS1` / `PS2`, two representatives of "some class of the string-type registry"
    `Node(cls)`      an instance of a repository class with its attributes (IR nodes, the generator, the registry)
    `ModelDict(tag)` a field set (a `dict`) whose fields are not looked at: what is decided is decided per level
    lists, tuples, ordered sets, ints, bools, None, strings: themselves

What is *summarised* instead of evaluated (the trusted base, listed in the evidence): `merge_field_sets` (gives one field
set), `StringSerializableRegistry.resolve` (any non-empty subset of its arguments: a choice), `StringLiteral.__init__`
(the union of two literal sets may or may not overflow: a choice), `get_hash_string` (equal tokens for structurally equal
values; EQ-1 / NDET-1 decide that for the real functions), structural equality of nodes (`__eq__` of the IR classes is
decided by EQ-1).  A *choice* forks the evaluation: the driver enumerates every vector of choices.

A construct outside the supported subset is an AnalysisError (exit 2), never a pass.
"""
from __future__ import annotations

import ast
from typing import Any, Callable, Dict, List, Optional, Tuple

from .model import AnalysisError, ClassInfo, ConstRef, External, FuncInfo, Module, Program, norm

EXTERNALS = {"inspect.isclass": "isclass", "itertools.chain": "chain", "itertools.chain.from_iterable": "chain_from_iterable"}
PY_TYPES = {"str", "int", "float", "bool", "dict", "list", "set", "tuple", "frozenset", "type", "object"}
MAX_STEPS = 200_000


class PyRaise(Exception):
    """The analysed code would raise (IndexError, ValueError, StopIteration, ...)."""

    def __init__(self, etype: str, where: str):
        where = str(where)
        super().__init__(f"{etype} at {where}")
        self.etype = etype
        self.where = where


class _W:
    """Source position, formatted only when a report needs it."""
    __slots__ = ("mod", "node")

    def __init__(self, mod, node):
        self.mod = mod
        self.node = node

    def __str__(self):
        return f"{self.mod.relpath}:{getattr(self.node, 'lineno', 0)}"

    __repr__ = __str__

    def __format__(self, spec):
        return str(self)


class NeedChoice(Exception):
    def __init__(self, arity: int, label: str):
        self.arity = arity
        self.label = label


class _Return(Exception):
    def __init__(self, value):
        self.value = value


class _Break(Exception):
    pass


class _Continue(Exception):
    pass


class Cls:
    __slots__ = ("name", "info", "pseudo")

    def __init__(self, name: str, info: Optional[ClassInfo] = None, pseudo: bool = False):
        self.name = name
        self.info = info
        self.pseudo = pseudo

    def __repr__(self):
        return self.name


class Node:
    __slots__ = ("info", "attrs")

    def __init__(self, info: ClassInfo, attrs: Optional[dict] = None):
        self.info = info
        self.attrs = attrs if attrs is not None else {}

    def __repr__(self):
        return show(self)


class ModelDict:
    __slots__ = ("tag",)

    def __init__(self, tag: str):
        self.tag = tag

    def __repr__(self):
        return "{" + self.tag + "}"


class OSet(list):
    """Insertion-ordered set (so that `next(iter(s))` is the same on every run of the evaluator)."""


class Iter:
    __slots__ = ("items", "pos")

    def __init__(self, items):
        self.items = list(items)
        self.pos = 0


class FuncVal:
    __slots__ = ("fi", "self_val", "closure")

    def __init__(self, fi: FuncInfo, self_val=None, closure=None):
        self.fi = fi
        self.self_val = self_val
        self.closure = closure


class SuperProxy:
    __slots__ = ("self_val", "cls")

    def __init__(self, self_val, cls: ClassInfo):
        self.self_val = self_val
        self.cls = cls


class BoundBuiltin:
    __slots__ = ("obj", "name")

    def __init__(self, obj, name):
        self.obj = obj
        self.name = name


class Builtin:
    __slots__ = ("name",)

    def __init__(self, name):
        self.name = name


class Opaque:
    """The result of object(): a sentinel with identity only."""
    __slots__ = ("where",)

    def __init__(self, where):
        self.where = where

    def __repr__(self):
        return f"<object() of {self.where}>"


IGNORED_ATTRS = ("_hash", "_sorted")
NOT_IMPLEMENTED = object()


def key(v) -> Any:
    """Canonical hashable form: structural equality of the evaluator's values."""
    if isinstance(v, Cls):
        return ("cls", v.name)
    if isinstance(v, Node):
        items = []
        for k in sorted(v.attrs):
            if k in IGNORED_ATTRS:
                continue
            x = v.attrs[k]
            if k == "_types" and isinstance(x, list):
                items.append((k, tuple(sorted((key(e) for e in x), key=repr))))      # ComplexType.__eq__ compares sorted
            else:
                items.append((k, key(x)))
        return ("node", v.info.name, tuple(items))
    if isinstance(v, ModelDict):
        return ("model", v.tag)
    if isinstance(v, OSet):
        return ("set", frozenset(key(e) for e in v))
    if isinstance(v, (list, tuple)):
        return (type(v).__name__, tuple(key(e) for e in v))
    if isinstance(v, frozenset):
        return ("fset", frozenset(v))
    if isinstance(v, dict):
        return ("dict", tuple(sorted((repr(key(k)), key(x)) for k, x in v.items())))
    return ("py", v)


def show(v) -> str:
    if isinstance(v, Cls):
        return v.name
    if isinstance(v, Node):
        n = v.info.name
        if "_types" in v.attrs:
            return f"{n}[{', '.join(show(e) for e in v.attrs['_types'])}]"
        if "_type" in v.attrs:
            return f"{n}[{show(v.attrs['_type'])}]"
        if "_literals" in v.attrs:
            return "Literal" + ("<overflowed>" if v.attrs.get("_overflow") else "{" + ",".join(sorted(v.attrs["_literals"])) + "}")
        return n
    if isinstance(v, ModelDict):
        return repr(v)
    if isinstance(v, (list, tuple)):
        return "[" + ", ".join(show(e) for e in v) + "]"
    return repr(v)


def clone(v, memo=None):
    """Deep copy (the simplifier mutates nodes in place); class objects and singletons (nodes without attributes) are shared."""
    if memo is None:
        memo = {}
    if isinstance(v, Node):
        if not v.attrs:
            return v
        if id(v) in memo:
            return memo[id(v)]
        n = Node(v.info, {})
        memo[id(v)] = n
        for k, x in v.attrs.items():
            n.attrs[k] = clone(x, memo)
        return n
    if isinstance(v, OSet):
        return OSet(clone(e, memo) for e in v)
    if isinstance(v, list):
        return [clone(e, memo) for e in v]
    if isinstance(v, tuple):
        return tuple(clone(e, memo) for e in v)
    return v


class Frame:
    __slots__ = ("fi", "env", "module", "closure", "yields")

    def __init__(self, fi: Optional[FuncInfo], module: Module, env: dict, closure: Optional["Frame"] = None):
        self.fi = fi
        self.module = module
        self.env = env
        self.closure = closure
        self.yields: Optional[list] = None

    def lookup(self, name: str):
        f = self
        while f is not None:
            if name in f.env:
                return True, f.env[name]
            f = f.closure
        return False, None


Summary = Callable[["Evaluator", list, dict, Any], Any]


class Evaluator:
    def __init__(self, prog: Program, summaries: Dict[str, Summary]):
        self.prog = prog
        self.summaries = summaries
        self.entry_hooks: Dict[str, Summary] = {}      # may return NotImplemented: evaluate the function
        self.choices: List[int] = []
        self.choice_pos = 0
        self.steps = 0
        self.const_cache: Dict[Tuple[str, str], Any] = {}
        self.state: Dict[str, Any] = {}       # scratch space of the summaries (reset by the driver)
        self.eq_depth = 0
        self._is_gen: Dict[str, bool] = {}
        self._getter: Dict[Tuple[str, str], Any] = {}
        self._mcache: Dict[Tuple[str, str], Any] = {}
        self._globals: Dict[Tuple[str, str], Any] = {}
        self.functions_evaluated: Dict[str, int] = {}
        self.summaries_used: Dict[str, int] = {}

    # -- choice oracle ----------------------------------------------------------------------------------------------
    def choose(self, arity: int, label: str) -> int:
        if arity <= 1:
            return 0
        if self.choice_pos < len(self.choices):
            c = self.choices[self.choice_pos]
            self.choice_pos += 1
            return c
        raise NeedChoice(arity, label)

    # -- classes ----------------------------------------------------------------------------------------------------
    def cls_of(self, name: str) -> Cls:
        cands = self.prog.find_class(name)
        if len(cands) != 1:
            raise AnalysisError(f"absint: class {name} not found exactly once in the package ({len(cands)})")
        return Cls(name, cands[0])

    def is_instance(self, v, c) -> bool:
        if isinstance(c, (tuple, list, OSet)):
            return any(self.is_instance(v, x) for x in c)
        if not isinstance(c, Cls):
            raise AnalysisError(f"absint: isinstance() against {show(c)}")
        if isinstance(v, Cls):
            return c.name in ("type", "object")
        if isinstance(v, ModelDict):
            return c.name in ("dict", "object")
        if isinstance(v, Node):
            if c.info is None:
                return c.name == "object"
            return any(k == c.info for k in self.prog.mro(v.info))
        if isinstance(v, OSet):
            return c.name in ("set", "object")
        if isinstance(v, bool):
            return c.name in ("bool", "int", "object")
        for py, nm in ((list, "list"), (tuple, "tuple"), (dict, "dict"), (int, "int"), (str, "str"), (frozenset, "frozenset")):
            if isinstance(v, py):
                return c.name in (nm, "object")
        if v is None:
            return c.name == "object"
        raise AnalysisError(f"absint: isinstance() of {show(v)}")

    def instantiate(self, c: Cls, args: list, kwargs: dict, where: str):
        if c.info is None:
            return self.call_py_type(c, args, kwargs, where)
        node = Node(c.info, {})
        init = self.prog.lookup_method(c.info, "__init__")
        if init:
            self.call_func(FuncVal(init[0], node), args, kwargs, where)
        return node

    def call_py_type(self, c: Cls, args, kwargs, where):
        if kwargs:
            raise AnalysisError(f"absint: {c.name}(**kwargs) at {where}")
        if c.name == "object" and not args:
            return Opaque(where)
        if c.name == "list":
            return list(self.iterate(args[0], where)) if args else []
        if c.name == "tuple":
            return tuple(self.iterate(args[0], where)) if args else ()
        if c.name in ("set", "frozenset"):
            out = OSet()
            for x in (self.iterate(args[0], where) if args else []):
                if not self.contains(out, x, where):
                    out.append(x)
            return out
        if c.name == "dict" and not args:
            return {}
        if c.name == "bool":
            return self.truth(args[0], where) if args else False
        if c.name == "str":
            return self.to_str(args[0], where) if args else ""
        if c.name == "type" and len(args) == 1:
            return self.type_of(args[0])
        raise AnalysisError(f"absint: call of {c.name}() at {where}")

    def to_str(self, v, where="str()") -> str:
        if isinstance(v, str):
            return v
        if isinstance(v, Node):
            for nm in ("__str__", "__repr__"):
                m = self.prog.lookup_method(v.info, nm)
                if m:
                    return self.to_str(self.call_func(FuncVal(m[0], v), [], {}, where), where)
            return f"<{v.info.name} object>"
        return self.to_repr(v, where)

    def to_repr(self, v, where="repr()") -> str:
        if isinstance(v, str):
            return repr(v)
        if isinstance(v, Cls):
            return f"<class '{v.name}'>"
        if isinstance(v, Node):
            m = self.prog.lookup_method(v.info, "__repr__")
            if m:
                return self.to_str(self.call_func(FuncVal(m[0], v), [], {}, where), where)
            return f"<{v.info.name} object>"
        if isinstance(v, ModelDict):
            return "{" + v.tag + "}"
        if isinstance(v, OSet):
            return "{" + ", ".join(self.to_repr(x, where) for x in v) + "}"
        if isinstance(v, list):
            return "[" + ", ".join(self.to_repr(x, where) for x in v) + "]"
        if isinstance(v, tuple):
            return "(" + ", ".join(self.to_repr(x, where) for x in v) + ("," if len(v) == 1 else "") + ")"
        if isinstance(v, dict):
            return "{" + ", ".join(f"{self.to_repr(k, where)}: {self.to_repr(x, where)}" for k, x in v.items()) + "}"
        if isinstance(v, frozenset):
            return "frozenset({" + ", ".join(sorted(map(repr, v))) + "})"
        if v is None or isinstance(v, (bool, int, float)):
            return repr(v)
        raise AnalysisError(f"absint: text of {type(v).__name__} at {where}")

    def type_of(self, v) -> Cls:
        if isinstance(v, Node):
            return Cls(v.info.name, v.info)
        if isinstance(v, Cls):
            return Cls("type")
        if isinstance(v, ModelDict):
            return Cls("dict")
        if isinstance(v, OSet):
            return Cls("set")
        if isinstance(v, bool):
            return Cls("bool")
        for py, nm in ((list, "list"), (tuple, "tuple"), (dict, "dict"), (int, "int"), (str, "str")):
            if isinstance(v, py):
                return Cls(nm)
        raise AnalysisError(f"absint: type() of {show(v)}")

    # -- protocol helpers ---------------------------------------------------------------------------------------------
    def truth(self, v, where: str) -> bool:
        if isinstance(v, Node):
            for nm in ("__bool__", "__len__"):
                m = self._methods(v.info, nm)
                if m:
                    r = self.call_func(FuncVal(m[0], v), [], {}, where)
                    return bool(r)
            return True
        if isinstance(v, (Cls, FuncVal, Builtin, BoundBuiltin)):
            return True
        if isinstance(v, ModelDict):
            return True         # a field set taken from a sample object is never empty (empty objects become Dict[str, Any])
        if isinstance(v, Iter):
            return True
        if v is None or isinstance(v, (bool, int, str, list, tuple, dict, frozenset)):
            return bool(v)
        raise AnalysisError(f"absint: truth value of {show(v)} at {where}")

    def iterate(self, v, where: str) -> list:
        if isinstance(v, Iter):
            rest = v.items[v.pos:]
            v.pos = len(v.items)
            return rest
        if isinstance(v, (list, tuple)):
            return list(v)
        if isinstance(v, frozenset):
            return sorted(v)
        if isinstance(v, dict):
            return list(v)
        if isinstance(v, Node):
            m = self.prog.lookup_method(v.info, "__iter__")
            if not m:
                raise PyRaise("TypeError", where)
            r = self.call_func(FuncVal(m[0], v), [], {}, where)
            return self.iterate(r, where)
        if isinstance(v, ModelDict):
            return []
        raise AnalysisError(f"absint: iteration over {show(v)} at {where}")

    def equal(self, a, b) -> bool:
        """`a == b` as Python decides it: the `__eq__` of a repository class is evaluated from its source; classes without one
        compare by identity; containers element by element."""
        if a is b:
            return True
        for x, y in ((a, b), (b, a)):
            if isinstance(x, Node):
                m = self._methods(x.info, "__eq__")
                if m:
                    self.eq_depth += 1
                    if self.eq_depth > 60:
                        self.eq_depth = 0
                        raise PyRaise("RecursionError", f"{m[0].relpath}:{m[0].node.lineno} (__eq__ of {x.info.name} does not end)")
                    try:
                        r = self.call_func(FuncVal(m[0], x), [y], {}, "==")
                    finally:
                        self.eq_depth = max(0, self.eq_depth - 1)
                    if r is NOT_IMPLEMENTED:
                        continue
                    return self.truth(r, "==")
                if isinstance(y, Node) and self._methods(y.info, "__eq__"):
                    continue
                return False            # no __eq__: identity (and a is not b)
        if isinstance(a, OSet) or isinstance(b, OSet):
            return isinstance(a, OSet) and isinstance(b, OSet) and len(a) == len(b) and all(self.contains(b, x, "==") for x in a)
        if isinstance(a, (list, tuple)) and isinstance(b, (list, tuple)):
            return type(a) is type(b) and len(a) == len(b) and all(self.equal(x, y) for x, y in zip(a, b))
        if isinstance(a, dict) and isinstance(b, dict):
            if len(a) != len(b):
                return False
            for k, v in a.items():
                hit = [v2 for k2, v2 in b.items() if key(k) == key(k2)]
                if not hit or not self.equal(v, hit[0]):
                    return False
            return True
        return key(a) == key(b)

    def contains(self, container, item, where: str) -> bool:
        if isinstance(container, Node):
            m = self.prog.lookup_method(container.info, "__contains__")
            if m:
                return self.truth(self.call_func(FuncVal(m[0], container), [item], {}, where), where)
            return any(self.equal(x, item) for x in self.iterate(container, where))
        if isinstance(container, dict):
            return any(self.equal(x, item) for x in container)
        if isinstance(container, (list, tuple, frozenset)):
            return any(x is item or self.equal(x, item) for x in container)
        if isinstance(container, Iter):
            return any(self.equal(x, item) for x in self.iterate(container, where))
        raise AnalysisError(f"absint: `in` on {show(container)} at {where}")

    def length(self, v, where: str) -> int:
        if isinstance(v, Node):
            m = self.prog.lookup_method(v.info, "__len__")
            if not m:
                raise PyRaise("TypeError", where)
            return self.call_func(FuncVal(m[0], v), [], {}, where)
        if isinstance(v, (list, tuple, dict, frozenset, str)):
            return len(v)
        raise AnalysisError(f"absint: len() of {show(v)} at {where}")

    # -- names --------------------------------------------------------------------------------------------------------
    def global_name(self, mod: Module, name: str, where: str):
        gk = (mod.relpath, name)
        if gk in self._globals:
            return self._globals[gk]
        v = self._global_name(mod, name, where)
        self._globals[gk] = v
        return v

    def _global_name(self, mod: Module, name: str, where: str):
        r = self.prog.resolve_global(mod, name)
        if isinstance(r, ClassInfo):
            return Cls(r.name, r)
        if isinstance(r, FuncInfo):
            return FuncVal(r)
        if isinstance(r, ConstRef) and r.value is not None:
            ck = (r.module.relpath, r.name)
            if ck not in self.const_cache:
                self.const_cache[ck] = self.eval(r.value, Frame(None, r.module, {}))
            return self.const_cache[ck]
        if isinstance(r, External) and r.dotted in EXTERNALS:
            return Builtin(EXTERNALS[r.dotted])
        if name in PY_TYPES:
            return Cls(name)
        if name in ("len", "isinstance", "iter", "next", "any", "all", "sorted", "super", "min", "max", "sum", "reversed",
                    "enumerate", "zip", "map", "filter", "range", "id", "hasattr", "getattr", "issubclass", "repr", "hash",
                    "print", "callable", "staticmethod"):
            return Builtin(name)
        if name in ("ValueError", "TypeError", "IndexError", "KeyError", "StopIteration", "RuntimeError", "Exception",
                    "NotImplementedError", "AssertionError", "AttributeError"):
            return Cls(name)
        if name in ("True", "False", "None"):
            return {"True": True, "False": False, "None": None}[name]
        if name == "NotImplemented":
            return NOT_IMPLEMENTED
        raise AnalysisError(f"absint: name `{name}` at {where} is not something the evaluator knows "
                            f"({'external ' + r.dotted if isinstance(r, External) else 'unresolved'})")

    def _methods(self, info: ClassInfo, name: str):
        k = (info.key, name)
        if k not in self._mcache:
            self._mcache[k] = self.prog.lookup_method(info, name)
        return self._mcache[k]

    # -- attributes ---------------------------------------------------------------------------------------------------
    def get_attr(self, obj, attr: str, where: str):
        if isinstance(obj, Node):
            if attr in obj.attrs:
                return obj.attrs[attr]
            ms = self._methods(obj.info, attr)
            if ms:
                getter = self._getter.get((obj.info.key, attr), False)
                if getter is False:
                    g_ = [m for m in ms if "property" in m.decorators]
                    getter = self._getter[(obj.info.key, attr)] = g_ or None
                if getter:
                    return self.call_func(FuncVal(getter[0], obj), [], {}, where)
                m = ms[0]
                if m.is_static:
                    return FuncVal(m)
                if m.is_classmethod:
                    return FuncVal(m, Cls(obj.info.name, obj.info))
                return FuncVal(m, obj)
            ca = self.prog.lookup_class_attr(obj.info, attr)
            if ca is not None and ca.value is not None:
                return self.eval(ca.value, Frame(None, ca.module, {}))
            if attr == "__class__":
                return Cls(obj.info.name, obj.info)
            raise PyRaise("AttributeError", f"{where} (.{attr} of {obj.info.name})")
        if isinstance(obj, Cls):
            if attr == "__name__":
                return obj.name
            if obj.info is not None:
                ms = self.prog.lookup_method(obj.info, attr)
                if ms:
                    m = ms[0]
                    if m.is_static:
                        return FuncVal(m)
                    if m.is_classmethod:
                        return FuncVal(m, obj)
                    return FuncVal(m)           # plain function taken from the class
                ca = self.prog.lookup_class_attr(obj.info, attr)
                if ca is not None and ca.value is not None:
                    return self.eval(ca.value, Frame(None, ca.module, {}))
            raise AnalysisError(f"absint: attribute .{attr} of class {obj.name} at {where}")
        if isinstance(obj, SuperProxy):
            ms = self.prog.lookup_method(obj.self_val.info if isinstance(obj.self_val, Node) else obj.self_val.info, attr, after=obj.cls)
            if not ms:
                if attr == "__init__":
                    return Builtin("noop")
                raise AnalysisError(f"absint: super().{attr} not found at {where}")
            return FuncVal(ms[0], obj.self_val)
        if isinstance(obj, (list, dict, tuple, frozenset, str, ModelDict)):
            known = {"dict": ("keys", "items", "values", "get", "pop", "setdefault", "update", "copy", "clear"),
                     "list": ("append", "extend", "insert", "remove", "index", "count", "pop", "copy", "clear", "reverse", "sort"),
                     "set": ("add", "update", "discard", "remove", "copy", "union", "pop", "clear", "difference", "intersection",
                             "isdisjoint", "issubset", "issuperset", "difference_update", "intersection_update"),
                     "tuple": ("index", "count"), "frozenset": ("union", "copy"),
                     "str": ("join", "format", "split", "strip", "lower", "upper", "startswith", "endswith", "replace")}
            kind = "set" if isinstance(obj, OSet) else ("dict" if isinstance(obj, (dict, ModelDict)) else type(obj).__name__)
            if attr not in known.get(kind, ()):
                raise PyRaise("AttributeError", f"{where} ('{kind}' object has no attribute '{attr}')")
            return BoundBuiltin(obj, attr)
        if isinstance(obj, Builtin) and obj.name == "chain" and attr == "from_iterable":
            return Builtin("chain_from_iterable")
        raise AnalysisError(f"absint: attribute .{attr} of {show(obj)} at {where}")

    def set_attr(self, obj, attr: str, value, where: str):
        if not isinstance(obj, Node):
            raise AnalysisError(f"absint: attribute store on {show(obj)} at {where}")
        ms = self.prog.lookup_method(obj.info, attr)
        setter = [m for m in ms if any(d.endswith(".setter") for d in m.decorators)]
        if setter:
            self.call_func(FuncVal(setter[0], obj), [value], {}, where)
            return
        if ms and any("property" in m.decorators for m in ms):
            raise PyRaise("AttributeError", f"{where} (read-only property {attr})")
        obj.attrs[attr] = value

    # -- calls --------------------------------------------------------------------------------------------------------
    def call(self, fn, args: list, kwargs: dict, where: str):
        if isinstance(fn, FuncVal):
            return self.call_func(fn, args, kwargs, where)
        if isinstance(fn, Cls):
            return self.instantiate(fn, args, kwargs, where)
        if isinstance(fn, Builtin):
            return self.call_builtin(fn.name, args, kwargs, where)
        if isinstance(fn, BoundBuiltin):
            return self.call_method_builtin(fn.obj, fn.name, args, kwargs, where)
        raise AnalysisError(f"absint: call of {show(fn)} at {where}")

    def call_func(self, fv: FuncVal, args: list, kwargs: dict, where: str):
        fi = fv.fi
        qn = fi.qualname
        if qn in self.summaries:
            r = self.summaries[qn](self, args, kwargs, fv.self_val)
            if r is not NotImplemented:
                self.summaries_used[qn] = self.summaries_used.get(qn, 0) + 1
                return r
        if qn in self.entry_hooks:
            r = self.entry_hooks[qn](self, args, kwargs, fv.self_val)
            if r is not NotImplemented:
                self.summaries_used[qn + " (field set)"] = self.summaries_used.get(qn + " (field set)", 0) + 1
                return r
        if isinstance(fi.node, ast.Lambda):
            body_expr = fi.node.body
        else:
            body_expr = None
        self.functions_evaluated[fi.key] = self.functions_evaluated.get(fi.key, 0) + 1
        a = fi.node.args
        names = [x.arg for x in a.posonlyargs + a.args]
        env: dict = {}
        pos = list(args)
        if fv.self_val is not None and not fi.is_static:
            pos = [fv.self_val] + pos
        defaults = [None] * (len(names) - len(a.defaults)) + list(a.defaults)
        for i, nm in enumerate(names):
            if i < len(pos):
                env[nm] = pos[i]
            elif nm in kwargs:
                env[nm] = kwargs.pop(nm)
            elif defaults[i] is not None:
                env[nm] = self.eval(defaults[i], Frame(None, fi.module, {}))
            else:
                raise PyRaise("TypeError", f"{where} (missing argument {nm} of {qn})")
        extra = pos[len(names):]
        if a.vararg:
            env[a.vararg.arg] = tuple(extra)
        elif extra:
            raise PyRaise("TypeError", f"{where} (too many arguments for {qn})")
        for i, ka in enumerate(a.kwonlyargs):
            if ka.arg in kwargs:
                env[ka.arg] = kwargs.pop(ka.arg)
            elif a.kw_defaults[i] is not None:
                env[ka.arg] = self.eval(a.kw_defaults[i], Frame(None, fi.module, {}))
            else:
                raise PyRaise("TypeError", f"{where} (missing keyword {ka.arg})")
        if a.kwarg:
            env[a.kwarg.arg] = dict(kwargs)
        elif kwargs:
            raise PyRaise("TypeError", f"{where} (unexpected keyword {sorted(kwargs)} for {qn})")
        frame = Frame(fi, fi.module, env, fv.closure)
        if body_expr is not None:
            return self.eval(body_expr, frame)
        is_gen = self._is_gen.get(fi.key)
        if is_gen is None:
            is_gen = self._is_gen[fi.key] = any(isinstance(n, (ast.Yield, ast.YieldFrom)) for n in _walk_own(fi.node))
        if is_gen:
            frame.yields = []
        try:
            self.exec_block(fi.node.body, frame)
            ret = None
        except _Return as r:
            ret = r.value
        if is_gen:
            return Iter(frame.yields)
        return ret

    def call_builtin(self, name: str, args, kwargs, where):
        if name == "noop":
            return None
        if name == "len":
            return self.length(args[0], where)
        if name == "isinstance":
            return self.is_instance(args[0], args[1])
        if name == "issubclass":
            a, b = args
            if isinstance(a, Cls) and isinstance(b, Cls) and a.info is not None and b.info is not None:
                return b.info in self.prog.mro(a.info)
            if isinstance(a, Cls) and isinstance(b, Cls):
                return a.name == b.name or b.name == "object" or (a.name, b.name) in (("bool", "int"),)
            raise AnalysisError(f"absint: issubclass at {where}")
        if name == "hash":
            v = args[0]
            if isinstance(v, Node):
                # Python: the first class of the MRO that defines __eq__ or __hash__ decides; __eq__ alone makes it unhashable
                for k in self.prog.mro(v.info):
                    if "__hash__" in k.methods:
                        return self.call_func(FuncVal(k.methods["__hash__"][0], v), [], {}, where)
                    if "__hash__" in k.assigns:
                        raise PyRaise("TypeError", f"{where} (unhashable {v.info.name})")
                    if "__eq__" in k.methods:
                        raise PyRaise("TypeError", f"{where} (unhashable {v.info.name}: __eq__ without __hash__)")
                return id(v)
            if isinstance(v, Cls):
                return hash(("cls", v.name))
            if isinstance(v, (ModelDict, dict, list, OSet)):
                raise PyRaise("TypeError", f"{where} (unhashable)")
            if isinstance(v, tuple):
                return hash(tuple(self.call_builtin("hash", [x], {}, where) for x in v))
            return hash(v)
        if name == "isclass":
            return isinstance(args[0], Cls)
        if name in ("getattr", "hasattr") and len(args) >= 2 and isinstance(args[1], str):
            try:
                v = self.get_attr(args[0], args[1], where)
            except PyRaise as e:
                if e.etype != "AttributeError":
                    raise
                if name == "hasattr":
                    return False
                if len(args) > 2:
                    return args[2]
                raise
            except AnalysisError:
                if name == "hasattr":
                    return False
                if len(args) > 2:
                    return args[2]
                raise
            return True if name == "hasattr" else v
        if name == "staticmethod":
            return args[0]                 # read back through the class without binding (FuncVal of a module-level function)
        if name == "chain":
            return Iter([x for a in args for x in self.iterate(a, where)])
        if name == "chain_from_iterable":
            return Iter([x for a in self.iterate(args[0], where) for x in self.iterate(a, where)])
        if name == "iter":
            return Iter(self.iterate(args[0], where))
        if name == "next":
            it = args[0]
            if not isinstance(it, Iter):
                raise AnalysisError(f"absint: next() of {show(it)} at {where}")
            if it.pos >= len(it.items):
                if len(args) > 1:
                    return args[1]
                raise PyRaise("StopIteration", where)
            it.pos += 1
            return it.items[it.pos - 1]
        if name in ("any", "all"):
            vals = [self.truth(x, where) for x in self.iterate(args[0], where)]
            return any(vals) if name == "any" else all(vals)
        if name == "reversed":
            return Iter(reversed(self.iterate(args[0], where)))
        if name == "enumerate":
            return Iter([(i, x) for i, x in enumerate(self.iterate(args[0], where))])
        if name == "zip":
            return Iter(list(zip(*[self.iterate(a, where) for a in args])))
        if name == "map":
            cols = [self.iterate(a, where) for a in args[1:]]
            return Iter([self.call(args[0], list(xs), {}, where) for xs in zip(*cols)])
        if name == "filter":
            f = args[0]
            return Iter([x for x in self.iterate(args[1], where) if self.truth(x if f is None else self.call(f, [x], {}, where), where)])
        if name == "range":
            return Iter(range(*args))
        if name == "sum":
            return sum(self.iterate(args[0], where))
        if name == "super":
            raise AnalysisError(f"absint: super() outside a method at {where}")
        if name == "id":
            return id(args[0])
        if name == "repr":
            return self.to_repr(args[0], where)
        if name == "sorted":
            xs = self.iterate(args[0], where)
            kf = kwargs.get("key")
            rev = bool(kwargs.get("reverse", False))
            if set(kwargs) - {"key", "reverse"}:
                raise AnalysisError(f"absint: sorted({sorted(kwargs)}) at {where}")
            if kf is None:
                if all(isinstance(x, (str, int)) and not isinstance(x, bool) for x in xs) and len({type(x) for x in xs}) <= 1:
                    return sorted(xs, reverse=rev)
                return sorted(xs, key=lambda x: repr(key(x)), reverse=rev)
            ks = [self.call(kf, [x], {}, where) for x in xs]
            if not all(isinstance(k_, (str, int, tuple)) for k_ in ks):
                raise AnalysisError(f"absint: sort keys that are neither text nor numbers at {where}")
            order = sorted(range(len(xs)), key=lambda i: ks[i], reverse=rev)
            return [xs[i] for i in order]
        if name == "print":
            return None
        raise AnalysisError(f"absint: builtin {name}() at {where}")

    def call_method_builtin(self, obj, name: str, args, kwargs, where):
        if isinstance(obj, OSet):
            if name == "add":
                if not self.contains(obj, args[0], where):
                    obj.append(args[0])
                return None
            if name == "update":
                for a in args:
                    for x in self.iterate(a, where):
                        if not self.contains(obj, x, where):
                            obj.append(x)
                return None
            if name in ("discard", "remove"):
                for i, x in enumerate(obj):
                    if self.equal(x, args[0]):
                        del obj[i]
                        return None
                if name == "remove":
                    raise PyRaise("KeyError", where)
                return None
            if name == "copy":
                return OSet(obj)
            if name in ("union",):
                out = OSet(obj)
                for a in args:
                    for x in self.iterate(a, where):
                        if not self.contains(out, x, where):
                            out.append(x)
                return out
            if name in ("isdisjoint", "issubset", "issuperset") and len(args) == 1:
                other = self.iterate(args[0], where)
                if name == "isdisjoint":
                    return not any(self.contains(obj, x, where) for x in other)
                if name == "issuperset":
                    return all(self.contains(obj, x, where) for x in other)
                return all(any(self.equal(x, y) for y in other) for x in obj)
            if name in ("difference", "intersection") and len(args) == 1:
                other = self.iterate(args[0], where)
                keep = (lambda x: not any(self.equal(x, y) for y in other)) if name == "difference" else (lambda x: any(self.equal(x, y) for y in other))
                return OSet([x for x in obj if keep(x)])
            if name in ("difference_update", "intersection_update") and len(args) == 1:
                other = self.iterate(args[0], where)
                keep = (lambda x: not any(self.equal(x, y) for y in other)) if name == "difference_update" else (lambda x: any(self.equal(x, y) for y in other))
                obj[:] = [x for x in obj if keep(x)]
                return None
            raise AnalysisError(f"absint: set.{name}() at {where}")
        if isinstance(obj, list):
            if name == "append":
                obj.append(args[0])
                return None
            if name == "extend":
                obj.extend(self.iterate(args[0], where))
                return None
            if name == "insert":
                obj.insert(args[0], args[1])
                return None
            if name == "remove":
                for i, x in enumerate(obj):
                    if self.equal(x, args[0]):
                        del obj[i]
                        return None
                raise PyRaise("ValueError", f"{where} (list.remove(x): x not in list)")
            if name == "index":
                for i, x in enumerate(obj):
                    if self.equal(x, args[0]):
                        return i
                raise PyRaise("ValueError", where)
            if name == "count":
                return sum(1 for x in obj if self.equal(x, args[0]))
            if name == "pop":
                if not obj:
                    raise PyRaise("IndexError", where)
                return obj.pop(*args)
            if name == "copy":
                return list(obj)
            if name == "clear":
                obj.clear()
                return None
            if name == "reverse":
                obj.reverse()
                return None
            if name == "sort" and not args:
                obj[:] = self.call_builtin("sorted", [list(obj)], dict(kwargs), where)
                return None
            raise AnalysisError(f"absint: list.{name}() at {where}")
        if isinstance(obj, tuple) and name in ("index", "count"):
            return self.call_method_builtin(list(obj), name, args, kwargs, where)
        if isinstance(obj, dict):
            if name == "items":
                return list(obj.items())
            if name == "keys":
                return list(obj.keys())
            if name == "values":
                return list(obj.values())
            if name == "get":
                for k, v in obj.items():
                    if self.equal(k, args[0]):
                        return v
                return args[1] if len(args) > 1 else None
            if name == "pop":
                for k in list(obj):
                    if self.equal(k, args[0]):
                        return obj.pop(k)
                if len(args) > 1:
                    return args[1]
                raise PyRaise("KeyError", where)
            if name == "setdefault":
                for k, v in obj.items():
                    if self.equal(k, args[0]):
                        return v
                obj[_hashable(args[0])] = args[1] if len(args) > 1 else None
                return obj[_hashable(args[0])]
            if name == "update":
                for a in args:
                    items = a.items() if isinstance(a, dict) else self.iterate(a, where)
                    for k, v in list(items):
                        self.call_method_builtin(obj, "pop", [k, None], {}, where)
                        obj[_hashable(k)] = v
                for k, v in kwargs.items():
                    obj[k] = v
                return None
            if name == "copy":
                return dict(obj)
            if name == "clear":
                obj.clear()
                return None
            raise AnalysisError(f"absint: dict.{name}() at {where}")
        if isinstance(obj, ModelDict):
            if name == "keys":
                # an opaque stand-in for the key set of this field set ("M1" and "M1/b" have the same field names, other types)
                return ["<fields of " + "+".join(sorted({t.split("/")[0] for t in obj.tag.split("+")})) + ">"]
            raise AnalysisError(f"absint: the fields of a field set are looked at ({name}()) at {where}: decided per level only")
        if isinstance(obj, str):
            if name == "join":
                return obj.join(str(x) for x in self.iterate(args[0], where))
            if name == "format":
                return obj
        raise AnalysisError(f"absint: method {name}() of {show(obj)} at {where}")

    # -- statements ---------------------------------------------------------------------------------------------------
    def exec_block(self, stmts, frame: Frame):
        for st in stmts:
            self.exec(st, frame)

    def assign(self, target, value, frame: Frame, where: str):
        if isinstance(target, ast.Name):
            frame.env[target.id] = value
        elif isinstance(target, (ast.Tuple, ast.List)):
            vals = self.iterate(value, where)
            if any(isinstance(t, ast.Starred) for t in target.elts):
                raise AnalysisError(f"absint: starred assignment target at {where}")
            if len(vals) != len(target.elts):
                raise PyRaise("ValueError", f"{where} (unpacking)")
            for t, v in zip(target.elts, vals):
                self.assign(t, v, frame, where)
        elif isinstance(target, ast.Attribute):
            self.set_attr(self.eval(target.value, frame), target.attr, value, where)
        elif isinstance(target, ast.Subscript):
            obj = self.eval(target.value, frame)
            idx = self.eval(target.slice, frame)
            if isinstance(obj, list) and isinstance(idx, int):
                if not -len(obj) <= idx < len(obj):
                    raise PyRaise("IndexError", where)
                obj[idx] = value
            elif isinstance(obj, dict):
                for k in list(obj):
                    if self.equal(k, idx):
                        obj[k] = value
                        return
                obj[_hashable(idx)] = value
            else:
                raise AnalysisError(f"absint: subscript store at {where}")
        else:
            raise AnalysisError(f"absint: assignment target {type(target).__name__} at {where}")

    def exec(self, st: ast.stmt, frame: Frame):
        self.steps += 1
        if self.steps > MAX_STEPS:
            raise AnalysisError("absint: step limit exceeded (non-terminating loop in the analysed code, or in the evaluator)")
        where = _W(frame.module, st)
        if isinstance(st, ast.Expr):
            if isinstance(st.value, ast.Constant):
                return
            self.eval(st.value, frame)
        elif isinstance(st, ast.Assign):
            v = self.eval(st.value, frame)
            for t in st.targets:
                self.assign(t, v, frame, where)
        elif isinstance(st, ast.AnnAssign):
            if st.value is not None:
                self.assign(st.target, self.eval(st.value, frame), frame, where)
        elif isinstance(st, ast.AugAssign):
            cur = self.eval(_as_load(st.target), frame)
            new = self.binop(st.op, cur, self.eval(st.value, frame), where, inplace=True)
            self.assign(st.target, new, frame, where)
        elif isinstance(st, ast.If):
            if self.truth(self.eval(st.test, frame), where):
                self.exec_block(st.body, frame)
            else:
                self.exec_block(st.orelse, frame)
        elif isinstance(st, ast.For):
            items = self.iterate(self.eval(st.iter, frame), where)
            broke = False
            for x in items:
                self.assign(st.target, x, frame, where)
                try:
                    self.exec_block(st.body, frame)
                except _Break:
                    broke = True
                    break
                except _Continue:
                    continue
            if not broke:
                self.exec_block(st.orelse, frame)
        elif isinstance(st, ast.While):
            broke = False
            while self.truth(self.eval(st.test, frame), where):
                self.steps += 1
                if self.steps > MAX_STEPS:
                    raise AnalysisError(f"absint: step limit exceeded in the loop at {where}")
                try:
                    self.exec_block(st.body, frame)
                except _Break:
                    broke = True
                    break
                except _Continue:
                    continue
            if not broke:
                self.exec_block(st.orelse, frame)
        elif isinstance(st, ast.Return):
            raise _Return(self.eval(st.value, frame) if st.value is not None else None)
        elif isinstance(st, ast.Break):
            raise _Break()
        elif isinstance(st, ast.Continue):
            raise _Continue()
        elif isinstance(st, ast.Pass):
            return
        elif isinstance(st, (ast.FunctionDef,)):
            fi = next((f for f in frame.module.all_funcs if f.node is st), None)
            if fi is None:
                raise AnalysisError(f"absint: nested function {st.name} not in the program model at {where}")
            frame.env[st.name] = FuncVal(fi, None, frame)
        elif isinstance(st, ast.Raise):
            et = "Exception"
            if st.exc is not None:
                e = st.exc.func if isinstance(st.exc, ast.Call) else st.exc
                et = norm(e)
            raise PyRaise(et, where)
        elif isinstance(st, ast.Assert):
            if not self.truth(self.eval(st.test, frame), where):
                raise PyRaise("AssertionError", where)
        elif isinstance(st, ast.Try):
            try:
                self.exec_block(st.body, frame)
            except PyRaise as e:
                for h in st.handlers:
                    names = [] if h.type is None else [norm(x) for x in (h.type.elts if isinstance(h.type, ast.Tuple) else [h.type])]
                    if h.type is None or e.etype in names or "Exception" in names or "BaseException" in names:
                        if h.name:
                            frame.env[h.name] = None
                        self.exec_block(h.body, frame)
                        break
                else:
                    self.exec_block(st.finalbody, frame)
                    raise
            else:
                self.exec_block(st.orelse, frame)
            self.exec_block(st.finalbody, frame)
        elif isinstance(st, ast.Delete):
            for t in st.targets:
                if isinstance(t, ast.Name):
                    frame.env.pop(t.id, None)
                elif isinstance(t, ast.Subscript):
                    obj = self.eval(t.value, frame)
                    idx = self.eval(t.slice, frame)
                    if isinstance(obj, list) and isinstance(idx, int) and -len(obj) <= idx < len(obj):
                        del obj[idx]
                    else:
                        raise AnalysisError(f"absint: del at {where}")
                else:
                    raise AnalysisError(f"absint: del at {where}")
        elif isinstance(st, (ast.Global, ast.Nonlocal)):
            raise AnalysisError(f"absint: global/nonlocal at {where}")
        else:
            raise AnalysisError(f"absint: statement {type(st).__name__} at {where}")

    # -- expressions --------------------------------------------------------------------------------------------------
    def binop(self, op, a, b, where, inplace=False):
        if isinstance(op, ast.Add):
            if isinstance(a, OSet) or isinstance(b, OSet):
                raise PyRaise("TypeError", where)
            if isinstance(a, list) and isinstance(b, list):
                if inplace:
                    a.extend(b)
                    return a
                return a + b
            if isinstance(a, list) and inplace:
                a.extend(self.iterate(b, where))
                return a
            if isinstance(a, tuple) and isinstance(b, tuple):
                return a + b
            if isinstance(a, (int, str)) and type(a) is type(b):
                return a + b
        if isinstance(op, ast.Sub) and isinstance(a, int) and isinstance(b, int):
            return a - b
        if isinstance(op, ast.Mult) and isinstance(a, int) and isinstance(b, int):
            return a * b
        if isinstance(op, (ast.BitOr, ast.BitAnd, ast.Sub, ast.BitXor)) and isinstance(a, OSet) and isinstance(b, OSet):
            if isinstance(op, ast.BitOr):
                return OSet(list(a) + [x for x in b if not self.contains(a, x, where)])
            if isinstance(op, ast.BitAnd):
                return OSet(x for x in a if self.contains(b, x, where))
            if isinstance(op, ast.Sub):
                return OSet(x for x in a if not self.contains(b, x, where))
            return OSet([x for x in a if not self.contains(b, x, where)] + [x for x in b if not self.contains(a, x, where)])
        if isinstance(op, (ast.BitOr, ast.BitAnd, ast.Sub, ast.BitXor)) and isinstance(a, frozenset) and isinstance(b, frozenset):
            # sets of plain strings (literal sets): Python's own operators are the semantics
            return {ast.BitOr: a | b, ast.BitAnd: a & b, ast.Sub: a - b, ast.BitXor: a ^ b}[type(op)]
        raise AnalysisError(f"absint: operator {type(op).__name__} on {show(a)} and {show(b)} at {where}")

    def compare(self, op, a, b, where) -> bool:
        if isinstance(op, ast.Is):
            return self.identical(a, b)
        if isinstance(op, ast.IsNot):
            return not self.identical(a, b)
        if isinstance(op, ast.Eq):
            return self.equal(a, b)
        if isinstance(op, ast.NotEq):
            return not self.equal(a, b)
        if isinstance(op, ast.In):
            return self.contains(b, a, where)
        if isinstance(op, ast.NotIn):
            return not self.contains(b, a, where)
        if isinstance(a, bool) or isinstance(b, bool) or not (isinstance(a, int) and isinstance(b, int)):
            if isinstance(a, OSet) and isinstance(b, OSet) and isinstance(op, (ast.LtE, ast.GtE, ast.Lt, ast.Gt)):
                sub = all(self.contains(b, x, where) for x in a)
                sup = all(self.contains(a, x, where) for x in b)
                return {ast.LtE: sub, ast.GtE: sup, ast.Lt: sub and not sup, ast.Gt: sup and not sub}[type(op)]
            raise AnalysisError(f"absint: ordering comparison of {show(a)} and {show(b)} at {where}")
        return {ast.Lt: a < b, ast.LtE: a <= b, ast.Gt: a > b, ast.GtE: a >= b}[type(op)]

    def identical(self, a, b) -> bool:
        if isinstance(a, Cls) and isinstance(b, Cls):
            return a.name == b.name
        if isinstance(a, ModelDict) and isinstance(b, ModelDict):
            return a.tag == b.tag
        if a is None or b is None or isinstance(a, bool) or isinstance(b, bool):
            return a is b
        return a is b

    def call_args(self, node: ast.Call, frame: Frame, where: str):
        args = []
        for a in node.args:
            if isinstance(a, ast.Starred):
                args.extend(self.iterate(self.eval(a.value, frame), where))
            else:
                args.append(self.eval(a, frame))
        kwargs = {}
        for k in node.keywords:
            if k.arg is None:
                v = self.eval(k.value, frame)
                if not isinstance(v, dict):
                    raise AnalysisError(f"absint: **{show(v)} at {where}")
                kwargs.update(v)
            else:
                kwargs[k.arg] = self.eval(k.value, frame)
        return args, kwargs

    def comprehension(self, node, frame: Frame, where: str, emit):
        inner = Frame(frame.fi, frame.module, {}, frame)

        def rec(i: int):
            if i == len(node.generators):
                emit(inner)
                return
            g = node.generators[i]
            for x in self.iterate(self.eval(g.iter, inner if i else frame), where):
                self.assign(g.target, x, inner, where)
                if all(self.truth(self.eval(c, inner), where) for c in g.ifs):
                    rec(i + 1)
        rec(0)

    def eval(self, e: ast.expr, frame: Frame):
        self.steps += 1
        where = _W(frame.module, e)
        if isinstance(e, ast.Constant):
            return e.value
        if isinstance(e, ast.Name):
            found, v = frame.lookup(e.id)
            if found:
                return v
            return self.global_name(frame.module, e.id, where)
        if isinstance(e, ast.Attribute):
            return self.get_attr(self.eval(e.value, frame), e.attr, where)
        if isinstance(e, ast.Call):
            if isinstance(e.func, ast.Name) and e.func.id == "super" and not e.args and not frame.lookup("super")[0]:
                f = frame
                while f is not None and (f.fi is None or f.fi.cls is None):
                    f = f.closure
                if f is None:
                    raise AnalysisError(f"absint: super() outside a method at {where}")
                self_name = f.fi.params[0]
                return SuperProxy(f.env[self_name], f.fi.cls)
            fn = self.eval(e.func, frame)
            args, kwargs = self.call_args(e, frame, where)
            return self.call(fn, args, kwargs, where)
        if isinstance(e, ast.Compare):
            left = self.eval(e.left, frame)
            for op, r in zip(e.ops, e.comparators):
                right = self.eval(r, frame)
                if not self.compare(op, left, right, where):
                    return False
                left = right
            return True
        if isinstance(e, ast.BoolOp):
            v = None
            for x in e.values:
                v = self.eval(x, frame)
                t = self.truth(v, where)
                if isinstance(e.op, ast.And) and not t:
                    return v
                if isinstance(e.op, ast.Or) and t:
                    return v
            return v
        if isinstance(e, ast.UnaryOp):
            v = self.eval(e.operand, frame)
            if isinstance(e.op, ast.Not):
                return not self.truth(v, where)
            if isinstance(e.op, ast.USub) and isinstance(v, int):
                return -v
            raise AnalysisError(f"absint: unary operator at {where}")
        if isinstance(e, ast.BinOp):
            return self.binop(e.op, self.eval(e.left, frame), self.eval(e.right, frame), where)
        if isinstance(e, ast.IfExp):
            return self.eval(e.body if self.truth(self.eval(e.test, frame), where) else e.orelse, frame)
        if isinstance(e, (ast.List, ast.Tuple, ast.Set)):
            out = []
            for x in e.elts:
                if isinstance(x, ast.Starred):
                    out.extend(self.iterate(self.eval(x.value, frame), where))
                else:
                    out.append(self.eval(x, frame))
            if isinstance(e, ast.Tuple):
                return tuple(out)
            if isinstance(e, ast.Set):
                s = OSet()
                for x in out:
                    if not self.contains(s, x, where):
                        s.append(x)
                return s
            return out
        if isinstance(e, ast.Dict):
            d = {}
            for k, v in zip(e.keys, e.values):
                if k is None:
                    raise AnalysisError(f"absint: dict unpacking at {where}")
                d[_hashable(self.eval(k, frame))] = self.eval(v, frame)
            return d
        if isinstance(e, (ast.ListComp, ast.GeneratorExp, ast.SetComp)):
            out = []
            self.comprehension(e, frame, where, lambda fr: out.append(self.eval(e.elt, fr)))
            if isinstance(e, ast.GeneratorExp):
                return Iter(out)
            if isinstance(e, ast.SetComp):
                s = OSet()
                for x in out:
                    if not self.contains(s, x, where):
                        s.append(x)
                return s
            return out
        if isinstance(e, ast.DictComp):
            d = {}
            self.comprehension(e, frame, where, lambda fr: d.__setitem__(_hashable(self.eval(e.key, fr)), self.eval(e.value, fr)))
            return d
        if isinstance(e, ast.Subscript):
            obj = self.eval(e.value, frame)
            if isinstance(e.slice, ast.Slice):
                lo = self.eval(e.slice.lower, frame) if e.slice.lower is not None else None
                hi = self.eval(e.slice.upper, frame) if e.slice.upper is not None else None
                stp = self.eval(e.slice.step, frame) if e.slice.step is not None else None
                if isinstance(obj, OSet) or not isinstance(obj, (list, tuple, str)):
                    raise AnalysisError(f"absint: slice of {show(obj)} at {where}")
                return obj[lo:hi:stp]
            idx = self.eval(e.slice, frame)
            if isinstance(obj, OSet):
                raise PyRaise("TypeError", where)
            if isinstance(obj, (list, tuple)) and isinstance(idx, int):
                if not -len(obj) <= idx < len(obj):
                    raise PyRaise("IndexError", f"{where} (`{norm(e)}` on an empty or too short list)")
                return obj[idx]
            if isinstance(obj, dict):
                for k, v in obj.items():
                    if self.equal(k, idx):
                        return v
                raise PyRaise("KeyError", where)
            if isinstance(obj, Cls):
                return obj          # typing subscript: Optional[...] as an annotation value
            raise AnalysisError(f"absint: subscript of {show(obj)} at {where}")
        if isinstance(e, ast.JoinedStr):
            parts = []
            for v in e.values:
                if isinstance(v, ast.Constant):
                    parts.append(str(v.value))
                else:
                    val = self.eval(v.value, frame)
                    parts.append(self.to_repr(val, where) if v.conversion == 114 else self.to_str(val, where))
            return "".join(parts)
        if isinstance(e, ast.Lambda):
            fi = next((f for f in frame.module.all_funcs if f.node is e), None)
            if fi is None:
                raise AnalysisError(f"absint: lambda not in the program model at {where}")
            return FuncVal(fi, None, frame)
        if isinstance(e, ast.Yield):
            f = frame
            while f is not None and f.yields is None:
                f = f.closure
            if f is None:
                raise AnalysisError(f"absint: yield outside a generator at {where}")
            f.yields.append(self.eval(e.value, frame) if e.value is not None else None)
            return None
        if isinstance(e, ast.YieldFrom):
            f = frame
            while f is not None and f.yields is None:
                f = f.closure
            if f is None:
                raise AnalysisError(f"absint: yield from outside a generator at {where}")
            f.yields.extend(self.iterate(self.eval(e.value, frame), where))
            return None
        if isinstance(e, ast.NamedExpr):
            v = self.eval(e.value, frame)
            frame.env[e.target.id] = v
            return v
        if isinstance(e, ast.Starred):
            raise AnalysisError(f"absint: starred expression at {where}")
        raise AnalysisError(f"absint: expression {type(e).__name__} at {where}")


def _walk_own(fn_node):
    """Nodes of the function's own body (nested defs / lambdas excluded)."""
    stack = list(fn_node.body) if not isinstance(fn_node, ast.Lambda) else [fn_node.body]
    while stack:
        n = stack.pop()
        yield n
        for ch in ast.iter_child_nodes(n):
            if isinstance(ch, (ast.FunctionDef, ast.AsyncFunctionDef, ast.Lambda, ast.ClassDef)):
                continue
            stack.append(ch)


def _as_load(t):
    import copy
    n = copy.copy(t)
    n.ctx = ast.Load()
    return n


class _K:
    """Hashable wrapper for evaluator values used as dict keys."""
    __slots__ = ("v", "k")

    def __init__(self, v):
        self.v = v
        self.k = key(v)

    def __hash__(self):
        return hash(self.k)

    def __eq__(self, other):
        return isinstance(other, _K) and other.k == self.k


def _hashable(v):
    if isinstance(v, (str, int, bool, type(None))):
        return v
    return v if isinstance(v, Cls) else _K(v)
