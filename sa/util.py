"""Small AST helpers shared by rules."""
from __future__ import annotations

import ast
from typing import Iterable, List, Optional, Set, Tuple

from .model import FuncInfo, Module, norm, walk_no_nested

SNAPSHOT_FUNCS = {"tuple", "list", "sorted", "frozenset", "set", "dict", "copy.copy", "copy.deepcopy"}


def top_stmt_in(body: List[ast.stmt], node: ast.AST) -> Optional[int]:
    """Index of the statement of ``body`` that contains ``node``."""
    for i, st in enumerate(body):
        for x in ast.walk(st):
            if x is node:
                return i
    return None


def has_escape(stmts: Iterable[ast.stmt]) -> bool:
    """Can control leave the statement list early?  return/raise anywhere (not in nested defs); continue/break only
    when they are not captured by a loop nested inside the list."""
    def visit(node: ast.AST, in_loop: bool) -> bool:
        if isinstance(node, (ast.Return, ast.Raise)):
            return True
        if isinstance(node, (ast.Continue, ast.Break)):
            return not in_loop
        if isinstance(node, (ast.FunctionDef, ast.AsyncFunctionDef, ast.ClassDef, ast.Lambda)):
            return False
        is_loop = isinstance(node, (ast.For, ast.While))
        body_ids = {id(x) for x in (node.body if is_loop else [])}
        for ch in ast.iter_child_nodes(node):
            if visit(ch, True if id(ch) in body_ids else in_loop):
                return True
        return False
    return any(visit(st, False) for st in stmts)


def follows_unconditionally(body: List[ast.stmt], first: ast.AST, second: ast.AST) -> bool:
    """``second`` is (in) a later top-level statement of ``body`` than ``first`` and nothing in between (including the
    statement holding ``first``) can leave the block early."""
    i = top_stmt_in(body, first)
    j = top_stmt_in(body, second)
    if i is None or j is None or j <= i:
        return False
    # `second` must not sit inside a branch / loop / handler of its top-level statement (its test or iterable is fine)
    top = body[j]
    if second is top:
        pass
    elif isinstance(top, (ast.If, ast.While)):
        if not any(second is x for x in ast.walk(top.test)):
            return False
    elif isinstance(top, ast.For):
        if not any(second is x for x in ast.walk(top.iter)):
            return False
    elif isinstance(top, ast.Try):
        if not any(second is x for s_ in top.finalbody for x in ast.walk(s_)):
            return False
    between = body[i:j]
    # the statement containing `first` may itself be compound; escapes inside it count
    return not has_escape(between[1:]) and not (isinstance(body[i], (ast.If, ast.Try, ast.For, ast.While, ast.With))
                                                 and has_escape([body[i]]))


def strip_snapshot(e: ast.AST) -> Tuple[ast.AST, bool]:
    """(inner expression, is_snapshot) - tuple(x) / list(x) / sorted(x) / x[:] / x.copy()."""
    if isinstance(e, ast.Call) and norm(e.func) in SNAPSHOT_FUNCS and len(e.args) >= 1:
        return e.args[0], True
    if isinstance(e, ast.Call) and isinstance(e.func, ast.Attribute) and e.func.attr == "copy" and not e.args:
        return e.func.value, True
    if isinstance(e, ast.Subscript) and isinstance(e.slice, ast.Slice) and e.slice.lower is None and \
            e.slice.upper is None and e.slice.step is None:
        return e.value, True
    return e, False


def enclosing_loop(mod: Module, node: ast.AST) -> Optional[ast.For]:
    p = mod.parents.get(node)
    while p is not None and not isinstance(p, (ast.FunctionDef, ast.AsyncFunctionDef, ast.Lambda)):
        if isinstance(p, (ast.For, ast.While)):
            return p
        p = mod.parents.get(p)
    return None


def enclosing_stmt(mod: Module, node: ast.AST) -> Optional[ast.stmt]:
    p = node
    while p is not None and not isinstance(p, ast.stmt):
        p = mod.parents.get(p)
    return p


def enclosing_block(mod: Module, st: ast.stmt) -> Optional[List[ast.stmt]]:
    par = mod.parents.get(st)
    for fld in ("body", "orelse", "finalbody", "handlers"):
        seq = getattr(par, fld, None)
        if isinstance(seq, list) and st in seq:
            return seq
    return None


def names_in(e: ast.AST) -> Set[str]:
    return {x.id for x in ast.walk(e) if isinstance(x, ast.Name)}


def single_def(fi: FuncInfo, name: str) -> Optional[ast.AST]:
    """Value of the only assignment to local ``name`` in the function (None if zero or several)."""
    defs = []
    for n in walk_no_nested(fi.node):
        if isinstance(n, ast.Assign) and any(isinstance(t, ast.Name) and t.id == name for t in n.targets):
            defs.append(n.value)
        elif isinstance(n, ast.AnnAssign) and isinstance(n.target, ast.Name) and n.target.id == name and n.value:
            defs.append(n.value)
        elif isinstance(n, ast.AugAssign) and isinstance(n.target, ast.Name) and n.target.id == name:
            defs.append(None)
    return defs[0] if len(defs) == 1 else None


def all_defs(fi: FuncInfo, name: str) -> List[ast.AST]:
    out = []
    for n in walk_no_nested(fi.node):
        if isinstance(n, ast.Assign):
            for t in n.targets:
                if isinstance(t, ast.Name) and t.id == name:
                    out.append(n)
                elif isinstance(t, (ast.Tuple, ast.List)) and any(isinstance(e, ast.Name) and e.id == name for e in t.elts):
                    out.append(n)
        elif isinstance(n, (ast.AnnAssign, ast.AugAssign)) and isinstance(n.target, ast.Name) and n.target.id == name:
            out.append(n)
        elif isinstance(n, (ast.For, ast.comprehension)) and any(isinstance(x, ast.Name) and x.id == name for x in ast.walk(n.target)):
            out.append(n)
        elif isinstance(n, ast.withitem) and n.optional_vars is not None and any(
                isinstance(x, ast.Name) and x.id == name for x in ast.walk(n.optional_vars)):
            out.append(n)
    return out
