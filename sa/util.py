"""Small AST helpers shared by rules."""
from __future__ import annotations

import ast
from typing import Iterable, List, Optional, Set, Tuple

from .model import FuncInfo, Module, norm, walk_no_nested

SNAPSHOT_FUNCS = {"tuple", "list", "sorted", "frozenset", "set", "dict", "copy.copy", "copy.deepcopy"}


def top_stmt_in(body: List[ast.stmt], node: ast.AST) -> Optional[int]:
    """Index of the statement of ``body`` that contains ``node``."""
    for i, st in enumerate(body):
        for x in ast.walk(st):
            if x is node:
                return i
    return None


def has_escape(stmts: Iterable[ast.stmt]) -> bool:
    """Can control leave the statement list early?  return/raise anywhere (not in nested defs); continue/break only
    when they are not captured by a loop nested inside the list."""
    def visit(node: ast.AST, in_loop: bool) -> bool:
        if isinstance(node, (ast.Return, ast.Raise)):
            return True
        if isinstance(node, (ast.Continue, ast.Break)):
            return not in_loop
        if isinstance(node, (ast.FunctionDef, ast.AsyncFunctionDef, ast.ClassDef, ast.Lambda)):
            return False
        is_loop = isinstance(node, (ast.For, ast.While))
        body_ids = {id(x) for x in (node.body if is_loop else [])}
        for ch in ast.iter_child_nodes(node):
            if visit(ch, True if id(ch) in body_ids else in_loop):
                return True
        return False
    return any(visit(st, False) for st in stmts)


def follows_unconditionally(body: List[ast.stmt], first: ast.AST, second: ast.AST) -> bool:
    """``second`` is (in) a later top-level statement of ``body`` than ``first`` and nothing in between (including the
    statement holding ``first``) can leave the block early."""
    i = top_stmt_in(body, first)
    j = top_stmt_in(body, second)
    if i is None or j is None or j <= i:
        return False
    # `second` must not sit inside a branch / loop / handler of its top-level statement (its test or iterable is fine)
    top = body[j]
    if second is top:
        pass
    elif isinstance(top, (ast.If, ast.While)):
        if not any(second is x for x in ast.walk(top.test)):
            return False
    elif isinstance(top, ast.For):
        if not any(second is x for x in ast.walk(top.iter)):
            return False
    elif isinstance(top, ast.Try):
        if not any(second is x for s_ in top.finalbody for x in ast.walk(s_)):
            return False
    between = body[i:j]
    # the statement containing `first` may itself be compound; escapes inside it count
    return not has_escape(between[1:]) and not (isinstance(body[i], (ast.If, ast.Try, ast.For, ast.While, ast.With))
                                                 and has_escape([body[i]]))


def strip_snapshot(e: ast.AST) -> Tuple[ast.AST, bool]:
    """(inner expression, is_snapshot) - tuple(x) / list(x) / sorted(x) / x[:] / x.copy()."""
    if isinstance(e, ast.Call) and norm(e.func) in SNAPSHOT_FUNCS and len(e.args) >= 1:
        return e.args[0], True
    if isinstance(e, ast.Call) and isinstance(e.func, ast.Attribute) and e.func.attr == "copy" and not e.args:
        return e.func.value, True
    if isinstance(e, ast.Subscript) and isinstance(e.slice, ast.Slice) and e.slice.lower is None and \
            e.slice.upper is None and e.slice.step is None:
        return e.value, True
    return e, False


def enclosing_loop(mod: Module, node: ast.AST) -> Optional[ast.For]:
    p = mod.parents.get(node)
    while p is not None and not isinstance(p, (ast.FunctionDef, ast.AsyncFunctionDef, ast.Lambda)):
        if isinstance(p, (ast.For, ast.While)):
            return p
        p = mod.parents.get(p)
    return None


def enclosing_stmt(mod: Module, node: ast.AST) -> Optional[ast.stmt]:
    p = node
    while p is not None and not isinstance(p, ast.stmt):
        p = mod.parents.get(p)
    return p


def enclosing_block(mod: Module, st: ast.stmt) -> Optional[List[ast.stmt]]:
    par = mod.parents.get(st)
    for fld in ("body", "orelse", "finalbody", "handlers"):
        seq = getattr(par, fld, None)
        if isinstance(seq, list) and st in seq:
            return seq
    return None


def names_in(e: ast.AST) -> Set[str]:
    return {x.id for x in ast.walk(e) if isinstance(x, ast.Name)}


def single_def(fi: FuncInfo, name: str) -> Optional[ast.AST]:
    """Value of the only assignment to local ``name`` in the function (None if zero or several)."""
    defs = []
    for n in walk_no_nested(fi.node):
        if isinstance(n, ast.Assign) and any(isinstance(t, ast.Name) and t.id == name for t in n.targets):
            defs.append(n.value)
        elif isinstance(n, ast.AnnAssign) and isinstance(n.target, ast.Name) and n.target.id == name and n.value:
            defs.append(n.value)
        elif isinstance(n, ast.AugAssign) and isinstance(n.target, ast.Name) and n.target.id == name:
            defs.append(None)
    return defs[0] if len(defs) == 1 else None


def all_defs(fi: FuncInfo, name: str) -> List[ast.AST]:
    out = []
    for n in walk_no_nested(fi.node):
        if isinstance(n, ast.Assign):
            for t in n.targets:
                if isinstance(t, ast.Name) and t.id == name:
                    out.append(n)
                elif isinstance(t, (ast.Tuple, ast.List)) and any(isinstance(e, ast.Name) and e.id == name for e in t.elts):
                    out.append(n)
        elif isinstance(n, (ast.AnnAssign, ast.AugAssign)) and isinstance(n.target, ast.Name) and n.target.id == name:
            out.append(n)
        elif isinstance(n, (ast.For, ast.comprehension)) and any(isinstance(x, ast.Name) and x.id == name for x in ast.walk(n.target)):
            out.append(n)
        elif isinstance(n, ast.withitem) and n.optional_vars is not None and any(
                isinstance(x, ast.Name) and x.id == name for x in ast.walk(n.optional_vars)):
            out.append(n)
    return out


# ---------------------------------------------------------------------------------------------------------------------
def _atoms(test: ast.AST, want: bool) -> List[Tuple[ast.AST, bool]]:
    """Atoms whose truth value is KNOWN when `test` evaluated to `want` (conjunctions when true, disjunctions when false)."""
    if isinstance(test, ast.UnaryOp) and isinstance(test.op, ast.Not):
        return _atoms(test.operand, not want)
    if isinstance(test, ast.BoolOp):
        if isinstance(test.op, ast.And) == want:
            out: List[Tuple[ast.AST, bool]] = []
            for v in test.values:
                out += _atoms(v, want)
            return out
        return []           # `a or b` true / `a and b` false: nothing is known about a single operand
    return [(test, want)]


def atom_key(e: ast.AST, truth: bool) -> Tuple[str, bool]:
    """Canonical (text, truth) of an atom: complementary comparison operators and swapped == / is operands fall together."""
    from .paths import canon_atom
    c = canon_atom(e)
    if c is not None:
        return c[0], truth != c[1]
    return norm(e), truth


def dominating_conditions(mod: Module, node: ast.AST, stop: Optional[ast.AST] = None) -> Set[Tuple[str, bool]]:
    """What is known to hold whenever `node` is evaluated, as canonical (atom text, truth value) pairs: the tests of the enclosing
    if statements / conditional expressions / short-circuit operators on the way up to `stop` (the function), and the negations
    of earlier `if c: return | raise | continue | break` guards in the enclosing blocks.  Assignments between a guard and the node
    are not tracked: the caller asks about expressions it knows to be stable (a parameter, a loop variable)."""
    out: Set[Tuple[str, bool]] = set()
    child, p = node, mod.parents.get(node)
    while p is not None and p is not stop and not isinstance(p, (ast.FunctionDef, ast.AsyncFunctionDef, ast.Lambda, ast.ClassDef, ast.Module)):
        if isinstance(p, (ast.If, ast.While)):
            if any(child is s for s in p.body):
                out |= {atom_key(a, t) for a, t in _atoms(p.test, True)}
            elif any(child is s for s in p.orelse) and isinstance(p, ast.If):
                out |= {atom_key(a, t) for a, t in _atoms(p.test, False)}
        elif isinstance(p, ast.IfExp):
            if child is p.body:
                out |= {atom_key(a, t) for a, t in _atoms(p.test, True)}
            elif child is p.orelse:
                out |= {atom_key(a, t) for a, t in _atoms(p.test, False)}
        elif isinstance(p, ast.BoolOp):
            i = next((k for k, v in enumerate(p.values) if v is child), None)
            if i:
                for v in p.values[:i]:      # `a and X`: X runs only when a held; `a or X`: only when a did not
                    out |= {atom_key(a, t) for a, t in _atoms(v, isinstance(p.op, ast.And))}
        elif isinstance(p, ast.comprehension) and child is not p.iter:
            pass
        if isinstance(child, ast.stmt):
            blk = enclosing_block(mod, child)
            if blk is not None:
                for st in blk[:next(k for k, s in enumerate(blk) if s is child)]:
                    if isinstance(st, ast.If) and not st.orelse and st.body and isinstance(st.body[-1], (ast.Return, ast.Raise, ast.Continue, ast.Break)):
                        out |= {atom_key(a, t) for a, t in _atoms(st.test, False)}
        child, p = p, mod.parents.get(p)
    if isinstance(child, ast.stmt) and p is not None:
        blk = enclosing_block(mod, child)
        if blk is not None and any(s is child for s in blk):
            for st in blk[:next(k for k, s in enumerate(blk) if s is child)]:
                if isinstance(st, ast.If) and not st.orelse and st.body and isinstance(st.body[-1], (ast.Return, ast.Raise, ast.Continue, ast.Break)):
                    out |= {atom_key(a, t) for a, t in _atoms(st.test, False)}
    # comprehension filters
    child, p = node, mod.parents.get(node)
    while p is not None and p is not stop:
        if isinstance(p, (ast.ListComp, ast.SetComp, ast.GeneratorExp, ast.DictComp)) and child is not p.generators[0].iter:
            for g in p.generators:
                for c in g.ifs:
                    if c is not child:
                        out |= {atom_key(a, t) for a, t in _atoms(c, True)}
        child, p = p, mod.parents.get(p)
    return out
