"""Shared analysis context: program, call graph, effects, folder - built once per check run."""
from __future__ import annotations

import ast
import os
from functools import cached_property
from typing import Dict, List, Set

from .callgraph import CallGraph
from .cfg import CFG, build_cfg, reaching_defs
from .consts import Folder
from .effects import Effects
from .model import AnalysisError, FuncInfo, Program

LIB_ENTRY = [
    ("json_to_models/generator.py", "MetadataGenerator.__init__"),
    ("json_to_models/generator.py", "MetadataGenerator.generate"),
    ("json_to_models/generator.py", "MetadataGenerator.merge_field_sets"),
    ("json_to_models/generator.py", "MetadataGenerator.optimize_type"),
    ("json_to_models/models/structure.py", "compose_models"),
    ("json_to_models/models/structure.py", "compose_models_flat"),
    ("json_to_models/models/base.py", "generate_code"),
    ("json_to_models/models/string_converters.py", "convert_strings"),
    ("json_to_models/models/string_converters.py", "post_init_converters"),
]
LIB_ENTRY_CLASSES = [
    ("json_to_models/registry.py", "ModelRegistry"),
    ("json_to_models/models/base.py", "GenericModelCodeGenerator"),  # and every subclass
]
CLI_ONLY_PREFIX = ("Cli.", "FileLoaders.", "main", "register_datetime_classes", "dict_lookup", "iter_json_file",
                   "process_path", "path_split")


class Ctx:
    def __init__(self, root: str, tier: str = "quick"):
        self.root = root
        self.tier = tier
        self.prog = Program(root)
        self.cg = CallGraph(self.prog)
        self.folder = Folder(self.prog)
        self._cfgs: Dict[str, CFG] = {}
        self._rdefs: Dict[str, dict] = {}

    @cached_property
    def effects(self) -> Effects:
        return Effects(self.prog, self.cg)

    def cfg(self, fi: FuncInfo) -> CFG:
        if fi.key not in self._cfgs:
            self._cfgs[fi.key] = build_cfg(fi.node)
        return self._cfgs[fi.key]

    def rdefs(self, fi: FuncInfo):
        if fi.key not in self._rdefs:
            self._rdefs[fi.key] = reaching_defs(self.cfg(fi))
        return self._rdefs[fi.key]

    def defs_reaching(self, fi: FuncInfo, use: "ast.AST", name: str):
        """Definition statements (ast nodes; the function node itself for parameters) of ``name`` reaching ``use``."""
        cfg = self.cfg(fi)
        try:
            nid = cfg.node_containing(use, fi.module.parents)
        except AnalysisError:
            return None
        ins = self.rdefs(fi)[nid].get(name)
        if ins is None:
            return []
        out = []
        for d in ins:
            out.append(fi.node if d == cfg.entry else cfg.nodes[d].stmt)
        return out

    @cached_property
    def lib_entries(self) -> List[FuncInfo]:
        out = []
        for rel, q in LIB_ENTRY:
            out.append(self.prog.func(rel, q))
        for rel, q in LIB_ENTRY_CLASSES:
            c = self.prog.cls(rel, q)
            for k in self.prog.subclasses(c):
                for ms in k.methods.values():
                    out.extend(ms)
        return out

    @cached_property
    def lib_cone(self) -> Set[FuncInfo]:
        """Functions reachable from the library entry points (over-approximate: CHA + by-name)."""
        cone = self.cg.reachable(self.lib_entries, byname=True)
        # decorators applied to cone functions run with them
        return cone

    @cached_property
    def cli_cone(self) -> Set[FuncInfo]:
        cone = self.cg.reachable([self.prog.func("json_to_models/cli.py", "main")], byname=True)
        # closures built at import time by calls in cli.py's module / class bodies (the convert_args(...) wrappers stored in
        # Cli's dispatch tables) are called later through those tables
        import ast as _ast
        mod = self.prog.module("json_to_models/cli.py")
        factories = set()
        fn_nodes = {id(x) for f in mod.all_funcs for x in _ast.walk(f.node) if x is not f.node}
        for n in _ast.walk(mod.tree):
            if isinstance(n, _ast.Call) and id(n) not in fn_nodes and isinstance(n.func, (_ast.Name, _ast.Attribute)):
                name = n.func.id if isinstance(n.func, _ast.Name) else n.func.attr
                r = self.prog.resolve_global(mod, name) if isinstance(n.func, _ast.Name) else None
                if isinstance(r, FuncInfo):
                    factories.add(r)
        extra = []
        for f in self.prog.all_funcs():
            if f.parent in factories and any(isinstance(x, _ast.Return) and isinstance(x.value, _ast.Name) and x.value.id == f.name
                                             for x in _ast.walk(f.parent.node)):
                extra.append(f)
        if extra:
            cone = cone | self.cg.reachable(extra, byname=True) | factories
        return cone

    def is_cli_only(self, fi: FuncInfo) -> bool:
        return fi not in self.lib_cone
