"""Optional cache of the results of the two expensive rules (NF-4, PERM-1), used by the self-validation battery only
(environment J2M_RULE_CACHE=<directory>).  The key is a digest of every source the result depends on: all modules of the
analysed package and the analyser's own sources.  The registered check commands do not set the variable and always compute."""
from __future__ import annotations

import glob
import hashlib
import os
import pickle
from typing import Callable

from .report import RuleResult

HERE = os.path.dirname(os.path.abspath(__file__))


def _digest(root: str, name: str, tier: str) -> str:
    h = hashlib.sha256()
    h.update(f"{name}|{tier}|".encode())
    files = sorted(glob.glob(os.path.join(root, "json_to_models", "**", "*.py"), recursive=True)) + \
        sorted(glob.glob(os.path.join(HERE, "*.py"))) + sorted(glob.glob(os.path.join(HERE, "rules", "*.py")))
    for f in files:
        h.update(os.path.relpath(f, root if f.startswith(root) else HERE).encode())
        with open(f, "rb") as fh:
            h.update(fh.read())
    return h.hexdigest()


def cached(ctx, name: str, compute: Callable[[], RuleResult]) -> RuleResult:
    d = os.environ.get("J2M_RULE_CACHE")
    if not d:
        return compute()
    os.makedirs(d, exist_ok=True)
    p = os.path.join(d, f"{name}-{_digest(ctx.root, name, ctx.tier)}.pickle")
    if os.path.isfile(p):
        try:
            with open(p, "rb") as fh:
                return pickle.load(fh)
        except Exception:
            pass
    rr = compute()
    tmp = p + f".{os.getpid()}"
    with open(tmp, "wb") as fh:
        pickle.dump(rr, fh)
    os.replace(tmp, p)
    return rr
