"""Optional cache of the results of the two expensive rules (NF-4, PERM-1), used by the self-validation battery only
(environment J2M_RULE_CACHE=<directory>).  The key is a digest of the sources the result depends on: the modules the evaluation
starts from (type IR, generator, registry, utils), every other module it read a function from (checked on a hit) and the
analyser's own sources.  The registered check commands do not set the variable and always compute."""
from __future__ import annotations

import glob
import hashlib
import os
import pickle
from typing import Callable

from .report import RuleResult

HERE = os.path.dirname(os.path.abspath(__file__))


CORE = ("json_to_models/generator.py", "json_to_models/registry.py", "json_to_models/utils.py", "json_to_models/dynamic_typing")


def _file_digest(path: str) -> str:
    with open(path, "rb") as fh:
        return hashlib.sha256(fh.read()).hexdigest()


def _core_files(root: str):
    out = []
    for c in CORE:
        p = os.path.join(root, c)
        if os.path.isdir(p):
            out += sorted(glob.glob(os.path.join(p, "**", "*.py"), recursive=True))
        elif os.path.isfile(p):
            out.append(p)
    return out


def _digest(root: str, name: str, tier: str) -> str:
    """Key: the modules the two evaluated rules start from (the type IR, the generator, the registry) and the analyser itself.  A
    module outside this core matters only if the evaluation reached it; those are recorded with the entry and checked on a hit."""
    h = hashlib.sha256()
    h.update(f"{name}|{tier}|".encode())
    files = _core_files(root) + sorted(glob.glob(os.path.join(HERE, "*.py"))) + sorted(glob.glob(os.path.join(HERE, "rules", "*.py")))
    for f in files:
        h.update(os.path.relpath(f, root if f.startswith(root) else HERE).encode())
        with open(f, "rb") as fh:
            h.update(fh.read())
    return h.hexdigest()


def cached(ctx, name: str, compute: Callable[[], RuleResult]) -> RuleResult:
    d = os.environ.get("J2M_RULE_CACHE")
    if not d:
        return compute()
    os.makedirs(d, exist_ok=True)
    p = os.path.join(d, f"{name}-{_digest(ctx.root, name, ctx.tier)}.pickle")
    if os.path.isfile(p):
        try:
            with open(p, "rb") as fh:
                rr, consulted = pickle.load(fh)
            if all(os.path.isfile(os.path.join(ctx.root, rel)) and _file_digest(os.path.join(ctx.root, rel)) == dg for rel, dg in consulted.items()):
                return rr
        except Exception:
            pass
    rr = compute()
    # modules outside the core that the evaluation read a function from
    core = {os.path.relpath(f, ctx.root) for f in _core_files(ctx.root)}
    consulted = {}
    for k in getattr(rr, "analysed", []) or []:
        rel = k.split("::", 1)[0]
        if rel not in core and os.path.isfile(os.path.join(ctx.root, rel)):
            consulted[rel] = _file_digest(os.path.join(ctx.root, rel))
    tmp = p + f".{os.getpid()}"
    with open(tmp, "wb") as fh:
        pickle.dump((rr, consulted), fh)
    os.replace(tmp, p)
    return rr
