"""E0 - program model: modules, classes, functions, name/callee resolution (CHA + by-name fallback).

Everything is computed from source text with ``ast``; nothing from the analysed package is imported.
"""
from __future__ import annotations

import ast
import builtins
import os
from dataclasses import dataclass, field
from typing import Dict, Iterable, Iterator, List, Optional, Set, Tuple, Union

PKG = "json_to_models"


from .canon import canonicalise, property_names


class AnalysisError(Exception):
    """The analyser cannot decide (anchor vanished, unsupported construct, floor not met): exit 2."""


def norm(node: ast.AST) -> str:
    """Normalised text of a node: used in construct keys (never line numbers)."""
    try:
        return ast.unparse(node)
    except Exception:  # pragma: no cover
        return ast.dump(node)


@dataclass
class FuncInfo:
    module: "Module"
    node: Union[ast.FunctionDef, ast.AsyncFunctionDef, ast.Lambda]
    qualname: str
    cls: Optional["ClassInfo"] = None
    parent: Optional["FuncInfo"] = None  # enclosing function for closures

    @property
    def name(self) -> str:
        return self.qualname.rsplit(".", 1)[-1]

    @property
    def relpath(self) -> str:
        return self.module.relpath

    @property
    def decorators(self) -> List[str]:
        return [norm(d) for d in getattr(self.node, "decorator_list", [])]

    @property
    def is_property(self) -> bool:
        return any(d == "property" or d.endswith(".setter") or d.endswith(".deleter") or d.endswith(".getter")
                   for d in self.decorators)

    @property
    def is_static(self) -> bool:
        return "staticmethod" in self.decorators

    @property
    def is_classmethod(self) -> bool:
        return "classmethod" in self.decorators or "cached_classmethod" in self.decorators

    @property
    def params(self) -> List[str]:
        a = self.node.args
        out = [x.arg for x in a.posonlyargs + a.args]
        if a.vararg:
            out.append(a.vararg.arg)
        out += [x.arg for x in a.kwonlyargs]
        if a.kwarg:
            out.append(a.kwarg.arg)
        return out

    @property
    def key(self) -> str:
        return f"{self.relpath}::{self.qualname}"

    def __hash__(self):
        return hash(self.key)

    def __eq__(self, other):
        return isinstance(other, FuncInfo) and other.key == self.key

    def __repr__(self):
        return f"<Func {self.key}>"


@dataclass
class ClassInfo:
    module: "Module"
    node: ast.ClassDef
    qualname: str
    outer: Optional["ClassInfo"] = None
    methods: Dict[str, List[FuncInfo]] = field(default_factory=dict)  # name -> defs (property getter/setter share)
    assigns: Dict[str, ast.AST] = field(default_factory=dict)  # class-level name -> value expr
    annots: Dict[str, ast.AST] = field(default_factory=dict)  # class-level annotations
    nested: Dict[str, "ClassInfo"] = field(default_factory=dict)
    base_exprs: List[ast.AST] = field(default_factory=list)

    @property
    def name(self) -> str:
        return self.qualname.rsplit(".", 1)[-1]

    @property
    def key(self) -> str:
        return f"{self.module.relpath}::{self.qualname}"

    def __hash__(self):
        return hash(self.key)

    def __eq__(self, other):
        return isinstance(other, ClassInfo) and other.key == self.key

    def __repr__(self):
        return f"<Class {self.key}>"


@dataclass
class External:
    dotted: str

    def __hash__(self):
        return hash(("ext", self.dotted))

    def __repr__(self):
        return f"<Ext {self.dotted}>"


@dataclass
class ConstRef:
    module: "Module"
    name: str
    value: Optional[ast.AST]
    cls: Optional[ClassInfo] = None

    def __hash__(self):
        return hash(("const", self.module.relpath, self.name, self.cls.qualname if self.cls else None))


Resolved = Union[FuncInfo, ClassInfo, External, ConstRef, "Module", None]


class Module:
    def __init__(self, prog: "Program", relpath: str, modname: str, src: str):
        self.prog = prog
        self.relpath = relpath
        self.modname = modname
        self.src = src
        self.tree = ast.parse(src, filename=relpath)
        self.canon_changes = canonicalise(self.tree, prog.canon_properties)     # rare spellings -> the spelling the rules know (sa/canon.py)
        self.is_pkg = relpath.endswith("__init__.py")
        self.imports: Dict[str, Tuple[str, Optional[str]]] = {}  # local -> (module dotted, name or None)
        self.functions: Dict[str, FuncInfo] = {}
        self.classes: Dict[str, ClassInfo] = {}
        self.assigns: Dict[str, List[ast.AST]] = {}  # module-level name -> value exprs (all assignments)
        self.all_funcs: List[FuncInfo] = []
        self.all_classes: List[ClassInfo] = []
        self.parents: Dict[ast.AST, ast.AST] = {}
        for p in ast.walk(self.tree):
            for c in ast.iter_child_nodes(p):
                self.parents[c] = p
        self._index()

    # -- indexing -------------------------------------------------------------------------------
    def _abs_module(self, level: int, module: Optional[str]) -> str:
        if level == 0:
            return module or ""
        parts = self.modname.split(".")
        if not self.is_pkg:
            parts = parts[:-1]
        if level > 1:
            parts = parts[: len(parts) - (level - 1)]
        if module:
            parts = parts + module.split(".")
        return ".".join(parts)

    def _index(self):
        def visit_body(body, cls: Optional[ClassInfo], fn: Optional[FuncInfo], prefix: str):
            for st in body:
                self._index_stmt(st, cls, fn, prefix, visit_body)

        visit_body(self.tree.body, None, None, "")

    def _index_stmt(self, st, cls, fn, prefix, visit_body):
        if isinstance(st, (ast.Import, ast.ImportFrom)) and cls is None and fn is None:
            self._index_import(st)
        elif isinstance(st, (ast.FunctionDef, ast.AsyncFunctionDef)):
            q = prefix + st.name
            fi = FuncInfo(self, st, q, cls if fn is None else None, fn)
            self.all_funcs.append(fi)
            if fn is None and cls is None:
                self.functions[st.name] = fi
            elif fn is None and cls is not None:
                cls.methods.setdefault(st.name, []).append(fi)
            visit_body(st.body, None, fi, q + ".<locals>.")
            # lambdas are indexed lazily (lambda_info)
        elif isinstance(st, ast.ClassDef):
            q = prefix + st.name
            ci = ClassInfo(self, st, q, cls if fn is None else None)
            ci.base_exprs = list(st.bases)
            self.all_classes.append(ci)
            if cls is None and fn is None:
                self.classes[st.name] = ci
            elif cls is not None and fn is None:
                cls.nested[st.name] = ci
            visit_body(st.body, ci, None, q + ".")
        elif isinstance(st, (ast.Assign, ast.AnnAssign)) and fn is None:
            targets = st.targets if isinstance(st, ast.Assign) else [st.target]
            value = st.value
            for t in targets:
                names = [t] if isinstance(t, ast.Name) else (
                    [e for e in t.elts if isinstance(e, ast.Name)] if isinstance(t, (ast.Tuple, ast.List)) else [])
                for n in names:
                    if cls is not None:
                        if value is not None:
                            cls.assigns[n.id] = value
                        if isinstance(st, ast.AnnAssign):
                            cls.annots[n.id] = st.annotation
                    else:
                        if value is not None:
                            self.assigns.setdefault(n.id, []).append(value)
        elif isinstance(st, (ast.If, ast.Try)) and fn is None:
            # module/class level conditional definitions (try: import yaml ...)
            for sub in ast.iter_child_nodes(st):
                if isinstance(sub, ast.stmt):
                    self._index_stmt(sub, cls, fn, prefix, visit_body)
                elif isinstance(sub, ast.ExceptHandler):
                    for s2 in sub.body:
                        self._index_stmt(s2, cls, fn, prefix, visit_body)

    def _index_import(self, st):
        if isinstance(st, ast.Import):
            for a in st.names:
                local = a.asname or a.name.split(".")[0]
                self.imports[local] = (a.name if a.asname else a.name.split(".")[0], None)
        else:
            mod = self._abs_module(st.level, st.module)
            for a in st.names:
                self.imports[a.asname or a.name] = (mod, a.name)

    # -- queries --------------------------------------------------------------------------------
    def enclosing_function(self, node: ast.AST) -> Optional[ast.AST]:
        p = self.parents.get(node)
        while p is not None and not isinstance(p, (ast.FunctionDef, ast.AsyncFunctionDef, ast.Lambda)):
            p = self.parents.get(p)
        return p

    def enclosing_class(self, node: ast.AST) -> Optional[ast.ClassDef]:
        p = self.parents.get(node)
        while p is not None and not isinstance(p, ast.ClassDef):
            if isinstance(p, (ast.FunctionDef, ast.AsyncFunctionDef)):
                pass
            p = self.parents.get(p)
        return p

    def func_of_node(self, node: ast.AST) -> Optional[FuncInfo]:
        f = node if isinstance(node, (ast.FunctionDef, ast.AsyncFunctionDef)) else self.enclosing_function(node)
        while isinstance(f, ast.Lambda):
            f = self.enclosing_function(f)
        if f is None:
            return None
        for fi in self.all_funcs:
            if fi.node is f:
                return fi
        return None

    def class_of_node(self, node: ast.AST) -> Optional[ClassInfo]:
        c = self.enclosing_class(node)
        if c is None:
            return None
        for ci in self.all_classes:
            if ci.node is c:
                return ci
        return None

    def qual_of_node(self, node: ast.AST) -> str:
        fi = self.func_of_node(node)
        if fi is not None:
            return fi.qualname
        ci = self.class_of_node(node)
        if ci is not None:
            return ci.qualname + ".<body>"
        return "<module>"


class Program:
    """All modules of the analysed package (plus optional sibling client files)."""

    def __init__(self, root: str):
        self.root = os.path.abspath(root)
        self.modules: Dict[str, Module] = {}  # relpath -> Module
        self.by_modname: Dict[str, Module] = {}
        pkg_dir = os.path.join(self.root, PKG)
        if not os.path.isdir(pkg_dir):
            raise AnalysisError(f"package directory {pkg_dir} not found")
        # names that are properties somewhere in the package (the normal-form pass never treats a read through one as a plain read)
        trees = []
        for dirpath, dirnames, filenames in os.walk(pkg_dir):
            for fn in sorted(filenames):
                if fn.endswith(".py"):
                    try:
                        with open(os.path.join(dirpath, fn), encoding="utf-8") as fh:
                            trees.append(ast.parse(fh.read()))
                    except (SyntaxError, UnicodeDecodeError):
                        pass
        self.canon_properties = property_names(trees)
        for dirpath, dirnames, filenames in os.walk(pkg_dir):
            dirnames[:] = sorted(d for d in dirnames if d != "__pycache__")
            for fn in sorted(filenames):
                if fn.endswith(".py"):
                    full = os.path.join(dirpath, fn)
                    rel = os.path.relpath(full, self.root)
                    self._load(rel)
        self._mro_cache: Dict[str, List[ClassInfo]] = {}
        self._callee_cache: Dict[str, list] = {}
        self.consulted: Optional[Set[str]] = None   # anchor functions a rule asked for by name (see sa/shapegate.py)

    def _load(self, rel: str) -> Module:
        full = os.path.join(self.root, rel)
        with open(full, encoding="utf-8") as f:
            src = f.read()
        modname = rel[:-3].replace(os.sep, ".")
        if modname.endswith(".__init__"):
            modname = modname[: -len(".__init__")]
        try:
            m = Module(self, rel, modname, src)
        except SyntaxError as e:
            raise AnalysisError(f"{rel} does not parse: {e}")
        self.modules[rel] = m
        self.by_modname[modname] = m
        return m

    def load_extra(self, rel: str) -> Optional[Module]:
        """Parse a sibling client file outside the package (tests, testing_tools)."""
        if rel in self.modules:
            return self.modules[rel]
        if not os.path.isfile(os.path.join(self.root, rel)):
            return None
        return self._load(rel)

    # -- anchors ----------------------------------------------------------------------------------
    def module(self, rel: str) -> Module:
        m = self.modules.get(rel)
        if m is None:
            raise AnalysisError(f"anchor module {rel} not found")
        return m

    def cls(self, rel: str, qualname: str) -> ClassInfo:
        m = self.module(rel)
        for c in m.all_classes:
            if c.qualname == qualname:
                return c
        raise AnalysisError(f"anchor class {rel}::{qualname} not found")

    def func(self, rel: str, qualname: str) -> FuncInfo:
        m = self.module(rel)
        cands = [f for f in m.all_funcs if f.qualname == qualname]
        if not cands:
            raise AnalysisError(f"anchor function {rel}::{qualname} not found")
        # property getter first
        for f in cands:
            if not any(d.endswith(".setter") or d.endswith(".deleter") for d in f.decorators):
                break
        else:
            f = cands[0]
        if self.consulted is not None:
            self.consulted.add(f.key)
        return f

    def find_class(self, name: str) -> List[ClassInfo]:
        return [c for m in self.pkg_modules() for c in m.all_classes if c.name == name]

    def pkg_modules(self) -> List[Module]:
        return [m for r, m in self.modules.items() if r.startswith(PKG + os.sep)]

    def all_funcs(self) -> Iterator[FuncInfo]:
        for m in self.pkg_modules():
            yield from m.all_funcs

    def all_classes(self) -> Iterator[ClassInfo]:
        for m in self.pkg_modules():
            yield from m.all_classes

    # -- name resolution ------------------------------------------------------------------------
    def resolve_global(self, mod: Module, name: str, _seen=None) -> Resolved:
        """Resolve a module-level name to its definition, following imports and re-exports."""
        _seen = _seen or set()
        k = (mod.relpath, name)
        if k in _seen:
            return None
        _seen.add(k)
        if name in mod.classes:
            return mod.classes[name]
        if name in mod.functions:
            return mod.functions[name]
        if name in mod.assigns:
            vals = mod.assigns[name]
            return ConstRef(mod, name, vals[-1])
        if name in mod.imports:
            target_mod, target_name = mod.imports[name]
            if target_name is None:
                m2 = self.by_modname.get(target_mod)
                return m2 if m2 is not None else External(target_mod)
            m2 = self.by_modname.get(target_mod)
            if m2 is None:
                return External(f"{target_mod}.{target_name}")
            sub = self.by_modname.get(f"{target_mod}.{target_name}")
            r = self.resolve_global(m2, target_name, _seen)
            if r is None and sub is not None:
                return sub
            return r
        if hasattr(builtins, name):
            return External(f"builtins.{name}")
        return None

    def resolve_class_expr(self, mod: Module, expr: ast.AST, ctx_cls: Optional[ClassInfo] = None) -> Resolved:
        """Resolve an expression denoting a class/function (Name or dotted Attribute)."""
        if isinstance(expr, ast.Name):
            if expr.id in ("self", "cls") and ctx_cls is not None:
                return ctx_cls
            if ctx_cls is not None:
                c = ctx_cls
                while c is not None:
                    if expr.id in c.nested:
                        return c.nested[expr.id]
                    c = c.outer
            return self.resolve_global(mod, expr.id)
        if isinstance(expr, ast.Attribute):
            base = self.resolve_class_expr(mod, expr.value, ctx_cls)
            if isinstance(base, ClassInfo):
                if expr.attr in base.nested:
                    return base.nested[expr.attr]
                m = self.lookup_method(base, expr.attr)
                if m:
                    return m[0]
                v = self.lookup_class_attr(base, expr.attr)
                if v is not None:
                    return v
                return None
            if isinstance(base, Module):
                return self.resolve_global(base, expr.attr)
            if isinstance(base, External):
                return External(base.dotted + "." + expr.attr)
            return None
        if isinstance(expr, ast.Subscript):  # Generic[T]
            return self.resolve_class_expr(mod, expr.value, ctx_cls)
        return None

    # -- class hierarchy ------------------------------------------------------------------------
    def bases(self, c: ClassInfo) -> List[Union[ClassInfo, External]]:
        out = []
        for b in c.base_exprs:
            r = self.resolve_class_expr(c.module, b, c.outer)
            if isinstance(r, ClassInfo):
                out.append(r)
            elif isinstance(r, External):
                out.append(r)
            else:
                out.append(External(norm(b)))
        return out

    def mro(self, c: ClassInfo) -> List[ClassInfo]:
        """Linearisation over repository classes (C3 where it matters; external bases dropped)."""
        if c.key in self._mro_cache:
            return self._mro_cache[c.key]
        seqs = [[c]]
        rb = [b for b in self.bases(c) if isinstance(b, ClassInfo)]
        for b in rb:
            seqs.append(list(self.mro(b)))
        seqs.append(list(rb))
        res: List[ClassInfo] = []
        seqs = [s for s in seqs if s]
        while seqs:
            for s in seqs:
                cand = s[0]
                if not any(cand in t[1:] for t in seqs):
                    break
            else:
                raise AnalysisError(f"inconsistent MRO for {c.key}")
            res.append(cand)
            seqs = [[x for x in s if x != cand] for s in seqs]
            seqs = [s for s in seqs if s]
        self._mro_cache[c.key] = res
        return res

    def external_bases(self, c: ClassInfo) -> List[str]:
        out = []
        for k in self.mro(c):
            for b in self.bases(k):
                if isinstance(b, External):
                    out.append(b.dotted)
        return out

    def subclasses(self, c: ClassInfo, strict: bool = False) -> List[ClassInfo]:
        out = []
        for k in self.all_classes():
            if c in self.mro(k) and (not strict or k != c):
                out.append(k)
        return out

    def is_subclass(self, c: ClassInfo, base: ClassInfo) -> bool:
        return base in self.mro(c)

    def lookup_method(self, c: ClassInfo, name: str, after: Optional[ClassInfo] = None) -> List[FuncInfo]:
        """Definitions of ``name`` found first along the MRO of ``c`` (after ``after`` for super())."""
        mro = self.mro(c)
        if after is not None and after in mro:
            mro = mro[mro.index(after) + 1:]
        for k in mro:
            if name in k.methods:
                return k.methods[name]
        return []

    def lookup_class_attr(self, c: ClassInfo, name: str) -> Optional[ConstRef]:
        for k in self.mro(c):
            if name in k.assigns:
                return ConstRef(k.module, name, k.assigns[name], k)
        return None

    def cha_targets(self, c: ClassInfo, name: str) -> List[FuncInfo]:
        """``self.name`` on a receiver of static class c: the MRO definition plus every override below c."""
        out: List[FuncInfo] = []
        for f in self.lookup_method(c, name):
            if f not in out:
                out.append(f)
        for k in self.subclasses(c, strict=True):
            for f in k.methods.get(name, []):
                if f not in out:
                    out.append(f)
        return out

    def methods_named(self, name: str) -> List[FuncInfo]:
        out = []
        for k in self.all_classes():
            out.extend(k.methods.get(name, []))
        return out

    def property_names(self) -> Set[str]:
        return {f.name for f in self.all_funcs() if f.cls is not None and f.is_property}


def iter_calls(node: ast.AST) -> Iterator[ast.Call]:
    for n in ast.walk(node):
        if isinstance(n, ast.Call):
            yield n


_WALK_CACHE: Dict[Tuple[int, bool], list] = {}
_KEEPALIVE: list = []


def clear_caches():
    _WALK_CACHE.clear()
    _KEEPALIVE.clear()


def walk_no_nested(node: ast.AST, include_lambdas: bool = True) -> List[ast.AST]:
    """ast.walk that does not descend into nested function/class definitions (memoised per node)."""
    k = (id(node), include_lambdas)
    r = _WALK_CACHE.get(k)
    if r is None:
        r = list(_walk_no_nested(node, include_lambdas))
        _WALK_CACHE[k] = r
        _KEEPALIVE.append(node)
    return r


def _walk_no_nested(node: ast.AST, include_lambdas: bool = True) -> Iterator[ast.AST]:
    stack = [node]
    first = True
    while stack:
        n = stack.pop()
        if not first and isinstance(n, (ast.FunctionDef, ast.AsyncFunctionDef, ast.ClassDef)):
            yield n  # the definition itself is visible, its body is not
            continue
        if not first and not include_lambdas and isinstance(n, ast.Lambda):
            continue
        first = False
        yield n
        stack.extend(reversed(list(ast.iter_child_nodes(n))))


def call_name(call: ast.Call) -> str:
    return norm(call.func)


def attr_chain(node: ast.AST) -> Optional[List[str]]:
    """['self', 'data', 'context'] for self.data.context; None if not a pure chain."""
    parts = []
    while isinstance(node, ast.Attribute):
        parts.append(node.attr)
        node = node.value
    if isinstance(node, ast.Name):
        parts.append(node.id)
        return list(reversed(parts))
    return None
