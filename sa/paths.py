"""E3-lite: enumeration of the acyclic paths through a statement block with their branch decisions.

A path = ordered list of *steps*: ("cond", test expr, truth) and ("stmt", simple statement); plus the way it leaves the
block: fall / return / raise / continue / break.  Boolean operators are split so that every atom of a condition has a
definite truth value on a path (short-circuit order).  Loops inside the block are treated as opaque statements unless
``unroll_loops`` (body taken zero or one time).  Contradictory paths (same atom both true and false, with no
intervening assignment to a name it mentions) are pruned.
"""
from __future__ import annotations

import ast
from dataclasses import dataclass, field
from typing import Dict, List, Optional, Set, Tuple

from .model import AnalysisError, norm

CAP = 4096


@dataclass
class Path:
    steps: List[tuple] = field(default_factory=list)
    exit: str = "fall"
    ret: Optional[ast.AST] = None

    def conds(self) -> List[Tuple[ast.AST, bool]]:
        return [(s[1], s[2]) for s in self.steps if s[0] == "cond"]

    def stmts(self) -> List[ast.stmt]:
        return [s[1] for s in self.steps if s[0] == "stmt"]

    def truth(self, text: str) -> Optional[bool]:
        """Truth value of the atom with this normalised text on the path (last decision), None if never decided.  An atom
        decided in its complementary spelling (`a == b` for `a != b`, `a is b` for `a is not b`, `a > b` for `a <= b`, the
        operands of == / != swapped) counts."""
        want = canon_atom_text(text)
        val = None
        for s in self.steps:
            if s[0] != "cond":
                continue
            if norm(s[1]) == text:
                val = s[2]
                continue
            if want is not None:
                got = canon_atom(s[1])
                if got is not None and got[0] == want[0]:
                    val = s[2] if got[1] == want[1] else not s[2]
        return val

    def describe(self) -> str:
        out = []
        for s in self.steps:
            if s[0] == "cond":
                out.append(("" if s[2] else "not ") + norm(s[1])[:60])
        return " & ".join(out) + f" -> {self.exit}"


_COMPLEMENT = {ast.NotEq: ast.Eq, ast.IsNot: ast.Is, ast.NotIn: ast.In, ast.LtE: ast.Gt, ast.Lt: ast.GtE}


def canon_atom(test: ast.AST) -> Optional[Tuple[str, bool]]:
    """(text of the positive spelling, negated?) of a one-operator comparison; None for anything else."""
    neg = False
    while isinstance(test, ast.UnaryOp) and isinstance(test.op, ast.Not):
        test, neg = test.operand, not neg
    if not (isinstance(test, ast.Compare) and len(test.ops) == 1):
        return None
    op, left, right = test.ops[0], test.left, test.comparators[0]
    if type(op) in _COMPLEMENT:
        from .canon import _complementable
        if _complementable(test):            # < and <= only on a total order (sets are ordered by inclusion)
            op, neg = _COMPLEMENT[type(op)](), not neg
    lt, rt = norm(left), norm(right)
    if isinstance(op, (ast.Eq, ast.Is)) and rt < lt:
        lt, rt = rt, lt
    return f"{lt} {type(op).__name__} {rt}", neg


def canon_atom_text(text: str) -> Optional[Tuple[str, bool]]:
    try:
        return canon_atom(ast.parse(text, mode="eval").body)
    except SyntaxError:
        return None


def _split_cond(test: ast.AST, want: bool) -> List[List[Tuple[ast.AST, bool]]]:
    """All short-circuit evaluations of ``test`` that yield ``want``: lists of (atom, truth)."""
    if isinstance(test, ast.UnaryOp) and isinstance(test.op, ast.Not):
        return _split_cond(test.operand, not want)
    if isinstance(test, ast.BoolOp):
        is_and = isinstance(test.op, ast.And)
        vals = test.values
        # and: true = all true; false = first k-1 true, k-th false.  or: dual.
        res: List[List[Tuple[ast.AST, bool]]] = []
        if (is_and and want) or (not is_and and not want):
            cur = [[]]
            for v in vals:
                nxt = []
                for pre in cur:
                    for alt in _split_cond(v, want):
                        nxt.append(pre + alt)
                cur = nxt
            return cur
        prefix: List[List[Tuple[ast.AST, bool]]] = [[]]
        for v in vals:
            for pre in prefix:
                for alt in _split_cond(v, want):
                    res.append(pre + alt)
            nxt = []
            for pre in prefix:
                for alt in _split_cond(v, not want):
                    nxt.append(pre + alt)
            prefix = nxt
        return res
    return [[(test, want)]]


def _assigned_names(st: ast.stmt) -> Set[str]:
    out = set()
    for x in ast.walk(st):
        if isinstance(x, ast.Name) and isinstance(x.ctx, (ast.Store, ast.Del)):
            out.add(x.id)
        elif isinstance(x, (ast.Attribute, ast.Subscript)) and isinstance(x.ctx, (ast.Store, ast.Del)):
            out.add(norm(x))
    return out


def _feasible(p: Path) -> bool:
    known: Dict[str, bool] = {}
    for s in p.steps:
        if s[0] == "cond":
            k = norm(s[1])
            if k in known and known[k] != s[2]:
                return False
            known[k] = s[2]
        else:
            names = _assigned_names(s[1])
            if names:
                for k in list(known):
                    if any(n == k or _mentions(k, n) for n in names):
                        del known[k]
    return True


def _mentions(cond_text: str, name: str) -> bool:
    import re
    return re.search(r"(?<![\w.])" + re.escape(name) + r"(?![\w])", cond_text) is not None


def enumerate_paths(body: List[ast.stmt], unroll_loops: bool = False) -> List[Path]:
    paths = _block(body, [Path()], unroll_loops)
    return [p for p in paths if _feasible(p)]


def _block(body: List[ast.stmt], incoming: List[Path], unroll: bool) -> List[Path]:
    live = incoming
    done: List[Path] = []
    for st in body:
        if not live:
            break
        nxt: List[Path] = []
        for p in live:
            for q in _stmt(st, p, unroll):
                (nxt if q.exit == "fall" else done).append(q)
        live = nxt
        if len(live) + len(done) > CAP:
            raise AnalysisError("path cap exceeded")
    return live + done


def _copy(p: Path) -> Path:
    return Path(list(p.steps), p.exit, p.ret)


def _stmt(st: ast.stmt, p: Path, unroll: bool) -> List[Path]:
    if isinstance(st, ast.If):
        out: List[Path] = []
        for want, blk in ((True, st.body), (False, st.orelse)):
            for alt in _split_cond(st.test, want):
                q = _copy(p)
                for atom, tv in alt:
                    q.steps.append(("cond", atom, tv))
                if not _feasible(q):
                    continue
                out += _block(blk, [q], unroll)
        return out
    if isinstance(st, ast.Return):
        q = _copy(p)
        q.steps.append(("stmt", st))
        q.exit, q.ret = "return", st.value
        return [q]
    if isinstance(st, ast.Raise):
        q = _copy(p)
        q.steps.append(("stmt", st))
        q.exit = "raise"
        return [q]
    if isinstance(st, ast.Continue):
        q = _copy(p)
        q.exit = "continue"
        return [q]
    if isinstance(st, ast.Break):
        q = _copy(p)
        q.exit = "break"
        return [q]
    if isinstance(st, (ast.For, ast.While)) and unroll:
        q0 = _copy(p)
        q0.steps.append(("cond", ast.Name(id=f"<loop {norm(st)[:30]} runs>", ctx=ast.Load()), False))
        q1 = _copy(p)
        q1.steps.append(("cond", ast.Name(id=f"<loop {norm(st)[:30]} runs>", ctx=ast.Load()), True))
        inner = _block(st.body, [q1], unroll)
        out = [q0]
        for r in inner:
            if r.exit in ("continue", "break"):
                r.exit = "fall"
            out.append(r)
        return out
    if isinstance(st, ast.Try):
        # normal path: body (+ else); each handler as an alternative after the body's first statement could raise
        out = _block(st.body + st.orelse, [_copy(p)], unroll)
        for h in st.handlers:
            q = _copy(p)
            q.steps.append(("cond", ast.Name(id=f"<except {norm(h.type) if h.type else ''}>", ctx=ast.Load()), True))
            out += _block(h.body, [q], unroll)
        if st.finalbody:
            res = []
            for r in out:
                if r.exit == "fall":
                    res += _block(st.finalbody, [r], unroll)
                else:
                    res.append(r)
            out = res
        return out
    if isinstance(st, ast.With):
        q = _copy(p)
        q.steps.append(("stmt", ast.Expr(value=st.items[0].context_expr)))
        return _block(st.body, [q], unroll)
    q = _copy(p)
    q.steps.append(("stmt", st))
    return [q]
