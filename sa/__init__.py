"""Repository-specific static analysis for json2python-models (ast only; never imports /repo code)."""
