"""E0 - call resolution: direct / self / super / ctor / class-qualified / CHA / dispatch-table idioms / by-name."""
from __future__ import annotations

import ast
from typing import Dict, Iterable, List, Optional, Set, Tuple

from .model import (AnalysisError, ClassInfo, ConstRef, External, FuncInfo, Module, Program, attr_chain, norm,
                    walk_no_nested)

# wrappers returning a closure that calls the wrapped callable: the wrapper's result is an alias of arg 0
ALIAS_WRAPPERS = {"convert_args", "cached_method", "cached_classmethod", "wraps", "partial", "classmethod",
                  "staticmethod"}


class CallGraph:
    def __init__(self, prog: Program):
        self.prog = prog
        self.stats = {"sites": 0, "resolved": 0, "byname": 0, "external": 0, "unresolved": 0}
        self.unresolved: List[str] = []
        self._edges: Dict[str, Set[FuncInfo]] = {}
        self._funcs: Dict[str, FuncInfo] = {f.key: f for f in prog.all_funcs()}
        self._prop_names = prog.property_names()
        self._site_targets: Dict[tuple, List] = {}
        self._built = False
        self._rc_cache: Dict[tuple, list] = {}
        self._rc_busy: Set[tuple] = set()

    # -- helper: static class of a receiver expression ------------------------------------------
    def receiver_classes(self, fi: Optional[FuncInfo], mod: Module, expr: ast.AST, _depth: int = 0) -> List[ClassInfo]:
        k = (fi.key if fi is not None else None, id(expr))
        if k in self._rc_cache:
            return self._rc_cache[k]
        if k in self._rc_busy or len(self._rc_busy) > 40:
            return []
        self._rc_busy.add(k)
        try:
            r = self._receiver_classes(fi, mod, expr)
        finally:
            self._rc_busy.discard(k)
        if not self._rc_busy:
            self._rc_cache[k] = r
        return r

    def _receiver_classes(self, fi: Optional[FuncInfo], mod: Module, expr: ast.AST) -> List[ClassInfo]:
        prog = self.prog
        cls = self._owner_class(fi)
        if isinstance(expr, ast.Name):
            if expr.id in ("self", "cls") and cls is not None:
                return [cls]
            # local constructor assignment or annotated parameter
            if fi is not None:
                out = []
                for n in walk_no_nested(self._top_func(fi).node):
                    if isinstance(n, ast.Assign) and any(isinstance(t, ast.Name) and t.id == expr.id for t in n.targets):
                        out += self.value_classes(fi, mod, n.value)
                    if isinstance(n, ast.AnnAssign) and isinstance(n.target, ast.Name) and n.target.id == expr.id:
                        out += self.annotation_classes(mod, n.annotation, cls)
                f = fi
                while f is not None:
                    a = f.node.args
                    for p in a.posonlyargs + a.args + a.kwonlyargs:
                        if p.arg == expr.id and p.annotation is not None:
                            out += self.annotation_classes(mod, p.annotation, cls)
                    f = f.parent
                if out:
                    return _uniq(out)
            r = prog.resolve_class_expr(mod, expr, cls)
            if isinstance(r, ConstRef) and r.value is not None:
                return self.value_classes(None, r.module, r.value)
            return []
        if isinstance(expr, ast.Call):
            return self.value_classes(fi, mod, expr)
        if isinstance(expr, ast.Attribute):
            # self.attr: class-level annotation or instance assignment
            base = self.receiver_classes(fi, mod, expr.value)
            out = []
            for b in base:
                for k in prog.mro(b):
                    if expr.attr in k.annots:
                        out += self.annotation_classes(k.module, k.annots[expr.attr], k)
                    for m in k.methods.values():
                        for f in m:
                            for n in walk_no_nested(f.node):
                                if isinstance(n, (ast.Assign, ast.AnnAssign)):
                                    tgts = n.targets if isinstance(n, ast.Assign) else [n.target]
                                    for t in tgts:
                                        if isinstance(t, ast.Attribute) and t.attr == expr.attr and \
                                                isinstance(t.value, ast.Name) and t.value.id == "self":
                                            if isinstance(n, ast.AnnAssign):
                                                out += self.annotation_classes(k.module, n.annotation, k)
                                            if n.value is not None:
                                                out += self.value_classes(f, k.module, n.value)
            return _uniq(out)
        return []

    def annotation_classes(self, mod: Module, ann: ast.AST, cls: Optional[ClassInfo]) -> List[ClassInfo]:
        out = []
        if isinstance(ann, ast.Constant) and isinstance(ann.value, str):
            try:
                ann = ast.parse(ann.value, mode="eval").body
            except SyntaxError:
                return []
        for n in ast.walk(ann):
            if isinstance(n, (ast.Name, ast.Attribute)):
                r = self.prog.resolve_class_expr(mod, n, cls)
                if isinstance(r, ClassInfo):
                    out.append(r)
            elif isinstance(n, ast.Constant) and isinstance(n.value, str):
                for c in self.prog.find_class(n.value.split(".")[-1]):
                    out.append(c)
        return _uniq(out)

    def value_classes(self, fi: Optional[FuncInfo], mod: Module, value: ast.AST, _depth: int = 0) -> List[ClassInfo]:
        """Classes of which ``value`` may be an instance (constructor calls only; conservative)."""
        cls = self._owner_class(fi)
        if isinstance(value, ast.Call):
            r = self.prog.resolve_class_expr(mod, value.func, cls)
            if isinstance(r, ClassInfo):
                return [r]
            if isinstance(r, FuncInfo) and r.node.returns is not None:
                return self.annotation_classes(r.module, r.node.returns, r.cls)
            if isinstance(value.func, ast.Attribute) and value.func.attr in ("inject",):
                pass
        if isinstance(value, ast.IfExp):
            return _uniq(self.value_classes(fi, mod, value.body) + self.value_classes(fi, mod, value.orelse))
        if isinstance(value, (ast.Name, ast.Attribute)) and not _depth:
            return self.receiver_classes(fi, mod, value, _depth + 1)
        return []

    # -- callable value sets ----------------------------------------------------------------------
    def callable_values(self, fi: Optional[FuncInfo], mod: Module, expr: ast.AST, depth: int = 0) -> List:
        """Functions/classes that ``expr`` may denote as a callable value (dispatch tables, wrappers)."""
        if depth > 6:
            return []
        prog = self.prog
        cls = self._owner_class(fi)
        if isinstance(expr, ast.Lambda):
            return [("lambda", mod, expr)]
        if isinstance(expr, ast.Name):
            # local function / local assignment
            if fi is not None:
                f = fi
                while f is not None:
                    for n in walk_no_nested(f.node):
                        if isinstance(n, (ast.FunctionDef,)) and n.name == expr.id and n is not f.node:
                            g = mod.func_of_node(n)
                            if g is not None:
                                return [g]
                    f = f.parent
                out = []
                for n in walk_no_nested(self._top_func(fi).node):
                    if isinstance(n, ast.Assign) and any(isinstance(t, ast.Name) and t.id == expr.id for t in n.targets):
                        out += self.callable_values(fi, mod, n.value, depth + 1)
                if out:
                    return _uniq(out)
                # parameter annotated Type[X] / Callable: X and its subclasses (constructors)
                f = fi
                while f is not None:
                    a = f.node.args
                    for p in a.posonlyargs + a.args + a.kwonlyargs:
                        if p.arg == expr.id:
                            if p.annotation is not None and "Type[" in norm(p.annotation):
                                cs = []
                                for c in self.annotation_classes(mod, p.annotation, cls):
                                    cs += prog.subclasses(c)
                                return _uniq(cs)
                            return []
                    f = f.parent
            r = prog.resolve_class_expr(mod, expr, cls)
            if isinstance(r, (FuncInfo, ClassInfo, External)):
                return [r]
            if isinstance(r, ConstRef) and r.value is not None:
                return self.callable_values(None, r.module, r.value, depth + 1)
            return []
        if isinstance(expr, ast.Attribute):
            chain = attr_chain(expr)
            if chain and chain[0] in ("self", "cls") and cls is not None and len(chain) == 2:
                out = list(prog.cha_targets(cls, chain[1]))
                if out:
                    return out
                # instance attribute assigned somewhere in the class, or class-level constant
                for k in prog.mro(cls) + prog.subclasses(cls, strict=True):
                    if chain[1] in k.assigns:
                        out += self.callable_values(None, k.module, k.assigns[chain[1]], depth + 1)
                    for ms in k.methods.values():
                        for f in ms:
                            for n in walk_no_nested(f.node):
                                if isinstance(n, (ast.Assign, ast.AnnAssign)) and n.value is not None:
                                    tgts = n.targets if isinstance(n, ast.Assign) else [n.target]
                                    for t in tgts:
                                        if isinstance(t, ast.Attribute) and t.attr == chain[1] and \
                                                isinstance(t.value, ast.Name) and t.value.id == "self":
                                            out += self.callable_values(f, k.module, n.value, depth + 1)
                return _uniq(out)
            r = prog.resolve_class_expr(mod, expr, cls)
            if isinstance(r, (FuncInfo, ClassInfo, External)):
                return [r]
            if isinstance(r, ConstRef) and r.value is not None:
                return self.callable_values(None, r.module, r.value, depth + 1)
            # receiver classes
            out = []
            for rc in self.receiver_classes(fi, mod, expr.value):
                out += prog.cha_targets(rc, expr.attr)
            return _uniq(out)
        if isinstance(expr, ast.Subscript):
            return self.callable_values(fi, mod, expr.value, depth + 1)
        if isinstance(expr, ast.Dict):
            out = []
            for v in expr.values:
                out += self.callable_values(fi, mod, v, depth + 1)
            return _uniq(out)
        if isinstance(expr, (ast.Tuple, ast.List, ast.Set)):
            out = []
            for v in expr.elts:
                out += self.callable_values(fi, mod, v, depth + 1)
            return _uniq(out)
        if isinstance(expr, ast.IfExp):
            return _uniq(self.callable_values(fi, mod, expr.body, depth + 1)
                         + self.callable_values(fi, mod, expr.orelse, depth + 1))
        if isinstance(expr, ast.Call):
            fn = norm(expr.func).split(".")[-1]
            if fn in ALIAS_WRAPPERS and expr.args:
                out = self.callable_values(fi, mod, expr.args[0], depth + 1)
                # converters passed to convert_args are themselves called by the wrapper
                return out
            if fn == "getattr" and expr.args:
                r = self.prog.resolve_class_expr(mod, expr.args[0], cls)
                if isinstance(r, ClassInfo):
                    return [f for ms in r.methods.values() for f in ms]
                if isinstance(r, External) or r is None:
                    return [External("getattr(...)")]
            # call returning a callable: decorator factories (registry.add()) - resolve the callee's inner defs
            tg = self.resolve_call(fi, mod, expr)
            out = []
            for t in tg:
                if isinstance(t, FuncInfo):
                    inner = {n.name for n in walk_no_nested(t.node)
                             if isinstance(n, ast.FunctionDef) and n is not t.node}
                    for n in walk_no_nested(t.node):
                        if isinstance(n, ast.Return) and n.value is not None:
                            v = n.value
                            if isinstance(v, ast.Call) and norm(v.func).split(".")[-1] in ALIAS_WRAPPERS and v.args:
                                v = v.args[0]
                            if isinstance(v, ast.Lambda) or (isinstance(v, ast.Name) and v.id in inner):
                                out += self.callable_values(t, t.module, v, depth + 1)
            return _uniq(out)
        return []

    # -- call resolution ---------------------------------------------------------------------------
    def resolve_call(self, fi: Optional[FuncInfo], mod: Optional[Module], call: ast.Call) -> List:
        """Targets of one call site: FuncInfo (repo function/method), ClassInfo (constructor), External."""
        if mod is None:
            raise AnalysisError("resolve_call needs the module of the call site")
        k = (fi.key if fi is not None else None, id(call))
        r = self._site_targets.get(k)
        if r is None:
            r = self._resolve_call(fi, mod, call)
            self._site_targets[k] = r
        return r

    def _resolve_call(self, fi: Optional[FuncInfo], mod: Module, call: ast.Call) -> List:
        prog = self.prog
        cls = self._owner_class(fi)
        f = call.func
        # super().m(...) / super(C, self).m(...)
        if isinstance(f, ast.Attribute) and isinstance(f.value, ast.Call) and norm(f.value.func) == "super":
            if cls is None:
                return []
            after = cls
            if f.value.args:
                r = prog.resolve_class_expr(mod, f.value.args[0], cls)
                if isinstance(r, ClassInfo):
                    after = r
            out = []
            # the static class may be any subclass; be conservative: next in each subclass's MRO
            for k in [cls] + prog.subclasses(cls, strict=True):
                out += prog.lookup_method(k, f.attr, after=after)
            out = _uniq(out)
            return out if out else [External(f"super().{f.attr}")]
        if isinstance(f, ast.Name):
            vals = self.callable_values(fi, mod, f)
            if vals:
                return vals
            return [External(f.id)]
        if isinstance(f, ast.Attribute):
            chain = attr_chain(f)
            if chain and chain[0] in ("self", "cls") and cls is not None and len(chain) == 2:
                vals = self.callable_values(fi, mod, f)
                if vals:
                    return vals
            # class-qualified / module-qualified
            r = prog.resolve_class_expr(mod, f, cls)
            if isinstance(r, (FuncInfo, ClassInfo)):
                return [r]
            if isinstance(r, External):
                return [r]
            if isinstance(r, ConstRef) and r.value is not None:
                v = self.callable_values(None, r.module, r.value)
                if v:
                    return v
            rcs = self.receiver_classes(fi, mod, f.value)
            out = []
            for rc in rcs:
                out += prog.cha_targets(rc, f.attr)
            if out:
                return _uniq(out)
            # by-name fallback
            named = prog.methods_named(f.attr)
            if named:
                return [("byname", m) for m in named]
            return [External("." + f.attr)]
        if isinstance(f, (ast.Subscript, ast.Call, ast.IfExp)):
            vals = self.callable_values(fi, mod, f)
            if vals:
                return vals
            return [External(norm(f))]
        if isinstance(f, ast.Lambda):
            return [("lambda", mod, f)]
        return [External(norm(f))]

    # -- whole-function callee sets ------------------------------------------------------------------
    def callees(self, fi: FuncInfo, byname: bool = True) -> Set[FuncInfo]:
        key = fi.key + ("#b" if byname else "#n")
        if key in self._edges:
            return self._edges[key]
        out: Set[FuncInfo] = set()
        self._edges[key] = out
        mod = fi.module
        prog = self.prog
        cls = self._owner_class(fi)

        def add_target(t):
            if isinstance(t, FuncInfo):
                out.add(t)
            elif isinstance(t, ClassInfo):
                for m in ("__init__", "__new__", "__call__" if False else "__init__"):
                    for f2 in prog.lookup_method(t, m):
                        out.add(f2)
            elif isinstance(t, tuple) and t[0] == "byname" and byname:
                out.add(t[1])
            elif isinstance(t, tuple) and t[0] == "lambda":
                for n in ast.walk(t[2].body):
                    if isinstance(n, ast.Call):
                        for t2 in self.resolve_call(fi, t[1], n):
                            add_target(t2)

        # a decorated function runs inside its decorator's wrapper closure
        for d in getattr(fi.node, "decorator_list", []):
            dexpr = d.func if isinstance(d, ast.Call) else d
            r = prog.resolve_class_expr(mod, dexpr, cls)
            if isinstance(r, FuncInfo):
                out.add(r)
            elif isinstance(dexpr, ast.Attribute):
                for rc in self.receiver_classes(None, mod, dexpr.value):
                    out.update(prog.cha_targets(rc, dexpr.attr))
        body_nodes = list(walk_no_nested(fi.node))
        # nested function definitions are reachable if referenced; conservatively include them
        for n in body_nodes:
            if isinstance(n, (ast.FunctionDef,)) and n is not fi.node:
                g = mod.func_of_node(n)
                if g is not None:
                    out.add(g)
        call_funcs = set()
        for n in body_nodes:
            if isinstance(n, ast.Call):
                call_funcs.add(id(n.func))
                for t in self.resolve_call(fi, mod, n):
                    add_target(t)
                # callable arguments (map(f, xs), key=f, partial(f, ...)) count as calls
                for a in list(n.args) + [k.value for k in n.keywords]:
                    if isinstance(a, ast.Starred):
                        a = a.value
                    if isinstance(a, (ast.Name, ast.Attribute, ast.Lambda)) or \
                            (isinstance(a, ast.Call) and norm(a.func).split(".")[-1] in ALIAS_WRAPPERS):
                        for t in self.callable_values(fi, mod, a):
                            if isinstance(t, (FuncInfo, tuple)) or isinstance(t, ClassInfo):
                                add_target(t)
        # property reads, protocol edges
        for n in body_nodes:
            if isinstance(n, ast.Attribute) and id(n) not in call_funcs and n.attr in self._prop_names:
                rcs = self.receiver_classes(fi, mod, n.value)
                tg = []
                for rc in rcs:
                    tg += [f for f in prog.cha_targets(rc, n.attr) if f.is_property]
                if not tg and byname:
                    tg = [f for f in prog.methods_named(n.attr) if f.is_property]
                for t in tg:
                    if isinstance(n.ctx, ast.Store) and not any(d.endswith(".setter") for d in t.decorators):
                        continue
                    if isinstance(n.ctx, ast.Load) and any(d.endswith(".setter") or d.endswith(".deleter") for d in t.decorators):
                        continue
                    out.add(t)
            proto = None
            if isinstance(n, (ast.For, ast.comprehension)):
                proto = ("__iter__", n.iter)
            elif isinstance(n, ast.With):
                for it in n.items:
                    for nm in ("__enter__", "__exit__"):
                        for rc in self.value_classes(fi, mod, it.context_expr) or self._with_classes(fi, mod, it.context_expr):
                            out.update(prog.cha_targets(rc, nm))
            elif isinstance(n, ast.Compare):
                for op, right in zip(n.ops, [n.left] + n.comparators):
                    pass
            if proto:
                for rc in self.receiver_classes(fi, mod, proto[1]):
                    out.update(prog.cha_targets(rc, proto[0]))
        return out

    def _with_classes(self, fi, mod, expr) -> List[ClassInfo]:
        # with X.inject(...): the returned object's class via return annotation or returned constructor
        out = []
        if isinstance(expr, ast.Call):
            for t in self.resolve_call(fi, mod, expr):
                if isinstance(t, FuncInfo):
                    for n in walk_no_nested(t.node):
                        if isinstance(n, ast.Return) and n.value is not None:
                            out += self.receiver_classes(t, t.module, n.value)
        return _uniq(out)

    def reachable(self, roots: Iterable[FuncInfo], byname: bool = True) -> Set[FuncInfo]:
        seen: Set[FuncInfo] = set()
        stack = list(roots)
        while stack:
            f = stack.pop()
            if f in seen:
                continue
            seen.add(f)
            stack.extend(self.callees(f, byname=byname) - seen)
        return seen

    def site_stats(self) -> dict:
        """Resolution ratios over all call sites of the package (for evidence)."""
        st = {"sites": 0, "repo": 0, "byname": 0, "external": 0}
        for fi in self.prog.all_funcs():
            for n in walk_no_nested(fi.node):
                if isinstance(n, ast.Call):
                    st["sites"] += 1
                    tg = self.resolve_call(fi, fi.module, n)
                    if any(isinstance(t, (FuncInfo, ClassInfo)) or (isinstance(t, tuple) and t[0] == "lambda") for t in tg):
                        st["repo"] += 1
                    elif any(isinstance(t, tuple) and t[0] == "byname" for t in tg):
                        st["byname"] += 1
                    else:
                        st["external"] += 1
        return st

    # -- misc -------------------------------------------------------------------------------------------
    @staticmethod
    def _top_func(fi: FuncInfo) -> FuncInfo:
        return fi

    @staticmethod
    def _owner_class(fi: Optional[FuncInfo]) -> Optional[ClassInfo]:
        f = fi
        while f is not None:
            if f.cls is not None:
                return f.cls
            f = f.parent
        return None


def _uniq(xs):
    out = []
    for x in xs:
        if x not in out:
            out.append(x)
    return out
