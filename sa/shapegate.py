"""Confidence gate for the shape-dependent rules.

Most rules of this analyser decide a clause by recognising HOW the repository implements it (a loop that does X, a guard in
front of Y).  They were validated - both ways, see selftest/ - on the revision recorded in baseline_shapes.json and on small
edits of it.  When the function a rule reports on has been restructured since (rewritten for the most part, split into new
helpers, helpers removed), the rule's "not found" is no evidence of a defect: a behaviour-preserving refactoring looks the same
to it.  In that case the verdict is WITHHELD: the check fails closed with an ANALYSIS-ERROR (exit 2) that names the rule, what
it found and why it is not trusted, instead of printing a VIOLATION.

Rules that report a positively identified construct wherever it stands (the lint-style rules with embedded positive controls)
and the rules that evaluate the functions from their source (NF-4, PERM-1) do not depend on the shape and are never gated.
"""
from __future__ import annotations

import ast
import difflib
import json
import os
from typing import Dict, List, Optional

from .model import FuncInfo, Program

HERE = os.path.dirname(os.path.dirname(os.path.abspath(__file__)))
BASELINE = os.path.join(HERE, "baseline_shapes.json")
SIMILARITY_FLOOR = 0.5
MIN_CHANGED_LINES = 5

# rules whose report does not depend on where / how the repository implements something
SHAPE_INDEPENDENT = {
    "NF-4", "PERM-1",
    "ENCERR-1", "PROC-1", "DSU-1", "KEYTRUTH-1", "ITERSELF-1", "INJ-6", "ANYELEM-1", "ENVDEP-1", "LOCK-1", "THREAD-1", "SHARED-1",
    "ASSERT-1", "LATE-1", "GLOB-1", "GLOB-1g", "GLOB-1c", "GLOB-1r", "ITER-1", "ITER-2", "GENCALL-1", "MEMOKEY-1",
    "EXITCM-1", "CONVPURE-1", "GENPURE-1", "PURE-1", "INFPURE-1", "SIG-1", "LOAD-5", "ARGP-1",
    "EQHASH-1", "SHADOW-1", "SHADOW-2", "COVER-1", "SIBCONV-1", "OPTFLOW-1", "OPTFLOW-4", "DEFARG-1", "STALE-1",
}


def _lines(node: ast.AST) -> List[str]:
    body = list(getattr(node, "body", []))
    if body and isinstance(body, list) and isinstance(body[0], ast.Expr) and isinstance(getattr(body[0], "value", None), ast.Constant) \
            and isinstance(body[0].value.value, str):
        body = body[1:]
    out: List[str] = []
    for st in body if isinstance(body, list) else [body]:
        try:
            out += [ln.strip() for ln in ast.unparse(st).splitlines() if ln.strip()]
        except Exception:
            out.append(type(st).__name__)
    return out


def _called_names(node: ast.AST) -> List[str]:
    out = set()
    for n in ast.walk(node):
        if isinstance(n, ast.Call):
            f = n.func
            if isinstance(f, ast.Name):
                out.add(f.id)
            elif isinstance(f, ast.Attribute):
                out.add(f.attr)
    for d in getattr(node, "decorator_list", []):
        d = d.func if isinstance(d, ast.Call) else d
        if isinstance(d, ast.Name):
            out.add(d.id)
        elif isinstance(d, ast.Attribute):
            out.add(d.attr)
    return sorted(out)


def fingerprint(prog: Program) -> dict:
    funcs = {}
    names = set()
    for f in prog.all_funcs():
        if isinstance(f.node, ast.Lambda):
            continue
        funcs[f.key] = {"lines": _lines(f.node), "calls": _called_names(f.node)}
        names.add(f.name)
    return {"functions": funcs, "names": sorted(names)}


def load_baseline() -> Optional[dict]:
    if not os.path.isfile(BASELINE):
        return None
    with open(BASELINE) as fh:
        return json.load(fh)


class Gate:
    """restructured(file, qualname, consulted) -> reason or None.

    The REGION of a report is the function it names (all methods of the class / all functions of the module when it names one of
    those), the functions nested in it, everything it calls inside the package down to CALLEE_DEPTH (by name: the call graph of
    the analyser is not needed for a conservative answer), its direct callers, and the anchor functions the rule looked up by
    name together with their direct callees.  A verdict is withheld when any function of the region was restructured."""
    CALLEE_DEPTH = 3

    def __init__(self, prog: Program):
        self.prog = prog
        self.base = load_baseline()
        self.cur = fingerprint(prog) if self.base is not None else None
        self._memo: Dict[str, Optional[str]] = {}
        self._region: Dict[str, List[str]] = {}
        if self.cur is not None:
            self.by_name: Dict[str, List[str]] = {}
            for k in self.cur["functions"]:
                self.by_name.setdefault(k.rsplit("::", 1)[1].rsplit(".", 1)[-1], []).append(k)
            for k in self.base["functions"]:
                if k not in self.cur["functions"]:
                    self.by_name.setdefault(k.rsplit("::", 1)[1].rsplit(".", 1)[-1], [])
            self.callers: Dict[str, List[str]] = {}
            for k, v in self.cur["functions"].items():
                for c in v["calls"]:
                    self.callers.setdefault(c, []).append(k)

    def summary(self) -> dict:
        """For the evidence file: what the gate compared on this run."""
        if self.base is None:
            return {"baseline": None, "note": "no baseline_shapes.json: nothing is gated"}
        for k in self.cur["functions"]:
            if k not in self._memo:
                self._memo[k] = self._decide(k)
        return {"baseline_revision": self.base.get("revision"), "functions_compared": len(self.cur["functions"]),
                "functions_restructured": {k: v for k, v in sorted(self._memo.items()) if v},
                "rule": "a VIOLATED verdict of a shape-dependent rule is withheld (ANALYSIS-ERROR, exit 2) when a function of the "
                        "report's region was restructured relative to the baseline revision; see sa/shapegate.py",
                "shape_independent_rules": sorted(SHAPE_INDEPENDENT)}

    # -- region -----------------------------------------------------------------------------------
    def _seeds(self, relpath: str, qualname: str) -> List[str]:
        key = f"{relpath}::{qualname}"
        fs = self.cur["functions"]
        if key in fs:
            return [key]
        if qualname in ("", "<module>"):
            return [k for k in fs if k.startswith(relpath + "::")]
        return [k for k in fs if k.startswith(key + ".")]

    def _closure(self, seeds: List[str], depth: int, with_callers: bool) -> List[str]:
        fs = self.cur["functions"]
        seen = dict.fromkeys(seeds)
        frontier = list(seeds)
        for k in seeds:                                    # nested functions
            for k2 in fs:
                if k2.startswith(k + ".<locals>."):
                    seen.setdefault(k2)
                    frontier.append(k2)
        if with_callers:
            for k in seeds:
                for c in self.callers.get(k.rsplit("::", 1)[1].rsplit(".", 1)[-1], []):
                    seen.setdefault(c)
        for _ in range(depth):
            nxt = []
            for k in frontier:
                for name in fs[k]["calls"]:
                    for k2 in self.by_name.get(name, []):
                        if k2 not in seen:
                            seen[k2] = None
                            nxt.append(k2)
            frontier = nxt
        return list(seen)

    def restructured(self, relpath: str, qualname: str, consulted=()) -> Optional[str]:
        """Why the code the report rests on is not the code the rules were validated on (None: it is, up to small edits)."""
        if self.base is None:
            return None
        rkey = f"{relpath}::{qualname}"
        if rkey not in self._region:
            self._region[rkey] = self._closure(self._seeds(relpath, qualname), self.CALLEE_DEPTH, True)
        region = list(self._region[rkey])
        anchors = [k for k in consulted if k in self.cur["functions"]]
        for k in self._closure(anchors, 1, False):
            if k not in region:
                region.append(k)
        for k in region:
            if k not in self._memo:
                self._memo[k] = self._decide(k)
            if self._memo[k]:
                where = "" if k == rkey else f"{k} (which this report rests on): "
                return where + self._memo[k]
        # a helper of the validated revision that the region used to call and that is gone
        return None

    def _decide(self, key: str) -> Optional[str]:
        cur = self.cur["functions"].get(key)
        if cur is None:
            return None
        base = self.base["functions"].get(key)
        if base is None:
            return "the function did not exist in the validated revision"
        base_names = set(self.base["names"])
        cur_names = set(self.cur["names"])
        new_helpers = sorted(n for n in cur["calls"] if n in cur_names and n not in base_names)
        if new_helpers:
            return f"it delegates to helper(s) that did not exist in the validated revision: {', '.join(new_helpers[:4])}"
        gone = sorted(n for n in base["calls"] if n in base_names and n not in cur_names)
        if gone:
            return f"helper(s) it used to call no longer exist: {', '.join(gone[:4])}"
        sm = difflib.SequenceMatcher(None, base["lines"], cur["lines"], autojunk=False)
        matched = sum(b.size for b in sm.get_matching_blocks())
        changed = max(len(base["lines"]), len(cur["lines"])) - matched
        ratio = sm.ratio()
        if changed > MIN_CHANGED_LINES and ratio < SIMILARITY_FLOOR:
            return (f"it has been rewritten for the most part ({changed} of {max(len(base['lines']), len(cur['lines']))} statement "
                    f"lines differ from the validated revision)")
        return None
