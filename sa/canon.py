"""Normal form of rare spellings, applied to every module before it is indexed.

The rules of this analyser recognise constructs in the spelling the repository uses (a subscript store, an f-string, `all(...)`,
a membership test in a tuple).  A behaviour-preserving edit can respell such a construct (`d.update({k: v})`, `'{}'.format(x)`,
`not any(not ...)`, `a == p or a == q`) and a rule that matches syntax would then report a defect that is not there.  This pass
rewrites a fixed list of spellings into the one the rules know.  Every rewriting

  * preserves the meaning of the program for every value that can occur (each one is a textbook equivalence, listed below with
    its side condition), so the abstract evaluator (sa/absint.py) may run on the rewritten tree as well;
  * is the identity on the revision the rules were validated on except for the sites listed in baseline_shapes.json under
    "canon" (tools_baseline.py records them; two on the current revision: the De Morgan form of the loop condition of
    prepare_label and `for name in kwargs.keys()` in convert_args), so what was confirmed by hand on that revision is not
    re-interpreted;
  * keeps the positions of the original nodes (reports still point to the line the construct stands on).

Rewritings (E = expression, S = statement):
  E  not not a -> a (in a boolean context only);  not (a or b) -> not a and not b;  not (a and b) -> not a or not b;
     not (x OP y) -> x COMPLEMENT(OP) y  for  == != is 'is not' in 'not in' < <= > >=   (single operator)
  E  truth of xs[n:] -> len(xs) > n;  truth of S & {x} -> x in S;  len(x) > 0 / != 0 / >= 1 -> x and len(x) == 0 -> not x (truth context)
  E  a < m == b -> a < m and m == b  (m a name or constant);  None not in map(F, xs) -> all(F(x) is not None for x in xs)
  E  (A, B)[bool(c)] -> B if c else A  (A, B names or constants);  x.__len__() -> len(x);  f.writelines((x,)) -> f.write(x)
  E  xs.insert(len(xs), a) -> xs.append(a);  Cls.m(Cls.now(), ..) -> Cls.now().m(..)
  E  s.count(c) == len(s) -> not s.strip(c)                              (c one character)
  E  True if c else False -> c;  False if c else True -> not c           (c a bool)
  E  super(Cls, self) -> super()   (inside a method of Cls whose first parameter is self);  *(x,) -> *[x]
  E  list(map(lambda x: E, xs)) -> [E for x in xs]
  E  re.compile(P).sub(..) -> re.sub(P, ..)   (and match, search, ...);  Cls.m(Cls(a), b) -> Cls(a).m(b)
  E  [f(X[i]) for i in range(len(X))] -> [f(x) for x in X]                (i read only as X[i])
  E  b if not c else a -> a if c else b;  likewise for the tests  !=  is not  not in  <=  <   (their complement, arms swapped)
  E  x == p or x == q  /  p == x or q == x  ->  x in (p, q)           (the same operand text in every disjunct; evaluated once
                                                                        and eagerly: every operand must be a name or a
                                                                        constant, whose evaluation cannot fail or be observed)
  E  not any(not e for ..) -> all(e for ..);  not all(not e for ..) -> any(e for ..);
     not any(x OP y for ..) -> all(x COMPLEMENT(OP) y for ..) and dually
  E  'lit {} lit'.format(a, b)  ->  f'lit {a} lit'                      (auto-numbered or explicitly numbered plain fields only)
  E  'lit %s lit' % (a, b)       ->  f'lit {a!s} lit'                   (%s fields only, the operand is a tuple display)
  E  ''.join((a, b, c)) -> a + b + c                                    (empty separator, a display of at least two items)
  E  x = x and f(x)  ->  x = f(x) if x else x                           (as the value of an assignment, x a name)
  E  sep.join(x.split(old)) -> x.replace(old, sep)                      (old a non-empty constant, no split limit)
  E  map(partial(F, a, k=v), xs) -> (F(a, x, k=v) for x in xs)
  E  getattr(o, 'name') -> o.name                                       (two arguments, constant identifier without leading `__`)
  E  dict([(k, v), ...]) / dict(((k, v), ...)) -> {k: v, ...};  dict(a=1) -> {'a': 1}
  E  list(map(f, xs)) -> [f(x) for x in xs]   (f a name or attribute chain; one iterable)
     list(filter(lambda i: c, xs)) -> [i for i in xs if c]
  E  [*xs] -> list(xs);  {*xs} -> set(xs);  (a,) + b  ->  (a, *b)                            (b must be a tuple for the original to succeed)
  E  d.keys() as the iterable of a for loop / comprehension -> d
  S  x = list(E) / x.sort(key=K) -> x = sorted(E, key=K)                   (adjacent statements)
  S  errors = (ValueError, OverflowError) bound once, read only in `except errors` / isinstance(x, errors) -> the display there
  S  t = self.a.b (bound once, read only, nothing after it calls a method of `self` itself, passes `self` on or assigns self.a /
     self.a.b) -> the binding is dropped and every read of t becomes self.a.b          (the root is `self` or a parameter)
  S  if f(x := E): -> x = E / if f(x):     (the assignment expression is evaluated first);  while True: if c: break / R -> while not c: R
  S  for x in filter(F, xs): B -> for x in xs: if F(x): B;  for x in (y for y in xs if c): B -> for x in xs: if c: B
  S  xs[len(xs):] = [a] -> xs.append(a);  xs[len(xs):] = ys -> xs.extend(ys);  xs[:0] = [a] -> xs.insert(0, a)
  S  for ..: B else: E (no break in B) -> for ..: B / E
  S  return A if c else B -> if c: return A / return B;  if c: pass else: B -> if not c: B;  an else branch of only `pass` is dropped
  S  x = {} if c else {k: v} -> x = {} / if not c: x[k] = v;  X = {..} / X.update(N) -> X = {.., **N}   (adjacent statements)
  S  x = A if c else x -> if c: x = A;  x = x if c else A -> if not c: x = A
  S  x = x + 'text' -> x += 'text'                                       (the right operand is a str constant or f-string)
  S  a, b = x, y -> a = x; b = y                                         (names / attribute chains / constants; no later value is an
                                                                        earlier target, an attribute of one or an owner of one)
  S  d.update({k: v, ..}) / d.update(k=v) as a statement -> d[k] = v; ...   (display without ** entries)
  S  setattr(o, 'name', v) as a statement -> o.name = v                  (same side condition as getattr)
  S  X[k] += seq -> X[k].extend(seq)   where X = defaultdict(list) in the same function
  S  xs += [a, b] -> xs.extend([a, b]);  xs += [.. for ..] -> xs.extend([.. for ..]);  xs += [a] / xs.extend([a]) -> xs.append(a)    (as statements)
"""
from __future__ import annotations

import ast
import re
import string
from typing import List, Optional

_COMPLEMENT = {ast.Eq: ast.NotEq, ast.NotEq: ast.Eq, ast.Is: ast.IsNot, ast.IsNot: ast.Is, ast.In: ast.NotIn, ast.NotIn: ast.In,
               ast.Lt: ast.GtE, ast.GtE: ast.Lt, ast.Gt: ast.LtE, ast.LtE: ast.Gt}
_ORDERING = (ast.Lt, ast.LtE, ast.Gt, ast.GtE)


def _complementable(cmp: ast.Compare) -> bool:
    """`not (a OP b)` is `a COMPLEMENT(OP) b` for == != is in (always), and for < <= > >= only on a total order: sets are ordered by
    inclusion (`not (A <= B)` is not `A > B`) and NaN compares false both ways.  Accepted: an int / str constant or a len() /
    count() / ord() / int() call on either side."""
    if not isinstance(cmp.ops[0], _ORDERING):
        return True
    def totally_ordered(e):
        if isinstance(e, ast.Constant):
            return isinstance(e.value, (int, str)) and not isinstance(e.value, bool)
        if isinstance(e, ast.Call):
            f = e.func
            return (isinstance(f, ast.Name) and f.id in ("len", "ord", "int")) or (isinstance(f, ast.Attribute) and f.attr in ("count", "index", "__len__"))
        return False
    return totally_ordered(cmp.left) or totally_ordered(cmp.comparators[0])


_IDENT = re.compile(r"^(?!__)[A-Za-z_][A-Za-z0-9_]*$")


def _simple_operand(e: ast.AST) -> bool:
    while isinstance(e, ast.Attribute):
        e = e.value
    return isinstance(e, (ast.Name, ast.Constant))


def _at(new: ast.AST, old: ast.AST) -> ast.AST:
    ast.copy_location(new, old)
    for n in ast.walk(new):
        if not hasattr(n, "lineno") and isinstance(n, (ast.expr, ast.stmt)):
            ast.copy_location(n, old)
    return new


class Canon(ast.NodeTransformer):
    def __init__(self):
        self.changes: List[str] = []
        self._list_tables: frozenset = frozenset()
        self._class_stack: List[str] = []
        self._self_stack: List[Optional[str]] = []

    def _note(self, what: str, node: ast.AST):
        self.changes.append(f"{getattr(node, 'lineno', 0)}: {what}")

    # -- expressions ---------------------------------------------------------------------------------------------------------
    # negation: exact rewritings anywhere (the result is a bool on both sides), De Morgan where only the truth value counts or every
    # leaf is a bool anyway
    _BOOL_CALLS = {"any", "all", "isinstance", "issubclass", "bool", "callable", "hasattr", "isclass"}
    _BOOL_METHODS = {"startswith", "endswith", "isdigit", "isidentifier", "isdisjoint", "issubset", "issuperset", "isalpha", "isalnum"}

    def _is_bool(self, e: ast.AST) -> bool:
        if isinstance(e, ast.Compare):
            return True
        if isinstance(e, ast.UnaryOp) and isinstance(e.op, ast.Not):
            return True
        if isinstance(e, ast.BoolOp):
            return all(self._is_bool(v) for v in e.values)
        if isinstance(e, ast.Constant):
            return isinstance(e.value, bool)
        if isinstance(e, ast.Call):
            if isinstance(e.func, ast.Name):
                return e.func.id in self._BOOL_CALLS
            if isinstance(e.func, ast.Attribute):
                return e.func.attr in self._BOOL_METHODS
        return False

    def _neg(self, e: ast.AST, truth_only: bool) -> Optional[ast.AST]:
        """Normal form of `not e`, or None when `not e` is already the normal form."""
        if isinstance(e, ast.UnaryOp) and isinstance(e.op, ast.Not):
            if truth_only or self._is_bool(e.operand):
                return e.operand
            return None
        if isinstance(e, ast.Compare) and len(e.ops) == 1:
            if not _complementable(e):
                return None
            return _at(ast.Compare(left=e.left, ops=[_COMPLEMENT[type(e.ops[0])]()], comparators=e.comparators), e)
        if isinstance(e, ast.BoolOp) and (truth_only or self._is_bool(e)):
            op = ast.Or() if isinstance(e.op, ast.And) else ast.And()
            vals = []
            for v in e.values:
                n = self._neg(v, truth_only)
                vals.append(n if n is not None else _at(ast.UnaryOp(op=ast.Not(), operand=v), v))
            return _at(ast.BoolOp(op=op, values=vals), e)
        if isinstance(e, ast.Call) and isinstance(e.func, ast.Name) and e.func.id in ("any", "all") and len(e.args) == 1 \
                and not e.keywords and isinstance(e.args[0], ast.GeneratorExp):
            g = e.args[0]
            inner = None
            if isinstance(g.elt, ast.UnaryOp) and isinstance(g.elt.op, ast.Not):
                inner = g.elt.operand
            elif isinstance(g.elt, ast.Compare) and len(g.elt.ops) == 1 and _complementable(g.elt):
                inner = _at(ast.Compare(left=g.elt.left, ops=[_COMPLEMENT[type(g.elt.ops[0])]()], comparators=g.elt.comparators), g.elt)
            if inner is not None:
                dual = "all" if e.func.id == "any" else "any"
                return _at(ast.Call(func=_at(ast.Name(id=dual, ctx=ast.Load()), e.func),
                                    args=[_at(ast.GeneratorExp(elt=inner, generators=g.generators), g)], keywords=[]), e)
        return None

    def visit_UnaryOp(self, node: ast.UnaryOp):
        self.generic_visit(node)
        if isinstance(node.op, ast.Not):
            n = self._neg(node.operand, False)
            if n is not None:
                self._note("negation resolved", node)
                return self.visit(_at(n, node)) if isinstance(n, (ast.BoolOp, ast.UnaryOp)) else _at(n, node)
        return node

    def _truth(self, e: ast.AST) -> ast.AST:
        """Normal form of an expression of which only the truth value is used."""
        # xs[n:] is non-empty exactly when len(xs) > n
        if isinstance(e, ast.Subscript) and isinstance(e.slice, ast.Slice) and e.slice.upper is None and e.slice.step is None \
                and isinstance(e.slice.lower, ast.Constant) and isinstance(e.slice.lower.value, int) and e.slice.lower.value >= 0 \
                and _simple_operand(e.value):
            self._note("truth of xs[n:] -> len(xs) > n", e)
            return _at(ast.Compare(left=ast.Call(func=ast.Name(id="len", ctx=ast.Load()), args=[e.value], keywords=[]), ops=[ast.Gt()],
                                   comparators=[ast.Constant(value=e.slice.lower.value)]), e)
        # S & {x} / {x} & S is non-empty exactly when x in S
        if isinstance(e, ast.BinOp) and isinstance(e.op, ast.BitAnd):
            for one, other in ((e.left, e.right), (e.right, e.left)):
                if isinstance(one, ast.Set) and len(one.elts) == 1 and not isinstance(one.elts[0], ast.Starred) and _simple_operand(other) \
                        and not isinstance(other, ast.Constant):
                    self._note("truth of S & {x} -> x in S", e)
                    return _at(ast.Compare(left=one.elts[0], ops=[ast.In()], comparators=[other]), e)
        # len(x) > 0 / len(x) != 0 / len(x) >= 1 -> x ;  len(x) == 0 -> not x     (anything with a length: truth value is len != 0)
        if isinstance(e, ast.Compare) and len(e.ops) == 1 and isinstance(e.left, ast.Call) and isinstance(e.left.func, ast.Name) \
                and e.left.func.id == "len" and len(e.left.args) == 1 and not e.left.keywords and isinstance(e.comparators[0], ast.Constant) \
                and _simple_operand(e.left.args[0]) and not isinstance(e.left.args[0], ast.Constant):
            c, op = e.comparators[0].value, type(e.ops[0])
            if (op in (ast.Gt, ast.NotEq) and c == 0) or (op is ast.GtE and c == 1):
                self._note("len(x) > 0 -> x (truth context)", e)
                return e.left.args[0]
            if (op is ast.Eq and c == 0) or (op is ast.Lt and c == 1):
                self._note("len(x) == 0 -> not x (truth context)", e)
                return _at(ast.UnaryOp(op=ast.Not(), operand=e.left.args[0]), e)
        if isinstance(e, ast.UnaryOp) and isinstance(e.op, ast.Not):
            n = self._neg(e.operand, True)
            if n is not None:
                self._note("negation resolved (truth context)", e)
                return self._truth(_at(n, e))
            return e
        if isinstance(e, ast.BoolOp):
            e.values = [self._truth(v) for v in e.values]
            return self.visit_BoolOp_only(e)
        return e

    @staticmethod
    def _has_own_break(body) -> bool:
        def walk(stmts):
            for st in stmts:
                if isinstance(st, ast.Break):
                    return True
                if isinstance(st, (ast.For, ast.AsyncFor, ast.While)):
                    if walk(st.orelse):        # a break in the else of an inner loop belongs to the outer one
                        return True
                    continue
                if isinstance(st, (ast.FunctionDef, ast.AsyncFunctionDef, ast.ClassDef)):
                    continue
                for fld in ("body", "orelse", "finalbody"):
                    if walk(getattr(st, fld, []) or []):
                        return True
                for h in getattr(st, "handlers", []) or []:
                    if walk(h.body):
                        return True
        return bool(walk(body))

    @staticmethod
    def _leftmost_walrus(e: ast.AST) -> Optional[ast.NamedExpr]:
        """The assignment expression that is evaluated before anything else of `e`, if there is one."""
        while True:
            if isinstance(e, ast.NamedExpr):
                return e if isinstance(e.target, ast.Name) else None
            if isinstance(e, ast.Compare):
                e = e.left
            elif isinstance(e, ast.BoolOp):
                e = e.values[0]
            elif isinstance(e, ast.UnaryOp):
                e = e.operand
            elif isinstance(e, ast.BinOp):
                e = e.left
            elif isinstance(e, (ast.Attribute, ast.Subscript)):
                e = e.value
            elif isinstance(e, ast.Call) and isinstance(e.func, ast.Name) and e.args and not isinstance(e.args[0], ast.Starred):
                e = e.args[0]           # a plain name as callee: looking it up has no effect
            else:
                return None

    def visit_If(self, node: ast.If):
        self.generic_visit(node)
        # if f(x := E): ...  ->  x = E / if f(x): ...        (the assignment expression is the first thing the test evaluates)
        w = self._leftmost_walrus(node.test)
        if w is not None and sum(isinstance(x, ast.NamedExpr) for x in ast.walk(node.test)) == 1:
            self._note("assignment expression at the head of a test -> assignment statement", node)

            class _Sub(ast.NodeTransformer):
                def visit_NamedExpr(self_, n):
                    return _at(ast.Name(id=n.target.id, ctx=ast.Load()), n) if n is w else n
            pre = _at(ast.Assign(targets=[ast.Name(id=w.target.id, ctx=ast.Store())], value=w.value), node)
            node.test = _Sub().visit(node.test)
            rest = self.visit_If_tail(node)
            return [pre] + (rest if isinstance(rest, list) else [rest])
        return self.visit_If_tail(node)

    def visit_If_tail(self, node: ast.If):
        node.test = self._truth(node.test)
        # if c: pass else: B  ->  if not c: B
        if node.orelse and all(isinstance(b, ast.Pass) for b in node.body):
            self._note("pass-only branch: condition negated", node)
            node.test = self._truth(_at(ast.UnaryOp(op=ast.Not(), operand=node.test), node.test))
            node.body, node.orelse = node.orelse, []
        elif node.orelse and all(isinstance(b, ast.Pass) for b in node.orelse):
            node.orelse = []
        return node

    def visit_Return(self, node: ast.Return):
        self.generic_visit(node)
        # return A if c else B  ->  if c: return A / return B
        if isinstance(node.value, ast.IfExp):
            self._note("return of a conditional expression -> guarded return", node)
            v = node.value
            return [_at(ast.If(test=v.test, body=[_at(ast.Return(value=v.body), node)], orelse=[]), node), _at(ast.Return(value=v.orelse), node)]
        return node

    def visit_While(self, node: ast.While):
        self.generic_visit(node)
        node.test = self._truth(node.test)
        # while True: if c: break / REST  ->  while not c: REST
        if isinstance(node.test, ast.Constant) and node.test.value is True and not node.orelse and node.body and isinstance(node.body[0], ast.If) \
                and not node.body[0].orelse and len(node.body[0].body) == 1 and isinstance(node.body[0].body[0], ast.Break) \
                and not any(isinstance(x, ast.Break) for b in node.body[1:] for x in ast.walk(b) if True) :
            self._note("while True with a leading break test -> loop condition", node)
            c = node.body[0].test
            node.test = self._truth(_at(ast.UnaryOp(op=ast.Not(), operand=c), c))
            node.body = node.body[1:] or [_at(ast.Pass(), node)]
        return node

    _NEGATIVE_OPS = (ast.NotEq, ast.IsNot, ast.NotIn, ast.LtE, ast.Lt)

    def visit_IfExp(self, node: ast.IfExp):
        self.generic_visit(node)
        node.test = self._truth(node.test)
        # True if c else False -> c ;  False if c else True -> not c      (c is a bool already)
        if isinstance(node.body, ast.Constant) and isinstance(node.orelse, ast.Constant) and isinstance(node.body.value, bool) \
                and isinstance(node.orelse.value, bool) and node.body.value != node.orelse.value and self._is_bool(node.test):
            self._note("conditional expression choosing between the bool constants -> its test", node)
            if node.body.value:
                return node.test
            n = self._neg(node.test, False)
            return _at(n if n is not None else ast.UnaryOp(op=ast.Not(), operand=node.test), node)
        # a negative test (not x, !=, is not, not in, <=, <) -> its positive complement with the arms swapped
        t = node.test
        if (isinstance(t, ast.UnaryOp) and isinstance(t.op, ast.Not)) or (
                isinstance(t, ast.Compare) and len(t.ops) == 1 and isinstance(t.ops[0], self._NEGATIVE_OPS) and _complementable(t)):
            pos = t.operand if isinstance(t, ast.UnaryOp) else _at(
                ast.Compare(left=t.left, ops=[_COMPLEMENT[type(t.ops[0])]()], comparators=t.comparators), t)
            self._note("conditional expression with a negative test flipped", node)
            node.test, node.body, node.orelse = pos, node.orelse, node.body
        return node

    def visit_Assert(self, node: ast.Assert):
        self.generic_visit(node)
        node.test = self._truth(node.test)
        return node

    def visit_Subscript(self, node: ast.Subscript):
        self.generic_visit(node)
        # (A, B)[bool(c)] / (A, B)[c] with c a bool -> B if c else A        (A and B names or constants: evaluating both costs nothing)
        if isinstance(node.ctx, ast.Load) and isinstance(node.value, ast.Tuple) and len(node.value.elts) == 2 \
                and all(isinstance(e, (ast.Name, ast.Constant)) or (isinstance(e, ast.Call) and isinstance(e.func, ast.Name) and e.func.id in ("frozenset", "set", "list", "dict", "tuple") and not e.args and not e.keywords)
                        for e in node.value.elts):
            c = node.slice
            if isinstance(c, ast.Call) and isinstance(c.func, ast.Name) and c.func.id == "bool" and len(c.args) == 1 and not c.keywords:
                c = c.args[0]
            elif not self._is_bool(c) and not (isinstance(c, ast.Attribute) and c.attr.lstrip("_").startswith(("is_", "has_", "overflow"))):
                return node
            self._note("pair indexed by a bool -> conditional expression", node)
            return self.visit_IfExp(_at(ast.IfExp(test=c, body=node.value.elts[1], orelse=node.value.elts[0]), node))
        return node

    def visit_Compare(self, node: ast.Compare):
        self.generic_visit(node)
        # 1 == x -> x == 1      (a constant on the left of == / != / is / is not)
        if len(node.ops) == 1 and isinstance(node.ops[0], (ast.Eq, ast.NotEq, ast.Is, ast.IsNot)) and isinstance(node.left, ast.Constant) \
                and not isinstance(node.comparators[0], ast.Constant):
            self._note("constant moved to the right of a comparison", node)
            node.left, node.comparators = node.comparators[0], [node.left]
        # a OP1 m OP2 b  ->  a OP1 m and m OP2 b      (m a constant or a name: evaluated once either way)
        if len(node.ops) == 2 and isinstance(node.comparators[0], (ast.Constant, ast.Name)):
            self._note("comparison chain -> conjunction", node)
            m = node.comparators[0]
            left = _at(ast.Compare(left=node.left, ops=[node.ops[0]], comparators=[m]), node)
            right = _at(ast.Compare(left=m, ops=[node.ops[1]], comparators=[node.comparators[1]]), node)
            return _at(ast.BoolOp(op=ast.And(), values=[self.visit_Compare(left), self.visit_Compare(right)]), node)
        # None not in map(F, xs) -> all(F(x) is not None for x in xs);  None in map(F, xs) -> any(F(x) is None for x in xs)
        if len(node.ops) == 1 and isinstance(node.ops[0], (ast.In, ast.NotIn)) and isinstance(node.left, ast.Constant) and node.left.value is None \
                and isinstance(node.comparators[0], ast.Call) and isinstance(node.comparators[0].func, ast.Name) and node.comparators[0].func.id == "map" \
                and len(node.comparators[0].args) == 2 and isinstance(node.comparators[0].args[0], (ast.Name, ast.Attribute)):
            F, XS = node.comparators[0].args
            neg = isinstance(node.ops[0], ast.NotIn)
            self._note("None (not) in map(F, xs) -> all / any over the results", node)
            elt = ast.Compare(left=ast.Call(func=F, args=[ast.Name(id="_x", ctx=ast.Load())], keywords=[]), ops=[ast.IsNot() if neg else ast.Is()],
                              comparators=[ast.Constant(value=None)])
            gen = ast.GeneratorExp(elt=elt, generators=[ast.comprehension(target=ast.Name(id="_x", ctx=ast.Store()), iter=self._iter_keys(XS), ifs=[], is_async=0)])
            return _at(ast.Call(func=ast.Name(id="all" if neg else "any", ctx=ast.Load()), args=[gen], keywords=[]), node)
        # s.count(c) == len(s)  ->  not s.strip(c)       (c one character: every character of s is c)
        if len(node.ops) == 1 and isinstance(node.ops[0], (ast.Eq, ast.NotEq)):
            for a, b in ((node.left, node.comparators[0]), (node.comparators[0], node.left)):
                if isinstance(a, ast.Call) and isinstance(a.func, ast.Attribute) and a.func.attr == "count" and len(a.args) == 1 and not a.keywords \
                        and isinstance(a.args[0], ast.Constant) and isinstance(a.args[0].value, str) and len(a.args[0].value) == 1 \
                        and isinstance(b, ast.Call) and isinstance(b.func, ast.Name) and b.func.id == "len" and len(b.args) == 1 \
                        and _simple_operand(a.func.value) and ast.dump(b.args[0]) == ast.dump(a.func.value):
                    self._note("s.count(c) == len(s) -> not s.strip(c)", node)
                    stripped = ast.Call(func=ast.Attribute(value=a.func.value, attr="strip", ctx=ast.Load()), args=[a.args[0]], keywords=[])
                    if isinstance(node.ops[0], ast.Eq):
                        return _at(ast.UnaryOp(op=ast.Not(), operand=stripped), node)
                    return _at(ast.Call(func=ast.Name(id="bool", ctx=ast.Load()), args=[stripped], keywords=[]), node)
        return node

    def visit_BoolOp(self, node: ast.BoolOp):
        self.generic_visit(node)
        return self.visit_BoolOp_only(node)

    def visit_BoolOp_only(self, node: ast.BoolOp):
        if isinstance(node.op, ast.Or) and len(node.values) >= 2 and all(
                isinstance(v, ast.Compare) and len(v.ops) == 1 and isinstance(v.ops[0], ast.Eq) for v in node.values):
            for side in ("left", "right"):
                texts = {ast.dump(v.left if side == "left" else v.comparators[0]) for v in node.values}
                if len(texts) == 1:
                    common = node.values[0].left if side == "left" else node.values[0].comparators[0]
                    others = [(v.comparators[0] if side == "left" else v.left) for v in node.values]
                    if isinstance(common, (ast.Name, ast.Constant)) and all(isinstance(o, (ast.Name, ast.Constant)) for o in others):
                        self._note("chain of == joined by or -> membership in a tuple", node)
                        return _at(ast.Compare(left=common, ops=[ast.In()], comparators=[_at(ast.Tuple(elts=others, ctx=ast.Load()), node)]), node)
        return node

    def visit_BinOp(self, node: ast.BinOp):
        self.generic_visit(node)
        if isinstance(node.op, ast.Mod) and isinstance(node.left, ast.Constant) and isinstance(node.left.value, str):
            args = node.right.elts if isinstance(node.right, ast.Tuple) else None
            parts = re.split(r"(%s|%%)", node.left.value)
            if args is not None and "%" not in "".join(p for p in parts if p not in ("%s", "%%")) and parts.count("%s") == len(args) \
                    and not any(isinstance(a, ast.Starred) for a in args):
                vals: List[ast.AST] = []
                it = iter(args)
                for p in parts:
                    if p == "%s":
                        vals.append(ast.FormattedValue(value=next(it), conversion=115, format_spec=None))
                    elif p:
                        vals.append(ast.Constant(value="%" if p == "%%" else p))
                self._note("% formatting -> f-string", node)
                return _at(ast.JoinedStr(values=vals), node)
        if isinstance(node.op, ast.Add) and isinstance(node.left, ast.Tuple) and isinstance(node.left.ctx, ast.Load) \
                and isinstance(node.right, (ast.Name, ast.Attribute)):
            self._note("tuple + tuple -> display with *", node)
            return _at(ast.Tuple(elts=list(node.left.elts) + [_at(ast.Starred(value=node.right, ctx=ast.Load()), node.right)], ctx=ast.Load()), node)
        return node

    def visit_List(self, node: ast.List):
        self.generic_visit(node)
        # [*xs] -> list(xs)
        if isinstance(node.ctx, ast.Load) and len(node.elts) == 1 and isinstance(node.elts[0], ast.Starred):
            self._note("[*xs] -> list(xs)", node)
            return self.visit_Call(_at(ast.Call(func=ast.Name(id="list", ctx=ast.Load()), args=[node.elts[0].value], keywords=[]), node))
        return node

    def visit_Set(self, node: ast.Set):
        self.generic_visit(node)
        if len(node.elts) == 1 and isinstance(node.elts[0], ast.Starred):
            self._note("{*xs} -> set(xs)", node)
            return _at(ast.Call(func=ast.Name(id="set", ctx=ast.Load()), args=[node.elts[0].value], keywords=[]), node)
        return node

    def visit_Call(self, node: ast.Call):
        self.generic_visit(node)
        f = node.func
        # 'lit {}'.format(a, b)
        if isinstance(f, ast.Attribute) and f.attr == "format" and isinstance(f.value, ast.Constant) and isinstance(f.value.value, str) \
                and not node.keywords and not any(isinstance(a, ast.Starred) for a in node.args):
            try:
                fields = list(string.Formatter().parse(f.value.value))
            except ValueError:
                fields = None
            if fields is not None:
                vals: List[ast.AST] = []
                auto = 0
                ok = True
                for lit, name, spec, conv in fields:
                    if lit:
                        vals.append(ast.Constant(value=lit))
                    if name is None:
                        continue
                    if spec or conv or not (name == "" or name.isdigit()):
                        ok = False
                        break
                    idx = auto if name == "" else int(name)
                    auto += name == ""
                    if idx >= len(node.args):
                        ok = False
                        break
                    vals.append(ast.FormattedValue(value=node.args[idx], conversion=-1, format_spec=None))
                if ok:
                    self._note("str.format -> f-string", node)
                    return _at(ast.JoinedStr(values=vals), node)
        # ''.join(re.findall(r'\w', s)) -> re.sub(r'\W', '', s)      (a one-character class and its complement)
        if isinstance(f, ast.Attribute) and f.attr == "join" and isinstance(f.value, ast.Constant) and f.value.value == "" and len(node.args) == 1 \
                and isinstance(node.args[0], ast.Call) and ast.unparse(node.args[0].func) == "re.findall" and len(node.args[0].args) == 2 \
                and not node.args[0].keywords and isinstance(node.args[0].args[0], ast.Constant) \
                and node.args[0].args[0].value in ("\\w", "\\W", "\\d", "\\D", "\\s", "\\S"):
            pat = node.args[0].args[0].value
            self._note("join of findall of a class -> sub of its complement", node)
            comp = pat[0] + (pat[1].upper() if pat[1].islower() else pat[1].lower())
            return _at(ast.Call(func=ast.Attribute(value=node.args[0].func.value, attr="sub", ctx=ast.Load()),
                                args=[ast.Constant(value=comp), ast.Constant(value=""), node.args[0].args[1]], keywords=[]), node)
        # filterfalse(operator.not_, xs) -> filter(None, xs)
        if isinstance(f, (ast.Name, ast.Attribute)) and (f.id if isinstance(f, ast.Name) else f.attr) == "filterfalse" and len(node.args) == 2 \
                and not node.keywords and ast.unparse(node.args[0]) in ("operator.not_", "not_"):
            self._note("filterfalse(not_, xs) -> filter(None, xs)", node)
            return _at(ast.Call(func=ast.Name(id="filter", ctx=ast.Load()), args=[ast.Constant(value=None), node.args[1]], keywords=[]), node)
        # x.__len__() -> len(x)
        if isinstance(f, ast.Attribute) and f.attr == "__len__" and not node.args and not node.keywords:
            self._note("x.__len__() -> len(x)", node)
            return _at(ast.Call(func=ast.Name(id="len", ctx=ast.Load()), args=[f.value], keywords=[]), node)
        # f.writelines((x,)) -> f.write(x)
        if isinstance(f, ast.Attribute) and f.attr == "writelines" and len(node.args) == 1 and not node.keywords \
                and isinstance(node.args[0], (ast.Tuple, ast.List)) and len(node.args[0].elts) == 1 and not isinstance(node.args[0].elts[0], ast.Starred):
            self._note("writelines of one item -> write", node)
            return _at(ast.Call(func=ast.Attribute(value=f.value, attr="write", ctx=ast.Load()), args=[node.args[0].elts[0]], keywords=[]), node)
        # xs.insert(len(xs), a) -> xs.append(a)
        if isinstance(f, ast.Attribute) and f.attr == "insert" and len(node.args) == 2 and not node.keywords and isinstance(node.args[0], ast.Call) \
                and isinstance(node.args[0].func, ast.Name) and node.args[0].func.id == "len" and len(node.args[0].args) == 1 \
                and _simple_operand(f.value) and ast.dump(node.args[0].args[0]) == ast.dump(f.value):
            self._note("xs.insert(len(xs), a) -> xs.append(a)", node)
            return _at(ast.Call(func=ast.Attribute(value=f.value, attr="append", ctx=ast.Load()), args=[node.args[1]], keywords=[]), node)
        # Cls.method(Cls.make(..), b) -> Cls.make(..).method(b)      (the instance comes from a constructor method of the same class)
        if isinstance(f, ast.Attribute) and isinstance(f.value, ast.Name) and node.args and isinstance(node.args[0], ast.Call) \
                and isinstance(node.args[0].func, ast.Attribute) and isinstance(node.args[0].func.value, ast.Name) \
                and node.args[0].func.value.id == f.value.id and node.args[0].func.attr in ("now", "today", "utcnow", "fromtimestamp", "fromisoformat") \
                and not f.attr.startswith("__"):
            self._note("Cls.m(Cls.make(..), ..) -> Cls.make(..).m(..)", node)
            return _at(ast.Call(func=ast.Attribute(value=node.args[0], attr=f.attr, ctx=ast.Load()), args=list(node.args[1:]), keywords=node.keywords), node)
        # re.compile(P).sub(..) -> re.sub(P, ..)
        if isinstance(f, ast.Attribute) and f.attr in ("sub", "subn", "match", "fullmatch", "search", "split", "findall", "finditer") \
                and isinstance(f.value, ast.Call) and ast.unparse(f.value.func) == "re.compile" and len(f.value.args) == 1 and not f.value.keywords \
                and not node.keywords:
            self._note("re.compile(P).m(..) -> re.m(P, ..)", node)
            return _at(ast.Call(func=ast.Attribute(value=f.value.func.value, attr=f.attr, ctx=ast.Load()), args=[f.value.args[0]] + list(node.args),
                                keywords=[]), node)
        # Cls.method(Cls(a), b) -> Cls(a).method(b)         (a plain method called through its class on a fresh instance)
        if isinstance(f, ast.Attribute) and isinstance(f.value, ast.Name) and f.value.id[:1].isupper() and node.args \
                and isinstance(node.args[0], ast.Call) and isinstance(node.args[0].func, ast.Name) and node.args[0].func.id == f.value.id \
                and not f.attr.startswith("__"):
            self._note("Cls.m(Cls(..), ..) -> Cls(..).m(..)", node)
            return _at(ast.Call(func=ast.Attribute(value=node.args[0], attr=f.attr, ctx=ast.Load()), args=list(node.args[1:]), keywords=node.keywords), node)
        # B.join(X.split(A)) -> X.replace(A, B)      (A a non-empty constant: split on an explicit separator, no limit)
        if isinstance(f, ast.Attribute) and f.attr == "join" and len(node.args) == 1 and not node.keywords and isinstance(node.args[0], ast.Call) \
                and isinstance(node.args[0].func, ast.Attribute) and node.args[0].func.attr == "split" and len(node.args[0].args) == 1 \
                and not node.args[0].keywords and isinstance(node.args[0].args[0], ast.Constant) and isinstance(node.args[0].args[0].value, str) \
                and node.args[0].args[0].value and isinstance(f.value, (ast.Constant, ast.Name)):
            self._note("sep.join(x.split(old)) -> x.replace(old, sep)", node)
            inner = node.args[0]
            return _at(ast.Call(func=ast.Attribute(value=inner.func.value, attr="replace", ctx=ast.Load()),
                                args=[inner.args[0], f.value], keywords=[]), node)
        # map(partial(F, a, k=v), xs) -> (F(a, x, k=v) for x in xs)
        if isinstance(f, ast.Name) and f.id == "map" and len(node.args) == 2 and not node.keywords and isinstance(node.args[0], ast.Call) \
                and isinstance(node.args[0].func, (ast.Name, ast.Attribute)) \
                and (node.args[0].func.id if isinstance(node.args[0].func, ast.Name) else node.args[0].func.attr) == "partial" \
                and node.args[0].args and not any(isinstance(a, ast.Starred) for a in node.args[0].args) \
                and all(k.arg for k in node.args[0].keywords):
            pa = node.args[0]
            self._note("map(partial(F, ..), xs) -> generator expression", node)
            call = ast.Call(func=pa.args[0], args=list(pa.args[1:]) + [ast.Name(id="_x", ctx=ast.Load())], keywords=list(pa.keywords))
            return _at(ast.GeneratorExp(elt=call, generators=[ast.comprehension(target=ast.Name(id="_x", ctx=ast.Store()), iter=node.args[1],
                                                                                 ifs=[], is_async=0)]), node)
        # ''.join((a, b, c)) -> a + b + c
        if isinstance(f, ast.Attribute) and f.attr == "join" and isinstance(f.value, ast.Constant) and f.value.value == "" and len(node.args) == 1 \
                and not node.keywords and isinstance(node.args[0], (ast.Tuple, ast.List)) and len(node.args[0].elts) >= 2 \
                and not any(isinstance(e, ast.Starred) for e in node.args[0].elts):
            self._note("''.join of a display -> concatenation", node)
            acc = node.args[0].elts[0]
            for e in node.args[0].elts[1:]:
                acc = _at(ast.BinOp(left=acc, op=ast.Add(), right=e), node)
            return acc
        if isinstance(f, ast.Name) and f.id == "super" and len(node.args) == 2 and not node.keywords and self._class_stack and self._self_stack \
                and isinstance(node.args[0], ast.Name) and node.args[0].id == self._class_stack[-1] \
                and isinstance(node.args[1], ast.Name) and node.args[1].id == self._self_stack[-1]:
            self._note("super(Cls, self) -> super()", node)
            return _at(ast.Call(func=f, args=[], keywords=[]), node)
        if isinstance(f, ast.Name) and not any(isinstance(a, ast.Starred) for a in node.args):
            if f.id == "getattr" and len(node.args) == 2 and not node.keywords and isinstance(node.args[1], ast.Constant) \
                    and isinstance(node.args[1].value, str) and _IDENT.match(node.args[1].value):
                self._note("getattr(o, 'name') -> o.name", node)
                return _at(ast.Attribute(value=node.args[0], attr=node.args[1].value, ctx=ast.Load()), node)
            if f.id == "dict" and len(node.args) == 1 and not node.keywords and isinstance(node.args[0], (ast.List, ast.Tuple)) \
                    and node.args[0].elts and all(isinstance(e, ast.Tuple) and len(e.elts) == 2 for e in node.args[0].elts):
                self._note("dict of pairs -> display", node)
                return _at(ast.Dict(keys=[e.elts[0] for e in node.args[0].elts], values=[e.elts[1] for e in node.args[0].elts]), node)
            if f.id == "list" and len(node.args) == 1 and not node.keywords and isinstance(node.args[0], ast.Call) \
                    and isinstance(node.args[0].func, ast.Name) and not node.args[0].keywords:
                inner = node.args[0]
                if inner.func.id == "map" and len(inner.args) == 2 and _simple_operand(inner.args[0]) and not isinstance(inner.args[0], ast.Constant):
                    var = "_x"
                    self._note("list(map(f, xs)) -> comprehension", node)
                    call = ast.Call(func=inner.args[0], args=[ast.Name(id=var, ctx=ast.Load())], keywords=[])
                    return _at(ast.ListComp(elt=call, generators=[ast.comprehension(target=ast.Name(id=var, ctx=ast.Store()), iter=inner.args[1],
                                                                                     ifs=[], is_async=0)]), node)
                if inner.func.id == "map" and len(inner.args) == 2 and isinstance(inner.args[0], ast.Lambda) \
                        and len(inner.args[0].args.args) == 1 and not inner.args[0].args.defaults and not inner.args[0].args.vararg \
                        and not inner.args[0].args.kwonlyargs and not inner.args[0].args.kwarg:
                    lam = inner.args[0]
                    self._note("list(map(lambda x: E, xs)) -> comprehension", node)
                    return _at(ast.ListComp(elt=lam.body, generators=[ast.comprehension(target=ast.Name(id=lam.args.args[0].arg, ctx=ast.Store()),
                                                                                      iter=inner.args[1], ifs=[], is_async=0)]), node)
                if inner.func.id == "filter" and len(inner.args) == 2 and isinstance(inner.args[0], ast.Lambda) \
                        and len(inner.args[0].args.args) == 1 and not inner.args[0].args.defaults:
                    lam = inner.args[0]
                    var = lam.args.args[0].arg
                    self._note("list(filter(lambda ..)) -> comprehension", node)
                    return _at(ast.ListComp(elt=ast.Name(id=var, ctx=ast.Load()),
                                            generators=[ast.comprehension(target=ast.Name(id=var, ctx=ast.Store()), iter=inner.args[1],
                                                                          ifs=[lam.body], is_async=0)]), node)
        return node

    def _iter_keys(self, it: ast.AST) -> ast.AST:
        if isinstance(it, ast.Call) and isinstance(it.func, ast.Attribute) and it.func.attr == "keys" and not it.args and not it.keywords:
            self._note("iteration over d.keys() -> d", it)
            return it.func.value
        return it

    def visit_For(self, node: ast.For):
        self.generic_visit(node)
        node.iter = self._iter_keys(node.iter)
        it = node.iter
        # for ...: B else: E   without a break in B  ->  for ...: B / E
        if node.orelse and not self._has_own_break(node.body):
            self._note("else of a loop without break -> statements after the loop", node)
            tail, node.orelse = node.orelse, []
            res = self.visit_For(node)
            return (res if isinstance(res, list) else [res]) + tail
        # for x in filter(F, XS): B  ->  for x in XS: if F(x): B         (filter is lazy: the test of an item runs right before its body)
        if isinstance(it, ast.Call) and isinstance(it.func, ast.Name) and it.func.id == "filter" and len(it.args) == 2 and not it.keywords \
                and isinstance(node.target, ast.Name) and not node.orelse:
            F, XS = it.args
            x = node.target.id
            cond = None
            if isinstance(F, ast.Constant) and F.value is None:
                cond = ast.Name(id=x, ctx=ast.Load())
            elif isinstance(F, ast.Lambda) and len(F.args.args) == 1 and not F.args.defaults and not F.args.vararg and not F.args.kwarg and not F.args.kwonlyargs:
                v = F.args.args[0].arg

                class _Ren(ast.NodeTransformer):
                    def visit_Name(self_, n):
                        return _at(ast.Name(id=x, ctx=n.ctx), n) if n.id == v else n
                cond = _Ren().visit(F.body) if v != x else F.body
            elif isinstance(F, ast.Attribute) and F.attr == "__contains__":
                cond = ast.Compare(left=ast.Name(id=x, ctx=ast.Load()), ops=[ast.In()], comparators=[F.value])
            elif isinstance(F, (ast.Name, ast.Attribute)):
                cond = ast.Call(func=F, args=[ast.Name(id=x, ctx=ast.Load())], keywords=[])
            if cond is not None:
                self._note("for over filter(F, xs) -> for over xs with a guard", node)
                node.iter = XS
                node.body = [_at(ast.If(test=self._truth(_at(cond, node)), body=node.body, orelse=[]), node)]
        # for x in (y for y in XS if C): B  ->  for x in XS: if C[x]: B
        elif isinstance(it, ast.GeneratorExp) and len(it.generators) == 1 and isinstance(it.generators[0].target, ast.Name) \
                and isinstance(it.elt, ast.Name) and it.elt.id == it.generators[0].target.id and isinstance(node.target, ast.Name) and not node.orelse \
                and it.generators[0].ifs:
            v, x = it.elt.id, node.target.id

            class _Ren2(ast.NodeTransformer):
                def visit_Name(self_, n):
                    return _at(ast.Name(id=x, ctx=n.ctx), n) if n.id == v else n
            conds = [(_Ren2().visit(c) if v != x else c) for c in it.generators[0].ifs]
            self._note("for over a filtering generator expression -> for with a guard", node)
            test = conds[0] if len(conds) == 1 else ast.BoolOp(op=ast.And(), values=conds)
            node.iter = it.generators[0].iter
            node.body = [_at(ast.If(test=self._truth(_at(test, node)), body=node.body, orelse=[]), node)]
        return node

    def visit_comprehension(self, node: ast.comprehension):
        self.generic_visit(node)
        node.iter = self._iter_keys(node.iter)
        node.ifs = [self._truth(c) for c in node.ifs]
        return node

    def _index_loop(self, comp):
        """[f(X[i]) for i in range(len(X))] -> [f(_x) for _x in X]   (one generator, i read only as X[i], X a name)"""
        if len(comp.generators) != 1:
            return comp
        g = comp.generators[0]
        it = g.iter
        if not (isinstance(g.target, ast.Name) and isinstance(it, ast.Call) and isinstance(it.func, ast.Name) and it.func.id == "range"
                and len(it.args) == 1 and isinstance(it.args[0], ast.Call) and isinstance(it.args[0].func, ast.Name) and it.args[0].func.id == "len"
                and len(it.args[0].args) == 1 and isinstance(it.args[0].args[0], ast.Name)):
            return comp
        i, xs = g.target.id, it.args[0].args[0].id
        parts = ([comp.elt] if hasattr(comp, "elt") else [comp.key, comp.value]) + list(g.ifs)
        uses = [n for p_ in parts for n in ast.walk(p_) if isinstance(n, ast.Name) and n.id == i]
        subs = [n for p_ in parts for n in ast.walk(p_) if isinstance(n, ast.Subscript) and isinstance(n.value, ast.Name) and n.value.id == xs
                and isinstance(n.slice, ast.Name) and n.slice.id == i and isinstance(n.ctx, ast.Load)]
        if not uses or len(uses) != len(subs):
            return comp
        self._note("comprehension over range(len(X)) -> over X", comp)

        class _Sub(ast.NodeTransformer):
            def visit_Subscript(self_, n):
                if n in subs:
                    return _at(ast.Name(id="_x", ctx=ast.Load()), n)
                return self_.generic_visit(n)
        for attr in ("elt", "key", "value"):
            if hasattr(comp, attr):
                setattr(comp, attr, _Sub().visit(getattr(comp, attr)))
        g.ifs = [_Sub().visit(c) for c in g.ifs]
        g.target = _at(ast.Name(id="_x", ctx=ast.Store()), g.target)
        g.iter = it.args[0].args[0]
        return comp

    def visit_ListComp(self, node):
        self.generic_visit(node)
        return self._index_loop(node)

    def visit_GeneratorExp(self, node):
        self.generic_visit(node)
        return self._index_loop(node)

    def visit_SetComp(self, node):
        self.generic_visit(node)
        return self._index_loop(node)

    # -- statements ----------------------------------------------------------------------------------------------------------
    def visit_Assign(self, node: ast.Assign):
        self.generic_visit(node)
        # xs[len(xs):] = [a] -> xs.append(a);  xs[len(xs):] = ys -> xs.extend(ys);  xs[:0] = [a] -> xs.insert(0, a)
        def _recv_ok(r):
            return _simple_operand(r) or (isinstance(r, ast.Subscript) and _simple_operand(r.value) and isinstance(r.slice, (ast.Constant, ast.Name)))
        if len(node.targets) == 1 and isinstance(node.targets[0], ast.Subscript) and isinstance(node.targets[0].slice, ast.Slice) \
                and _recv_ok(node.targets[0].value) and node.targets[0].slice.step is None:
            sl, recv = node.targets[0].slice, node.targets[0].value
            rl = ast.Name(id=recv.id, ctx=ast.Load()) if isinstance(recv, ast.Name) else recv
            at_end = sl.upper is None and isinstance(sl.lower, ast.Call) and isinstance(sl.lower.func, ast.Name) and sl.lower.func.id == "len" \
                and len(sl.lower.args) == 1 and ast.dump(sl.lower.args[0]) == ast.dump(recv).replace("Store()", "Load()")
            at_start = sl.lower is None and isinstance(sl.upper, ast.Constant) and sl.upper.value == 0
            one = isinstance(node.value, ast.List) and len(node.value.elts) == 1 and not isinstance(node.value.elts[0], ast.Starred)
            call = None
            if at_end and one:
                call = ast.Call(func=ast.Attribute(value=rl, attr="append", ctx=ast.Load()), args=[node.value.elts[0]], keywords=[])
            elif at_end:
                call = ast.Call(func=ast.Attribute(value=rl, attr="extend", ctx=ast.Load()), args=[node.value], keywords=[])
            elif at_start and one:
                call = ast.Call(func=ast.Attribute(value=rl, attr="insert", ctx=ast.Load()), args=[ast.Constant(value=0), node.value.elts[0]], keywords=[])
            if call is not None:
                self._note("slice assignment at an end of a list -> append / extend / insert", node)
                return _at(ast.Expr(value=call), node)
        if len(node.targets) == 1 and isinstance(node.targets[0], ast.Name):
            x = node.targets[0].id
            v = node.value
            # x = A if c else x  ->  if c: x = A          x = x if c else A  ->  if not c: x = A
            if isinstance(v, ast.IfExp) and (isinstance(v.orelse, ast.Name) and v.orelse.id == x) != (isinstance(v.body, ast.Name) and v.body.id == x):
                keep_else = isinstance(v.orelse, ast.Name) and v.orelse.id == x
                test = v.test if keep_else else self._truth(_at(ast.UnaryOp(op=ast.Not(), operand=v.test), v.test))
                self._note("x = A if c else x -> if c: x = A", node)
                inner = self.visit_Assign(_at(ast.Assign(targets=[ast.Name(id=x, ctx=ast.Store())], value=v.body if keep_else else v.orelse), node))
                return _at(ast.If(test=test, body=inner if isinstance(inner, list) else [inner], orelse=[]), node)
            # x = {} if c else {k: v}  ->  x = {} / if not c: x[k] = v        (and with the arms the other way round)
            if isinstance(v, ast.IfExp) and isinstance(v.body, ast.Dict) and isinstance(v.orelse, ast.Dict) \
                    and (not v.body.keys) != (not v.orelse.keys) and all(k is not None for k in v.body.keys + v.orelse.keys):
                full, when_full = (v.orelse, False) if not v.body.keys else (v.body, True)
                test = v.test if when_full else self._truth(_at(ast.UnaryOp(op=ast.Not(), operand=v.test), v.test))
                self._note("x = {} if c else {k: v} -> x = {} / guarded stores", node)
                stores = [_at(ast.Assign(targets=[ast.Subscript(value=ast.Name(id=x, ctx=ast.Load()), slice=k, ctx=ast.Store())], value=val), node)
                          for k, val in zip(full.keys, full.values)]
                return [_at(ast.Assign(targets=[ast.Name(id=x, ctx=ast.Store())], value=_at(ast.Dict(keys=[], values=[]), node)), node),
                        _at(ast.If(test=test, body=stores, orelse=[]), node)]
            # x = x + 'text'  ->  x += 'text'             (the right operand is text, so x is a str: no aliasing to observe)
            if isinstance(v, ast.BinOp) and isinstance(v.op, ast.Add) and isinstance(v.left, ast.Name) and v.left.id == x and (
                    isinstance(v.right, ast.JoinedStr) or (isinstance(v.right, ast.Constant) and isinstance(v.right.value, str))):
                self._note("x = x + 'text' -> x += 'text'", node)
                return _at(ast.AugAssign(target=ast.Name(id=x, ctx=ast.Store()), op=ast.Add(), value=v.right), node)
        # x = x and f(x)  ->  x = f(x) if x else x       (the value of `a and b` is a when a is false)
        v = node.value
        if isinstance(v, ast.BoolOp) and isinstance(v.op, ast.And) and len(v.values) == 2 and isinstance(v.values[0], ast.Name) \
                and any(isinstance(x, ast.Name) and x.id == v.values[0].id for x in ast.walk(v.values[1])):
            self._note("x and f(x) as a value -> conditional expression", node)
            node.value = _at(ast.IfExp(test=v.values[0], body=v.values[1], orelse=ast.Name(id=v.values[0].id, ctx=ast.Load())), v)
        # a, b = x, y  ->  a = x; b = y   when the values are plain reads that no earlier target of the statement can change
        if len(node.targets) == 1 and isinstance(node.targets[0], ast.Tuple) and isinstance(node.value, ast.Tuple) \
                and len(node.targets[0].elts) == len(node.value.elts) >= 2 \
                and not any(isinstance(e, ast.Starred) for e in node.targets[0].elts + node.value.elts) \
                and all(_simple_operand(v) for v in node.value.elts) and all(_simple_operand(t) and not isinstance(t, ast.Constant) for t in node.targets[0].elts):
            tg = [ast.unparse(t) for t in node.targets[0].elts]
            vs = [ast.unparse(v) for v in node.value.elts]
            independent = all(not (vs[j] == tg[i] or vs[j].startswith(tg[i] + ".") or tg[i].startswith(vs[j] + "."))
                              for i in range(len(tg)) for j in range(i + 1, len(vs)))
            if independent:
                self._note("parallel assignment of independent reads -> sequence", node)
                return [_at(ast.Assign(targets=[t], value=v), node) for t, v in zip(node.targets[0].elts, node.value.elts)]
        return node

    def visit_Expr(self, node: ast.Expr):
        self.generic_visit(node)
        v = node.value
        if isinstance(v, ast.Call) and isinstance(v.func, ast.Attribute):
            recv = v.func.value
            one_pair = (len(v.args) == 1 and not v.keywords and isinstance(v.args[0], ast.Dict) and len(v.args[0].keys) == 1) or \
                (not v.args and len(v.keywords) == 1)
            simple_sub = isinstance(recv, ast.Subscript) and _simple_operand(recv.value) and not isinstance(recv.value, ast.Constant) \
                and _simple_operand(recv.slice) and one_pair            # X[k].update({a: b}) -> X[k][a] = b   (X[k] is read once either way)
            if v.func.attr == "update" and ((_simple_operand(recv) and not isinstance(recv, ast.Constant)) or simple_sub):
                pairs = None
                if len(v.args) == 1 and not v.keywords and isinstance(v.args[0], ast.Dict) and v.args[0].keys and all(k is not None for k in v.args[0].keys):
                    pairs = list(zip(v.args[0].keys, v.args[0].values))
                elif not v.args and v.keywords and all(k.arg for k in v.keywords):
                    pairs = [(ast.Constant(value=k.arg), k.value) for k in v.keywords]
                if pairs:
                    self._note("d.update({k: v}) -> d[k] = v", node)
                    return [_at(ast.Assign(targets=[ast.Subscript(value=recv, slice=k, ctx=ast.Store())], value=val), node) for k, val in pairs]
            if v.func.attr == "extend" and len(v.args) == 1 and not v.keywords and isinstance(v.args[0], ast.List) and len(v.args[0].elts) == 1 \
                    and not isinstance(v.args[0].elts[0], ast.Starred):
                self._note("xs.extend([a]) -> xs.append(a)", node)
                return _at(ast.Expr(value=ast.Call(func=ast.Attribute(value=recv, attr="append", ctx=ast.Load()), args=[v.args[0].elts[0]],
                                                   keywords=[])), node)
        if isinstance(v, ast.Call) and isinstance(v.func, ast.Name) and v.func.id == "setattr" and len(v.args) == 3 and not v.keywords \
                and isinstance(v.args[1], ast.Constant) and isinstance(v.args[1].value, str) and _IDENT.match(v.args[1].value):
            self._note("setattr(o, 'name', v) -> o.name = v", node)
            return _at(ast.Assign(targets=[ast.Attribute(value=v.args[0], attr=v.args[1].value, ctx=ast.Store())], value=v.args[2]), node)
        return node

    def visit_ClassDef(self, node: ast.ClassDef):
        self._class_stack.append(node.name)
        self._self_stack.append(None)
        self.generic_visit(node)
        self._class_stack.pop()
        self._self_stack.pop()
        return node

    def visit_Starred(self, node: ast.Starred):
        self.generic_visit(node)
        # *(x,) / *(a if c else (x,)): what is unpacked may as well be a list display
        def lists(e):
            if isinstance(e, ast.Tuple) and isinstance(e.ctx, ast.Load):
                self._note("tuple display under * -> list display", e)
                return _at(ast.List(elts=e.elts, ctx=ast.Load()), e)
            if isinstance(e, ast.IfExp):
                e.body, e.orelse = lists(e.body), lists(e.orelse)
            return e
        if isinstance(node.ctx, ast.Load):
            node.value = lists(node.value)
        return node

    def visit_FunctionDef(self, node: ast.FunctionDef):
        # the name the instance goes by (for super(Cls, self)): the first parameter of a function defined directly in a class
        direct = bool(self._class_stack) and self._self_stack and self._self_stack[-1] is None
        a0 = (node.args.posonlyargs + node.args.args)[:1]
        self._self_stack.append(a0[0].arg if direct and a0 else "")      # not in nested functions: zero-argument super() needs the method's frame
        try:
            return self._visit_function(node)
        finally:
            self._self_stack.pop()

    def _visit_function(self, node):
        # tables of lists (`X = defaultdict(list)` in this function): `X[k] += seq` is `X[k].extend(seq)`
        outer = self._list_tables
        self._list_tables = outer | {t.id for st in ast.walk(node) if isinstance(st, (ast.Assign, ast.AnnAssign)) and st.value is not None
                                     and isinstance(st.value, ast.Call) and isinstance(st.value.func, (ast.Name, ast.Attribute))
                                     and (st.value.func.id if isinstance(st.value.func, ast.Name) else st.value.func.attr) == "defaultdict"
                                     and len(st.value.args) == 1 and isinstance(st.value.args[0], ast.Name) and st.value.args[0].id == "list"
                                     for t in (st.targets if isinstance(st, ast.Assign) else [st.target]) if isinstance(t, ast.Name)}
        self.generic_visit(node)
        self._list_tables = outer
        self._propagate_aliases(node)
        self._inline_class_tuples(node)
        self._fuse_copy_sort(node)
        return node

    visit_AsyncFunctionDef = visit_FunctionDef

    def _fuse_copy_sort(self, fn: ast.AST):
        """x = list(E) / x.sort(key=K)  ->  x = sorted(E, key=K)      (two adjacent statements)"""
        for holder in ast.walk(fn):
            for fld in ("body", "orelse", "finalbody"):
                blk = getattr(holder, fld, None)
                if not isinstance(blk, list):
                    continue
                i = 0
                while i + 1 < len(blk):
                    a, b = blk[i], blk[i + 1]
                    if isinstance(a, ast.Assign) and len(a.targets) == 1 and isinstance(a.targets[0], ast.Name) and isinstance(a.value, ast.Call) \
                            and isinstance(a.value.func, ast.Name) and a.value.func.id == "list" and len(a.value.args) == 1 and not a.value.keywords \
                            and isinstance(b, ast.Expr) and isinstance(b.value, ast.Call) and isinstance(b.value.func, ast.Attribute) \
                            and b.value.func.attr == "sort" and isinstance(b.value.func.value, ast.Name) and b.value.func.value.id == a.targets[0].id \
                            and not b.value.args and all(k.arg in ("key", "reverse") for k in b.value.keywords):
                        self._note("list copy followed by in-place sort -> sorted()", a)
                        a.value = _at(ast.Call(func=ast.Name(id="sorted", ctx=ast.Load()), args=[a.value.args[0]], keywords=b.value.keywords), a.value)
                        del blk[i + 1]
                    # X = {..display..} / X.update(N)  ->  X = {.., **N}
                    if isinstance(a, ast.Assign) and len(a.targets) == 1 and isinstance(a.targets[0], ast.Name) and isinstance(a.value, ast.Dict) \
                            and i + 1 < len(blk) and isinstance(blk[i + 1], ast.Expr) and isinstance(blk[i + 1].value, ast.Call) \
                            and isinstance(blk[i + 1].value.func, ast.Attribute) and blk[i + 1].value.func.attr == "update" \
                            and isinstance(blk[i + 1].value.func.value, ast.Name) and blk[i + 1].value.func.value.id == a.targets[0].id \
                            and len(blk[i + 1].value.args) == 1 and not blk[i + 1].value.keywords and isinstance(blk[i + 1].value.args[0], ast.Name):
                        self._note("dict display followed by update(N) -> display with **N", a)
                        a.value.keys.append(None)
                        a.value.values.append(blk[i + 1].value.args[0])
                        del blk[i + 1]
                    i += 1

    def _inline_class_tuples(self, fn: ast.AST):
        """`errors = (ValueError, OverflowError)` bound once and read only as the class of an except clause or of isinstance /
        issubclass: the display is put back where it is used."""
        nested = {id(x) for n in ast.walk(fn) if n is not fn and isinstance(n, (ast.FunctionDef, ast.AsyncFunctionDef, ast.Lambda, ast.ClassDef))
                  for x in ast.walk(n)}
        own = [n for n in ast.walk(fn) if id(n) not in nested]
        for st in own:
            if not (isinstance(st, ast.Assign) and len(st.targets) == 1 and isinstance(st.targets[0], ast.Name) and isinstance(st.value, ast.Tuple)
                    and st.value.elts and all(isinstance(e, ast.Name) and e.id[:1].isupper() or isinstance(e, ast.Name) and e.id in ("list", "dict", "str", "int", "float", "tuple", "set")
                                              for e in st.value.elts)):
                continue
            x = st.targets[0].id
            if sum(1 for n in ast.walk(fn) if isinstance(n, ast.Name) and n.id == x and isinstance(n.ctx, ast.Store)) != 1:
                continue
            uses = [n for n in ast.walk(fn) if isinstance(n, ast.Name) and n.id == x and isinstance(n.ctx, ast.Load)]
            holders = []
            for n in ast.walk(fn):
                if isinstance(n, ast.ExceptHandler) and n.type in uses:
                    holders.append((n, "type"))
                if isinstance(n, ast.Call) and isinstance(n.func, ast.Name) and n.func.id in ("isinstance", "issubclass") and len(n.args) == 2 and n.args[1] in uses:
                    holders.append((n, "arg"))
            if not uses or len(holders) != len(uses):
                continue
            self._note(f"tuple of classes `{x}` put back where it is used", st)
            for h, kind in holders:
                new = _at(ast.Tuple(elts=[ast.Name(id=e.id, ctx=ast.Load()) for e in st.value.elts], ctx=ast.Load()), h)
                if kind == "type":
                    h.type = new
                else:
                    h.args[1] = new
            for holder in ast.walk(fn):
                for fld in ("body", "orelse", "finalbody"):
                    blk = getattr(holder, fld, None)
                    if isinstance(blk, list) and any(b is st for b in blk):
                        i = next(k for k, b in enumerate(blk) if b is st)
                        if len(blk) == 1:
                            blk[i] = _at(ast.Pass(), st)
                        else:
                            del blk[i]

    # -- read-only aliases of attribute chains ---------------------------------------------------------------------------------
    def _propagate_aliases(self, fn: ast.AST):
        """`t = self.a.b` bound once, where nothing in the function can rebind `self.a` / `self.a.b` afterwards: every read of `t`
        is a read of `self.a.b` (the same object), and the binding goes away."""
        nested = [n for n in ast.walk(fn) if n is not fn and isinstance(n, (ast.FunctionDef, ast.AsyncFunctionDef, ast.Lambda, ast.ClassDef))]
        in_nested = {id(x) for n in nested for x in ast.walk(n)}
        own = [n for n in ast.walk(fn) if id(n) not in in_nested or n in nested]
        a = fn.args
        params = {x.arg for x in a.posonlyargs + a.args + a.kwonlyargs} | ({a.vararg.arg} if a.vararg else set()) | ({a.kwarg.arg} if a.kwarg else set())
        stores: dict = {}
        for n in own:
            if isinstance(n, ast.Name) and isinstance(n.ctx, (ast.Store, ast.Del)):
                stores[n.id] = stores.get(n.id, 0) + 1
            if isinstance(n, (ast.Global, ast.Nonlocal)):
                for nm in n.names:
                    stores[nm] = 99
        nested_names = {x.id for n in nested for x in ast.walk(n) if isinstance(x, ast.Name)}
        attr_stores = {ast.unparse(n) for n in own if isinstance(n, ast.Attribute) and isinstance(n.ctx, (ast.Store, ast.Del))}
        for st in list(own):
            if not (isinstance(st, ast.Assign) and len(st.targets) == 1 and isinstance(st.targets[0], ast.Name) and isinstance(st.value, ast.Attribute)):
                continue
            x = st.targets[0].id
            root = st.value
            while isinstance(root, ast.Attribute):
                root = root.value
            if not isinstance(root, ast.Name) or x in params or stores.get(x) != 1 or x in nested_names:
                continue
            r = root.id
            if not (r == "self" or r in params) or stores.get(r, 0) or r == x:
                continue
            chain = ast.unparse(st.value)
            if any(chain == s_ or chain.startswith(s_ + ".") for s_ in attr_stores):
                continue
            if set(chain.split(".")[1:]) & set(getattr(self, "properties", ())):
                continue                    # computed on access (a property somewhere in the package has this name)
            # a call on the root itself (r.method(..)) or one that receives it could rebind the attribute
            risky = False
            for n in own:
                if isinstance(n, ast.Call) and (getattr(n, "lineno", 0), getattr(n, "col_offset", 0)) > (st.lineno, st.col_offset):
                    f_ = n.func
                    if isinstance(f_, ast.Attribute) and isinstance(f_.value, ast.Name) and f_.value.id == r:
                        risky = True
                    if any(isinstance(a_, ast.Name) and a_.id == r for a_ in list(n.args) + [k.value for k in n.keywords]):
                        risky = True
            if risky:
                continue
            uses = [n for n in own if isinstance(n, ast.Name) and n.id == x and isinstance(n.ctx, ast.Load)]
            if not uses:
                continue
            self._note(f"read-only alias `{x}` of `{chain}` resolved", st)

            class _Sub(ast.NodeTransformer):
                def visit_Name(self_, n):
                    if n.id == x and isinstance(n.ctx, ast.Load) and id(n) not in in_nested:
                        return _at(ast.parse(chain, mode="eval").body, n)
                    return n
            _Sub().visit(fn)
            # drop the binding
            for holder in ast.walk(fn):
                for fld in ("body", "orelse", "finalbody"):
                    blk = getattr(holder, fld, None)
                    if isinstance(blk, list) and any(b is st for b in blk):
                        i = next(k for k, b in enumerate(blk) if b is st)
                        if len(blk) == 1:
                            blk[i] = _at(ast.Pass(), st)
                        else:
                            del blk[i]

    def visit_AugAssign(self, node: ast.AugAssign):
        self.generic_visit(node)
        if isinstance(node.op, ast.Add) and isinstance(node.target, ast.Subscript) and isinstance(node.target.value, ast.Name) \
                and node.target.value.id in self._list_tables:
            self._note("X[k] += seq on a defaultdict(list) -> X[k].extend(seq)", node)
            recv = ast.Subscript(value=node.target.value, slice=node.target.slice, ctx=ast.Load())
            return _at(ast.Expr(value=ast.Call(func=ast.Attribute(value=recv, attr="extend", ctx=ast.Load()), args=[node.value], keywords=[])), node)
        if isinstance(node.op, ast.Add) and isinstance(node.value, ast.ListComp) and isinstance(node.target, (ast.Name, ast.Attribute)):
            recv = ast.Name(id=node.target.id, ctx=ast.Load()) if isinstance(node.target, ast.Name) else \
                ast.Attribute(value=node.target.value, attr=node.target.attr, ctx=ast.Load())
            self._note("xs += [comprehension] -> extend", node)
            return _at(ast.Expr(value=ast.Call(func=ast.Attribute(value=recv, attr="extend", ctx=ast.Load()), args=[node.value], keywords=[])), node)
        if isinstance(node.op, ast.Add) and isinstance(node.value, ast.List) and isinstance(node.target, (ast.Name, ast.Attribute)) \
                and not any(isinstance(e, ast.Starred) for e in node.value.elts) and node.value.elts:
            recv = ast.Name(id=node.target.id, ctx=ast.Load()) if isinstance(node.target, ast.Name) else \
                ast.Attribute(value=node.target.value, attr=node.target.attr, ctx=ast.Load())
            self._note("xs += [..] -> extend / append", node)
            if len(node.value.elts) == 1:
                call = ast.Call(func=ast.Attribute(value=recv, attr="append", ctx=ast.Load()), args=[node.value.elts[0]], keywords=[])
            else:
                call = ast.Call(func=ast.Attribute(value=recv, attr="extend", ctx=ast.Load()), args=[node.value], keywords=[])
            return _at(ast.Expr(value=call), node)
        return node


def property_names(trees) -> frozenset:
    """Names defined as properties (or other descriptors computed on access) anywhere in the given modules: an attribute chain
    through one of them is not a plain read, and no alias of it is resolved."""
    out = set()
    for t in trees:
        for n in ast.walk(t):
            if isinstance(n, (ast.FunctionDef, ast.AsyncFunctionDef)) and any(
                    "property" in ast.unparse(d) or ast.unparse(d).endswith((".setter", ".getter")) for d in n.decorator_list):
                out.add(n.name)
            if isinstance(n, ast.Assign) and isinstance(n.value, ast.Call) and ast.unparse(n.value.func).split(".")[-1] == "property":
                out |= {t_.id for t_ in n.targets if isinstance(t_, ast.Name)}
    return frozenset(out)


def canonicalise(tree: ast.Module, properties: frozenset = frozenset()) -> List[str]:
    """Rewrite `tree` in place; returns the list of rewritings applied (line: what)."""
    c = Canon()
    c.properties = properties
    c.visit(tree)
    ast.fix_missing_locations(tree)
    return c.changes
