"""Normal form of rare spellings, applied to every module before it is indexed.

The rules of this analyser recognise constructs in the spelling the repository uses (a subscript store, an f-string, `all(...)`,
a membership test in a tuple).  A behaviour-preserving edit can respell such a construct (`d.update({k: v})`, `'{}'.format(x)`,
`not any(not ...)`, `a == p or a == q`) and a rule that matches syntax would then report a defect that is not there.  This pass
rewrites a fixed list of spellings into the one the rules know.  Every rewriting

  * preserves the meaning of the program for every value that can occur (each one is a textbook equivalence, listed below with
    its side condition), so the abstract evaluator (sa/absint.py) may run on the rewritten tree as well;
  * is the identity on the revision the rules were validated on except for the sites listed in baseline_shapes.json under
    "canon" (tools_baseline.py records them; two on the current revision: the De Morgan form of the loop condition of
    prepare_label and `for name in kwargs.keys()` in convert_args), so what was confirmed by hand on that revision is not
    re-interpreted;
  * keeps the positions of the original nodes (reports still point to the line the construct stands on).

Rewritings (E = expression, S = statement):
  E  not not a -> a (in a boolean context only);  not (a or b) -> not a and not b;  not (a and b) -> not a or not b;
     not (x OP y) -> x COMPLEMENT(OP) y  for  == != is 'is not' in 'not in' < <= > >=   (single operator)
  E  b if not c else a -> a if c else b;  likewise for the tests  !=  is not  not in  <=  <   (their complement, arms swapped)
  E  x == p or x == q  /  p == x or q == x  ->  x in (p, q)           (the same operand text in every disjunct; evaluated once
                                                                        and eagerly: every operand must be a name or a
                                                                        constant, whose evaluation cannot fail or be observed)
  E  not any(not e for ..) -> all(e for ..);  not all(not e for ..) -> any(e for ..);
     not any(x OP y for ..) -> all(x COMPLEMENT(OP) y for ..) and dually
  E  'lit {} lit'.format(a, b)  ->  f'lit {a} lit'                      (auto-numbered or explicitly numbered plain fields only)
  E  'lit %s lit' % (a, b)       ->  f'lit {a!s} lit'                   (%s fields only, the operand is a tuple display)
  E  ''.join((a, b, c)) -> a + b + c                                    (empty separator, a display of at least two items)
  E  x = x and f(x)  ->  x = f(x) if x else x                           (as the value of an assignment, x a name)
  E  sep.join(x.split(old)) -> x.replace(old, sep)                      (old a non-empty constant, no split limit)
  E  map(partial(F, a, k=v), xs) -> (F(a, x, k=v) for x in xs)
  E  getattr(o, 'name') -> o.name                                       (two arguments, constant identifier without leading `__`)
  E  dict([(k, v), ...]) / dict(((k, v), ...)) -> {k: v, ...};  dict(a=1) -> {'a': 1}
  E  list(map(f, xs)) -> [f(x) for x in xs]   (f a name or attribute chain; one iterable)
     list(filter(lambda i: c, xs)) -> [i for i in xs if c]
  E  {*xs} -> set(xs);  (a,) + b  ->  (a, *b)                            (b must be a tuple for the original to succeed)
  E  d.keys() as the iterable of a for loop / comprehension -> d
  S  x = A if c else x -> if c: x = A;  x = x if c else A -> if not c: x = A
  S  x = x + 'text' -> x += 'text'                                       (the right operand is a str constant or f-string)
  S  a, b = x, y -> a = x; b = y                                         (names / attribute chains / constants; no later value is an
                                                                        earlier target, an attribute of one or an owner of one)
  S  d.update({k: v, ..}) / d.update(k=v) as a statement -> d[k] = v; ...   (display without ** entries)
  S  setattr(o, 'name', v) as a statement -> o.name = v                  (same side condition as getattr)
  S  X[k] += seq -> X[k].extend(seq)   where X = defaultdict(list) in the same function
  S  xs += [a, b] -> xs.extend([a, b]);  xs += [.. for ..] -> xs.extend([.. for ..]);  xs += [a] / xs.extend([a]) -> xs.append(a)    (as statements)
"""
from __future__ import annotations

import ast
import re
import string
from typing import List, Optional

_COMPLEMENT = {ast.Eq: ast.NotEq, ast.NotEq: ast.Eq, ast.Is: ast.IsNot, ast.IsNot: ast.Is, ast.In: ast.NotIn, ast.NotIn: ast.In,
               ast.Lt: ast.GtE, ast.GtE: ast.Lt, ast.Gt: ast.LtE, ast.LtE: ast.Gt}
_IDENT = re.compile(r"^(?!__)[A-Za-z_][A-Za-z0-9_]*$")


def _simple_operand(e: ast.AST) -> bool:
    while isinstance(e, ast.Attribute):
        e = e.value
    return isinstance(e, (ast.Name, ast.Constant))


def _at(new: ast.AST, old: ast.AST) -> ast.AST:
    ast.copy_location(new, old)
    for n in ast.walk(new):
        if not hasattr(n, "lineno") and isinstance(n, (ast.expr, ast.stmt)):
            ast.copy_location(n, old)
    return new


class Canon(ast.NodeTransformer):
    def __init__(self):
        self.changes: List[str] = []
        self._list_tables: frozenset = frozenset()

    def _note(self, what: str, node: ast.AST):
        self.changes.append(f"{getattr(node, 'lineno', 0)}: {what}")

    # -- expressions ---------------------------------------------------------------------------------------------------------
    # negation: exact rewritings anywhere (the result is a bool on both sides), De Morgan where only the truth value counts or every
    # leaf is a bool anyway
    _BOOL_CALLS = {"any", "all", "isinstance", "issubclass", "bool", "callable", "hasattr", "isclass"}
    _BOOL_METHODS = {"startswith", "endswith", "isdigit", "isidentifier", "isdisjoint", "issubset", "issuperset", "isalpha", "isalnum"}

    def _is_bool(self, e: ast.AST) -> bool:
        if isinstance(e, ast.Compare):
            return True
        if isinstance(e, ast.UnaryOp) and isinstance(e.op, ast.Not):
            return True
        if isinstance(e, ast.BoolOp):
            return all(self._is_bool(v) for v in e.values)
        if isinstance(e, ast.Constant):
            return isinstance(e.value, bool)
        if isinstance(e, ast.Call):
            if isinstance(e.func, ast.Name):
                return e.func.id in self._BOOL_CALLS
            if isinstance(e.func, ast.Attribute):
                return e.func.attr in self._BOOL_METHODS
        return False

    def _neg(self, e: ast.AST, truth_only: bool) -> Optional[ast.AST]:
        """Normal form of `not e`, or None when `not e` is already the normal form."""
        if isinstance(e, ast.UnaryOp) and isinstance(e.op, ast.Not):
            if truth_only or self._is_bool(e.operand):
                return e.operand
            return None
        if isinstance(e, ast.Compare) and len(e.ops) == 1:
            return _at(ast.Compare(left=e.left, ops=[_COMPLEMENT[type(e.ops[0])]()], comparators=e.comparators), e)
        if isinstance(e, ast.BoolOp) and (truth_only or self._is_bool(e)):
            op = ast.Or() if isinstance(e.op, ast.And) else ast.And()
            vals = []
            for v in e.values:
                n = self._neg(v, truth_only)
                vals.append(n if n is not None else _at(ast.UnaryOp(op=ast.Not(), operand=v), v))
            return _at(ast.BoolOp(op=op, values=vals), e)
        if isinstance(e, ast.Call) and isinstance(e.func, ast.Name) and e.func.id in ("any", "all") and len(e.args) == 1 \
                and not e.keywords and isinstance(e.args[0], ast.GeneratorExp):
            g = e.args[0]
            inner = None
            if isinstance(g.elt, ast.UnaryOp) and isinstance(g.elt.op, ast.Not):
                inner = g.elt.operand
            elif isinstance(g.elt, ast.Compare) and len(g.elt.ops) == 1:
                inner = _at(ast.Compare(left=g.elt.left, ops=[_COMPLEMENT[type(g.elt.ops[0])]()], comparators=g.elt.comparators), g.elt)
            if inner is not None:
                dual = "all" if e.func.id == "any" else "any"
                return _at(ast.Call(func=_at(ast.Name(id=dual, ctx=ast.Load()), e.func),
                                    args=[_at(ast.GeneratorExp(elt=inner, generators=g.generators), g)], keywords=[]), e)
        return None

    def visit_UnaryOp(self, node: ast.UnaryOp):
        self.generic_visit(node)
        if isinstance(node.op, ast.Not):
            n = self._neg(node.operand, False)
            if n is not None:
                self._note("negation resolved", node)
                return self.visit(_at(n, node)) if isinstance(n, (ast.BoolOp, ast.UnaryOp)) else _at(n, node)
        return node

    def _truth(self, e: ast.AST) -> ast.AST:
        """Normal form of an expression of which only the truth value is used."""
        if isinstance(e, ast.UnaryOp) and isinstance(e.op, ast.Not):
            n = self._neg(e.operand, True)
            if n is not None:
                self._note("negation resolved (truth context)", e)
                return self._truth(_at(n, e))
            return e
        if isinstance(e, ast.BoolOp):
            e.values = [self._truth(v) for v in e.values]
            return self.visit_BoolOp_only(e)
        return e

    def visit_If(self, node: ast.If):
        self.generic_visit(node)
        node.test = self._truth(node.test)
        return node

    def visit_While(self, node: ast.While):
        self.generic_visit(node)
        node.test = self._truth(node.test)
        return node

    _NEGATIVE_OPS = (ast.NotEq, ast.IsNot, ast.NotIn, ast.LtE, ast.Lt)

    def visit_IfExp(self, node: ast.IfExp):
        self.generic_visit(node)
        node.test = self._truth(node.test)
        # a negative test (not x, !=, is not, not in, <=, <) -> its positive complement with the arms swapped
        t = node.test
        if (isinstance(t, ast.UnaryOp) and isinstance(t.op, ast.Not)) or (
                isinstance(t, ast.Compare) and len(t.ops) == 1 and isinstance(t.ops[0], self._NEGATIVE_OPS)):
            pos = t.operand if isinstance(t, ast.UnaryOp) else _at(
                ast.Compare(left=t.left, ops=[_COMPLEMENT[type(t.ops[0])]()], comparators=t.comparators), t)
            self._note("conditional expression with a negative test flipped", node)
            node.test, node.body, node.orelse = pos, node.orelse, node.body
        return node

    def visit_Assert(self, node: ast.Assert):
        self.generic_visit(node)
        node.test = self._truth(node.test)
        return node

    def visit_BoolOp(self, node: ast.BoolOp):
        self.generic_visit(node)
        return self.visit_BoolOp_only(node)

    def visit_BoolOp_only(self, node: ast.BoolOp):
        if isinstance(node.op, ast.Or) and len(node.values) >= 2 and all(
                isinstance(v, ast.Compare) and len(v.ops) == 1 and isinstance(v.ops[0], ast.Eq) for v in node.values):
            for side in ("left", "right"):
                texts = {ast.dump(v.left if side == "left" else v.comparators[0]) for v in node.values}
                if len(texts) == 1:
                    common = node.values[0].left if side == "left" else node.values[0].comparators[0]
                    others = [(v.comparators[0] if side == "left" else v.left) for v in node.values]
                    if isinstance(common, (ast.Name, ast.Constant)) and all(isinstance(o, (ast.Name, ast.Constant)) for o in others):
                        self._note("chain of == joined by or -> membership in a tuple", node)
                        return _at(ast.Compare(left=common, ops=[ast.In()], comparators=[_at(ast.Tuple(elts=others, ctx=ast.Load()), node)]), node)
        return node

    def visit_BinOp(self, node: ast.BinOp):
        self.generic_visit(node)
        if isinstance(node.op, ast.Mod) and isinstance(node.left, ast.Constant) and isinstance(node.left.value, str):
            args = node.right.elts if isinstance(node.right, ast.Tuple) else None
            parts = re.split(r"(%s|%%)", node.left.value)
            if args is not None and "%" not in "".join(p for p in parts if p not in ("%s", "%%")) and parts.count("%s") == len(args) \
                    and not any(isinstance(a, ast.Starred) for a in args):
                vals: List[ast.AST] = []
                it = iter(args)
                for p in parts:
                    if p == "%s":
                        vals.append(ast.FormattedValue(value=next(it), conversion=115, format_spec=None))
                    elif p:
                        vals.append(ast.Constant(value="%" if p == "%%" else p))
                self._note("% formatting -> f-string", node)
                return _at(ast.JoinedStr(values=vals), node)
        if isinstance(node.op, ast.Add) and isinstance(node.left, ast.Tuple) and isinstance(node.left.ctx, ast.Load) \
                and isinstance(node.right, (ast.Name, ast.Attribute)):
            self._note("tuple + tuple -> display with *", node)
            return _at(ast.Tuple(elts=list(node.left.elts) + [_at(ast.Starred(value=node.right, ctx=ast.Load()), node.right)], ctx=ast.Load()), node)
        return node

    def visit_Set(self, node: ast.Set):
        self.generic_visit(node)
        if len(node.elts) == 1 and isinstance(node.elts[0], ast.Starred):
            self._note("{*xs} -> set(xs)", node)
            return _at(ast.Call(func=ast.Name(id="set", ctx=ast.Load()), args=[node.elts[0].value], keywords=[]), node)
        return node

    def visit_Call(self, node: ast.Call):
        self.generic_visit(node)
        f = node.func
        # 'lit {}'.format(a, b)
        if isinstance(f, ast.Attribute) and f.attr == "format" and isinstance(f.value, ast.Constant) and isinstance(f.value.value, str) \
                and not node.keywords and not any(isinstance(a, ast.Starred) for a in node.args):
            try:
                fields = list(string.Formatter().parse(f.value.value))
            except ValueError:
                fields = None
            if fields is not None:
                vals: List[ast.AST] = []
                auto = 0
                ok = True
                for lit, name, spec, conv in fields:
                    if lit:
                        vals.append(ast.Constant(value=lit))
                    if name is None:
                        continue
                    if spec or conv or not (name == "" or name.isdigit()):
                        ok = False
                        break
                    idx = auto if name == "" else int(name)
                    auto += name == ""
                    if idx >= len(node.args):
                        ok = False
                        break
                    vals.append(ast.FormattedValue(value=node.args[idx], conversion=-1, format_spec=None))
                if ok:
                    self._note("str.format -> f-string", node)
                    return _at(ast.JoinedStr(values=vals), node)
        # B.join(X.split(A)) -> X.replace(A, B)      (A a non-empty constant: split on an explicit separator, no limit)
        if isinstance(f, ast.Attribute) and f.attr == "join" and len(node.args) == 1 and not node.keywords and isinstance(node.args[0], ast.Call) \
                and isinstance(node.args[0].func, ast.Attribute) and node.args[0].func.attr == "split" and len(node.args[0].args) == 1 \
                and not node.args[0].keywords and isinstance(node.args[0].args[0], ast.Constant) and isinstance(node.args[0].args[0].value, str) \
                and node.args[0].args[0].value and isinstance(f.value, (ast.Constant, ast.Name)):
            self._note("sep.join(x.split(old)) -> x.replace(old, sep)", node)
            inner = node.args[0]
            return _at(ast.Call(func=ast.Attribute(value=inner.func.value, attr="replace", ctx=ast.Load()),
                                args=[inner.args[0], f.value], keywords=[]), node)
        # map(partial(F, a, k=v), xs) -> (F(a, x, k=v) for x in xs)
        if isinstance(f, ast.Name) and f.id == "map" and len(node.args) == 2 and not node.keywords and isinstance(node.args[0], ast.Call) \
                and isinstance(node.args[0].func, (ast.Name, ast.Attribute)) \
                and (node.args[0].func.id if isinstance(node.args[0].func, ast.Name) else node.args[0].func.attr) == "partial" \
                and node.args[0].args and not any(isinstance(a, ast.Starred) for a in node.args[0].args) \
                and all(k.arg for k in node.args[0].keywords):
            pa = node.args[0]
            self._note("map(partial(F, ..), xs) -> generator expression", node)
            call = ast.Call(func=pa.args[0], args=list(pa.args[1:]) + [ast.Name(id="_x", ctx=ast.Load())], keywords=list(pa.keywords))
            return _at(ast.GeneratorExp(elt=call, generators=[ast.comprehension(target=ast.Name(id="_x", ctx=ast.Store()), iter=node.args[1],
                                                                                 ifs=[], is_async=0)]), node)
        # ''.join((a, b, c)) -> a + b + c
        if isinstance(f, ast.Attribute) and f.attr == "join" and isinstance(f.value, ast.Constant) and f.value.value == "" and len(node.args) == 1 \
                and not node.keywords and isinstance(node.args[0], (ast.Tuple, ast.List)) and len(node.args[0].elts) >= 2 \
                and not any(isinstance(e, ast.Starred) for e in node.args[0].elts):
            self._note("''.join of a display -> concatenation", node)
            acc = node.args[0].elts[0]
            for e in node.args[0].elts[1:]:
                acc = _at(ast.BinOp(left=acc, op=ast.Add(), right=e), node)
            return acc
        if isinstance(f, ast.Name) and not any(isinstance(a, ast.Starred) for a in node.args):
            if f.id == "getattr" and len(node.args) == 2 and not node.keywords and isinstance(node.args[1], ast.Constant) \
                    and isinstance(node.args[1].value, str) and _IDENT.match(node.args[1].value):
                self._note("getattr(o, 'name') -> o.name", node)
                return _at(ast.Attribute(value=node.args[0], attr=node.args[1].value, ctx=ast.Load()), node)
            if f.id == "dict" and len(node.args) == 1 and not node.keywords and isinstance(node.args[0], (ast.List, ast.Tuple)) \
                    and node.args[0].elts and all(isinstance(e, ast.Tuple) and len(e.elts) == 2 for e in node.args[0].elts):
                self._note("dict of pairs -> display", node)
                return _at(ast.Dict(keys=[e.elts[0] for e in node.args[0].elts], values=[e.elts[1] for e in node.args[0].elts]), node)
            if f.id == "list" and len(node.args) == 1 and not node.keywords and isinstance(node.args[0], ast.Call) \
                    and isinstance(node.args[0].func, ast.Name) and not node.args[0].keywords:
                inner = node.args[0]
                if inner.func.id == "map" and len(inner.args) == 2 and _simple_operand(inner.args[0]) and not isinstance(inner.args[0], ast.Constant):
                    var = "_x"
                    self._note("list(map(f, xs)) -> comprehension", node)
                    call = ast.Call(func=inner.args[0], args=[ast.Name(id=var, ctx=ast.Load())], keywords=[])
                    return _at(ast.ListComp(elt=call, generators=[ast.comprehension(target=ast.Name(id=var, ctx=ast.Store()), iter=inner.args[1],
                                                                                     ifs=[], is_async=0)]), node)
                if inner.func.id == "filter" and len(inner.args) == 2 and isinstance(inner.args[0], ast.Lambda) \
                        and len(inner.args[0].args.args) == 1 and not inner.args[0].args.defaults:
                    lam = inner.args[0]
                    var = lam.args.args[0].arg
                    self._note("list(filter(lambda ..)) -> comprehension", node)
                    return _at(ast.ListComp(elt=ast.Name(id=var, ctx=ast.Load()),
                                            generators=[ast.comprehension(target=ast.Name(id=var, ctx=ast.Store()), iter=inner.args[1],
                                                                          ifs=[lam.body], is_async=0)]), node)
        return node

    def _iter_keys(self, it: ast.AST) -> ast.AST:
        if isinstance(it, ast.Call) and isinstance(it.func, ast.Attribute) and it.func.attr == "keys" and not it.args and not it.keywords:
            self._note("iteration over d.keys() -> d", it)
            return it.func.value
        return it

    def visit_For(self, node: ast.For):
        self.generic_visit(node)
        node.iter = self._iter_keys(node.iter)
        return node

    def visit_comprehension(self, node: ast.comprehension):
        self.generic_visit(node)
        node.iter = self._iter_keys(node.iter)
        node.ifs = [self._truth(c) for c in node.ifs]
        return node

    # -- statements ----------------------------------------------------------------------------------------------------------
    def visit_Assign(self, node: ast.Assign):
        self.generic_visit(node)
        if len(node.targets) == 1 and isinstance(node.targets[0], ast.Name):
            x = node.targets[0].id
            v = node.value
            # x = A if c else x  ->  if c: x = A          x = x if c else A  ->  if not c: x = A
            if isinstance(v, ast.IfExp) and (isinstance(v.orelse, ast.Name) and v.orelse.id == x) != (isinstance(v.body, ast.Name) and v.body.id == x):
                keep_else = isinstance(v.orelse, ast.Name) and v.orelse.id == x
                test = v.test if keep_else else self._truth(_at(ast.UnaryOp(op=ast.Not(), operand=v.test), v.test))
                self._note("x = A if c else x -> if c: x = A", node)
                inner = self.visit_Assign(_at(ast.Assign(targets=[ast.Name(id=x, ctx=ast.Store())], value=v.body if keep_else else v.orelse), node))
                return _at(ast.If(test=test, body=inner if isinstance(inner, list) else [inner], orelse=[]), node)
            # x = x + 'text'  ->  x += 'text'             (the right operand is text, so x is a str: no aliasing to observe)
            if isinstance(v, ast.BinOp) and isinstance(v.op, ast.Add) and isinstance(v.left, ast.Name) and v.left.id == x and (
                    isinstance(v.right, ast.JoinedStr) or (isinstance(v.right, ast.Constant) and isinstance(v.right.value, str))):
                self._note("x = x + 'text' -> x += 'text'", node)
                return _at(ast.AugAssign(target=ast.Name(id=x, ctx=ast.Store()), op=ast.Add(), value=v.right), node)
        # x = x and f(x)  ->  x = f(x) if x else x       (the value of `a and b` is a when a is false)
        v = node.value
        if isinstance(v, ast.BoolOp) and isinstance(v.op, ast.And) and len(v.values) == 2 and isinstance(v.values[0], ast.Name) \
                and any(isinstance(x, ast.Name) and x.id == v.values[0].id for x in ast.walk(v.values[1])):
            self._note("x and f(x) as a value -> conditional expression", node)
            node.value = _at(ast.IfExp(test=v.values[0], body=v.values[1], orelse=ast.Name(id=v.values[0].id, ctx=ast.Load())), v)
        # a, b = x, y  ->  a = x; b = y   when the values are plain reads that no earlier target of the statement can change
        if len(node.targets) == 1 and isinstance(node.targets[0], ast.Tuple) and isinstance(node.value, ast.Tuple) \
                and len(node.targets[0].elts) == len(node.value.elts) >= 2 \
                and not any(isinstance(e, ast.Starred) for e in node.targets[0].elts + node.value.elts) \
                and all(_simple_operand(v) for v in node.value.elts) and all(_simple_operand(t) and not isinstance(t, ast.Constant) for t in node.targets[0].elts):
            tg = [ast.unparse(t) for t in node.targets[0].elts]
            vs = [ast.unparse(v) for v in node.value.elts]
            independent = all(not (vs[j] == tg[i] or vs[j].startswith(tg[i] + ".") or tg[i].startswith(vs[j] + "."))
                              for i in range(len(tg)) for j in range(i + 1, len(vs)))
            if independent:
                self._note("parallel assignment of independent reads -> sequence", node)
                return [_at(ast.Assign(targets=[t], value=v), node) for t, v in zip(node.targets[0].elts, node.value.elts)]
        return node

    def visit_Expr(self, node: ast.Expr):
        self.generic_visit(node)
        v = node.value
        if isinstance(v, ast.Call) and isinstance(v.func, ast.Attribute):
            recv = v.func.value
            if v.func.attr == "update" and _simple_operand(recv) and not isinstance(recv, ast.Constant):
                pairs = None
                if len(v.args) == 1 and not v.keywords and isinstance(v.args[0], ast.Dict) and v.args[0].keys and all(k is not None for k in v.args[0].keys):
                    pairs = list(zip(v.args[0].keys, v.args[0].values))
                elif not v.args and v.keywords and all(k.arg for k in v.keywords):
                    pairs = [(ast.Constant(value=k.arg), k.value) for k in v.keywords]
                if pairs:
                    self._note("d.update({k: v}) -> d[k] = v", node)
                    return [_at(ast.Assign(targets=[ast.Subscript(value=recv, slice=k, ctx=ast.Store())], value=val), node) for k, val in pairs]
            if v.func.attr == "extend" and len(v.args) == 1 and not v.keywords and isinstance(v.args[0], ast.List) and len(v.args[0].elts) == 1 \
                    and not isinstance(v.args[0].elts[0], ast.Starred):
                self._note("xs.extend([a]) -> xs.append(a)", node)
                return _at(ast.Expr(value=ast.Call(func=ast.Attribute(value=recv, attr="append", ctx=ast.Load()), args=[v.args[0].elts[0]],
                                                   keywords=[])), node)
        if isinstance(v, ast.Call) and isinstance(v.func, ast.Name) and v.func.id == "setattr" and len(v.args) == 3 and not v.keywords \
                and isinstance(v.args[1], ast.Constant) and isinstance(v.args[1].value, str) and _IDENT.match(v.args[1].value):
            self._note("setattr(o, 'name', v) -> o.name = v", node)
            return _at(ast.Assign(targets=[ast.Attribute(value=v.args[0], attr=v.args[1].value, ctx=ast.Store())], value=v.args[2]), node)
        return node

    def visit_FunctionDef(self, node: ast.FunctionDef):
        # tables of lists (`X = defaultdict(list)` in this function): `X[k] += seq` is `X[k].extend(seq)`
        outer = self._list_tables
        self._list_tables = outer | {t.id for st in ast.walk(node) if isinstance(st, (ast.Assign, ast.AnnAssign)) and st.value is not None
                                     and isinstance(st.value, ast.Call) and isinstance(st.value.func, (ast.Name, ast.Attribute))
                                     and (st.value.func.id if isinstance(st.value.func, ast.Name) else st.value.func.attr) == "defaultdict"
                                     and len(st.value.args) == 1 and isinstance(st.value.args[0], ast.Name) and st.value.args[0].id == "list"
                                     for t in (st.targets if isinstance(st, ast.Assign) else [st.target]) if isinstance(t, ast.Name)}
        self.generic_visit(node)
        self._list_tables = outer
        return node

    def visit_AugAssign(self, node: ast.AugAssign):
        self.generic_visit(node)
        if isinstance(node.op, ast.Add) and isinstance(node.target, ast.Subscript) and isinstance(node.target.value, ast.Name) \
                and node.target.value.id in self._list_tables:
            self._note("X[k] += seq on a defaultdict(list) -> X[k].extend(seq)", node)
            recv = ast.Subscript(value=node.target.value, slice=node.target.slice, ctx=ast.Load())
            return _at(ast.Expr(value=ast.Call(func=ast.Attribute(value=recv, attr="extend", ctx=ast.Load()), args=[node.value], keywords=[])), node)
        if isinstance(node.op, ast.Add) and isinstance(node.value, ast.ListComp) and isinstance(node.target, (ast.Name, ast.Attribute)):
            recv = ast.Name(id=node.target.id, ctx=ast.Load()) if isinstance(node.target, ast.Name) else \
                ast.Attribute(value=node.target.value, attr=node.target.attr, ctx=ast.Load())
            self._note("xs += [comprehension] -> extend", node)
            return _at(ast.Expr(value=ast.Call(func=ast.Attribute(value=recv, attr="extend", ctx=ast.Load()), args=[node.value], keywords=[])), node)
        if isinstance(node.op, ast.Add) and isinstance(node.value, ast.List) and isinstance(node.target, (ast.Name, ast.Attribute)) \
                and not any(isinstance(e, ast.Starred) for e in node.value.elts) and node.value.elts:
            recv = ast.Name(id=node.target.id, ctx=ast.Load()) if isinstance(node.target, ast.Name) else \
                ast.Attribute(value=node.target.value, attr=node.target.attr, ctx=ast.Load())
            self._note("xs += [..] -> extend / append", node)
            if len(node.value.elts) == 1:
                call = ast.Call(func=ast.Attribute(value=recv, attr="append", ctx=ast.Load()), args=[node.value.elts[0]], keywords=[])
            else:
                call = ast.Call(func=ast.Attribute(value=recv, attr="extend", ctx=ast.Load()), args=[node.value], keywords=[])
            return _at(ast.Expr(value=call), node)
        return node


def canonicalise(tree: ast.Module) -> List[str]:
    """Rewrite `tree` in place; returns the list of rewritings applied (line: what)."""
    c = Canon()
    c.visit(tree)
    ast.fix_missing_locations(tree)
    return c.changes
