"""E2-lite: backward provenance of string values.

``StrSym(ctx).variants(fi, expr)`` evaluates an expression to a list of *variants*; each variant is a list of atoms

    ("lit", text)                           constant text
    ("hole", label, wrappers, node)         a run-time value; ``wrappers`` = transformations applied to it, innermost first

Branches (IfExp, several reaching definitions, several returns of an inlined callee) multiply variants (capped).
"""
from __future__ import annotations

import ast
from typing import Dict, List, Optional, Tuple

from .ctx import Ctx
from .consts import Template
from .effects import local_names, param_names
from .model import AnalysisError, ClassInfo, ConstRef, External, FuncInfo, Module, attr_chain, norm, walk_no_nested

Atom = tuple
Variant = List[Atom]
CAP = 96

STR_WRAPPERS = {"strip", "lstrip", "rstrip", "lower", "upper", "title", "capitalize", "replace", "format", "encode",
                "decode", "expandtabs", "splitlines", "split", "rsplit", "translate", "casefold", "zfill", "ljust"}


def lit(t: str) -> Atom:
    return ("lit", t)


def hole(label: str, wrappers=(), node=None) -> Atom:
    return ("hole", label, tuple(wrappers), node)


def simplify(v: Variant) -> Variant:
    out: Variant = []
    for a in v:
        if a[0] == "lit" and out and out[-1][0] == "lit":
            out[-1] = ("lit", out[-1][1] + a[1])
        elif a[0] == "lit" and a[1] == "":
            continue
        else:
            out.append(a)
    return out


def text_of(v: Variant, hole_text="\x00") -> str:
    return "".join(a[1] if a[0] == "lit" else hole_text for a in v)


def describe(v: Variant) -> str:
    parts = []
    for a in v:
        if a[0] == "lit":
            parts.append(repr(a[1]))
        else:
            w = "".join(f" |> {x}" for x in a[2])
            parts.append(f"<{a[1]}{w}>")
    return " + ".join(parts) if parts else "''"


class StrSym:
    def __init__(self, ctx: Ctx, max_depth: int = 4, opaque=()):
        self.ctx = ctx
        self.max_depth = max_depth
        self.opaque = set(opaque)  # repository functions treated as wrappers (sanitisers), not inlined

    # -- public ------------------------------------------------------------------------------------------------
    def variants(self, fi: Optional[FuncInfo], mod: Module, expr: ast.AST, env: Optional[Dict[str, List[Variant]]] = None,
                 depth: int = 0) -> List[Variant]:
        vs = self._ev(fi, mod, expr, env or {}, depth)
        out = []
        seen = set()
        for v in vs:
            v = simplify(v)
            k = repr([(a[0], a[1], a[2] if a[0] == "hole" else None) for a in v])
            if k not in seen:
                seen.add(k)
                out.append(v)
        if len(out) > CAP:
            raise AnalysisError(f"string variant cap exceeded at `{norm(expr)[:60]}`")
        return out

    # -- helpers -------------------------------------------------------------------------------------------------
    @staticmethod
    def _cross(a: List[Variant], b: List[Variant]) -> List[Variant]:
        out = [x + y for x in a for y in b]
        if len(out) > CAP * 4:
            raise AnalysisError("string variant cap exceeded")
        return out

    def _wrap(self, vs: List[Variant], w: str) -> List[Variant]:
        out = []
        for v in vs:
            nv = []
            for a in v:
                if a[0] == "hole":
                    nv.append(("hole", a[1], a[2] + (w,), a[3]))
                else:
                    nv.append(a)
            out.append(nv)
        return out

    def _ev(self, fi, mod, e: ast.AST, env, depth) -> List[Variant]:
        ctx = self.ctx
        if isinstance(e, ast.Constant):
            if isinstance(e.value, str):
                return [[lit(e.value)]]
            return [[lit(str(e.value))]]
        if isinstance(e, ast.JoinedStr):
            cur: List[Variant] = [[]]
            for p in e.values:
                if isinstance(p, ast.Constant):
                    cur = self._cross(cur, [[lit(str(p.value))]])
                else:
                    vs = self._ev(fi, mod, p.value, env, depth)
                    if p.conversion == 114:
                        vs = self._wrap(vs, "repr")
                    cur = self._cross(cur, vs)
            return cur
        if isinstance(e, ast.BinOp) and isinstance(e.op, ast.Add):
            return self._cross(self._ev(fi, mod, e.left, env, depth), self._ev(fi, mod, e.right, env, depth))
        if isinstance(e, ast.BinOp) and isinstance(e.op, ast.Mod):
            c = ctx.folder.try_fold(mod, e, self._cls(fi))
            if isinstance(c, str):
                return [[lit(c)]]
            left = self._ev(fi, mod, e.left, env, depth)
            args = e.right.elts if isinstance(e.right, ast.Tuple) else [e.right]
            out = []
            for lv in left:
                t = text_of(lv, "\x00")
                if "\x00" in t or t.count("%s") != len(args):
                    out.append([hole("UNKNOWN:%-format", (), e)])
                    continue
                pieces = t.split("%s")
                cur = [[lit(pieces[0])]]
                for a, pc in zip(args, pieces[1:]):
                    cur = self._cross(cur, self._ev(fi, mod, a, env, depth))
                    cur = self._cross(cur, [[lit(pc)]])
                out += cur
            return out
        if isinstance(e, ast.IfExp):
            return self._ev(fi, mod, e.body, env, depth) + self._ev(fi, mod, e.orelse, env, depth)
        if isinstance(e, ast.BoolOp) and isinstance(e.op, ast.Or):
            out = []
            for v in e.values:
                if isinstance(v, ast.Constant) and v.value is None:
                    continue
                out += self._ev(fi, mod, v, env, depth)
            return out
        if isinstance(e, ast.Name):
            if e.id in env:
                return [list(v) for v in env[e.id]]
            if fi is not None and e.id in local_names(fi.node):
                defs = ctx.defs_reaching(fi, e, e.id)
                if defs is None:
                    defs = []
                out: List[Variant] = []
                for d in defs:
                    if d is fi.node:
                        out.append([hole(f"param:{e.id}", (), e)])
                    elif isinstance(d, ast.Assign) and len(d.targets) == 1 and isinstance(d.targets[0], ast.Name):
                        out += self._ev(fi, mod, d.value, env, depth)
                    elif isinstance(d, ast.AnnAssign) and d.value is not None:
                        out += self._ev(fi, mod, d.value, env, depth)
                    elif isinstance(d, ast.AugAssign) and isinstance(d.op, ast.Add):
                        # x += y : previous value (defs reaching the augmented statement) + y
                        prev_defs = ctx.defs_reaching(fi, d.value, e.id) or []
                        prev: List[Variant] = []
                        for pd in prev_defs:
                            if pd is d:
                                continue
                            if isinstance(pd, ast.Assign):
                                prev += self._ev(fi, mod, pd.value, env, depth)
                            elif pd is fi.node:
                                prev.append([hole(f"param:{e.id}", (), e)])
                        out += self._cross(prev or [[]], self._ev(fi, mod, d.value, env, depth))
                    elif isinstance(d, ast.For):
                        out.append([hole(f"elem:{norm(d.iter)}", (), e)])
                    elif isinstance(d, ast.Assign):
                        out.append([hole(f"unpacked:{norm(d.value)[:40]}", (), e)])
                    else:
                        out.append([hole(f"local:{e.id}", (), e)])
                if not out:
                    # comprehension variable or closure
                    out.append([hole(f"local:{e.id}", (), e)])
                return out
            # closure variable of an enclosing function: treat as that function's parameter/local
            f2 = fi.parent if fi is not None else None
            while f2 is not None:
                if e.id in local_names(f2.node):
                    return [[hole(f"closure:{e.id}", (), e)]]
                f2 = f2.parent
            c = ctx.folder.try_fold(mod, e, self._cls(fi))
            if isinstance(c, str):
                return [[lit(c)]]
            return [[hole(f"global:{e.id}", (), e)]]
        if isinstance(e, ast.Attribute):
            c = ctx.folder.try_fold(mod, e, self._cls(fi))
            if isinstance(c, str) and not isinstance(c, Template):
                return [[lit(c)]]
            # property call
            if depth < self.max_depth and fi is not None:
                rcs = ctx.cg.receiver_classes(fi, mod, e.value)
                props = []
                for rc in rcs:
                    props += [f for f in ctx.prog.cha_targets(rc, e.attr) if f.is_property and not any(
                        d.endswith(".setter") or d.endswith(".deleter") for d in f.decorators)]
                if props:
                    out = []
                    for p in props:
                        out += self._inline(p, {}, depth + 1, e)
                    return out
            return [[hole(f"attr:{norm(e)}", (), e)]]
        if isinstance(e, ast.Call):
            return self._call(fi, mod, e, env, depth)
        if isinstance(e, ast.Subscript):
            c = ctx.folder.try_fold(mod, e, self._cls(fi))
            if isinstance(c, str):
                return [[lit(c)]]
            return [[hole(f"item:{norm(e)[:50]}", (), e)]]
        c = ctx.folder.try_fold(mod, e, self._cls(fi))
        if isinstance(c, str):
            return [[lit(c)]]
        return [[hole(f"expr:{norm(e)[:50]}", (), e)]]

    def _cls(self, fi):
        f = fi
        while f is not None:
            if f.cls is not None:
                return f.cls
            f = f.parent
        return None

    def _call(self, fi, mod, e: ast.Call, env, depth) -> List[Variant]:
        ctx = self.ctx
        fn = norm(e.func)
        c = ctx.folder.try_fold(mod, e, self._cls(fi))
        if isinstance(c, str) and not isinstance(c, Template):
            return [[lit(c)]]
        f = e.func
        if isinstance(f, ast.Attribute):
            if f.attr == "join" and len(e.args) == 1:
                sep = ctx.folder.try_fold(mod, f.value, self._cls(fi))
                arg = e.args[0]
                inner = self._seq_elem(fi, mod, arg, env, depth)
                return self._wrap(inner, f"join({sep!r})" if isinstance(sep, str) else "join(?)")
            if f.attr in STR_WRAPPERS:
                base = self._ev(fi, mod, f.value, env, depth)
                args = [ctx.folder.try_fold(mod, a, self._cls(fi)) for a in e.args]
                if f.attr == "replace" and len(args) == 2 and all(isinstance(a, str) for a in args):
                    out = []
                    for v in base:
                        nv = []
                        for a in v:
                            if a[0] == "lit":
                                nv.append(lit(a[1].replace(args[0], args[1])))
                            else:
                                nv.append(("hole", a[1], a[2] + (f"replace({args[0]!r},{args[1]!r})",), a[3]))
                        out.append(nv)
                    return out
                if f.attr == "format":
                    return [[hole(f"UNKNOWN:format {norm(e)[:40]}", (), e)]]
                w = f.attr + "(" + ",".join(repr(a) if a is not None else "?" for a in args) + ")"
                if f.attr == "replace" and (len(e.args) != 2 or e.keywords):
                    w = "replace-limited" + w[len("replace"):]      # a count: not every occurrence is replaced
                return self._wrap(base, w)
            if f.attr == "render":
                # jinja2 Template.render(**kw): the folded template text with {{ name }} replaced by the keyword values
                t = ctx.folder.try_fold(mod, f.value, self._cls(fi))
                if isinstance(t, Template):
                    return self._render(fi, mod, t, e, env, depth)
        if fn in ("str", "repr", "json.dumps", "dumps", "ascii", "format", "int", "bool"):
            if not e.args:
                return [[lit("")]]
            inner = self._ev(fi, mod, e.args[0], env, depth)
            kws = ",".join(f"{k.arg}={norm(k.value)}" for k in e.keywords)
            w = fn + (f"({kws})" if kws else "")
            if fn == "str":
                w = "str"
            return self._wrap(inner, w)
        if fn in ("re.sub", "sub", "re.subn") and len(e.args) >= 3:
            pat = ctx.folder.try_fold(mod, e.args[0], self._cls(fi))
            rep = ctx.folder.try_fold(mod, e.args[1], self._cls(fi))
            inner = self._ev(fi, mod, e.args[2], env, depth)
            # a fourth positional argument is `count` (a flags constant given there limits the number of replacements)
            limited = len(e.args) > 3 or any(k.arg == "count" for k in e.keywords)
            if limited:
                return self._wrap(inner, "re.sub(?)")
            return self._wrap(inner, f"re.sub({pat!r},{rep!r})" if isinstance(pat, str) and isinstance(rep, str) else "re.sub(?)")
        short = fn.split(".")[-1]
        if short in self.opaque and e.args:
            return self._wrap(self._ev(fi, mod, e.args[0], env, depth), short)
        # repository function: inline its returns
        if depth < self.max_depth:
            tgs = [t for t in ctx.cg.resolve_call(fi, mod, e) if isinstance(t, FuncInfo)]
            if tgs:
                out = []
                for t in tgs:
                    bind = self._bind(fi, mod, t, e, env, depth)
                    out += self._inline(t, bind, depth + 1, e)
                return out
        return [[hole(f"call:{fn}", (), e)]]

    def _seq_elem(self, fi, mod, arg: ast.AST, env, depth) -> List[Variant]:
        """Symbolic value of one element of a sequence expression."""
        if isinstance(arg, (ast.GeneratorExp, ast.ListComp)) and len(arg.generators) == 1:
            g = arg.generators[0]
            tgt = g.target.id if isinstance(g.target, ast.Name) else None
            src = self._seq_elem(fi, mod, g.iter, env, depth)
            it = g.iter
            wr = []
            while isinstance(it, ast.Call) and norm(it.func) in ("sorted", "list", "tuple", "set", "reversed"):
                wr.append(norm(it.func))
                it = it.args[0] if it.args else it
            env2 = dict(env)
            if tgt:
                env2[tgt] = src
            return self._ev(fi, mod, arg.elt, env2, depth)
        if isinstance(arg, ast.Call) and norm(arg.func) in ("sorted", "list", "tuple", "reversed", "set", "filter") and arg.args:
            inner = arg.args[-1] if norm(arg.func) == "filter" else arg.args[0]
            return self._seq_elem(fi, mod, inner, env, depth)
        if isinstance(arg, ast.Call) and norm(arg.func) == "map" and len(arg.args) == 2:
            elem = self._seq_elem(fi, mod, arg.args[1], env, depth)
            fnn = norm(arg.args[0])
            return self._wrap(elem, fnn)
        if isinstance(arg, (ast.Tuple, ast.List)):
            out = []
            for x in arg.elts:
                out += self._ev(fi, mod, x, env, depth)
            return out or [[lit("")]]
        vs = self._ev(fi, mod, arg, env, depth)
        out = []
        for v in vs:
            nv = [("hole", "elem-of " + a[1], a[2], a[3]) if a[0] == "hole" else a for a in v]
            out.append(nv)
        return out

    def _bind(self, fi, mod, callee: FuncInfo, call: ast.Call, env, depth) -> Dict[str, List[Variant]]:
        params = param_names(callee.node)
        off = 1 if (callee.cls is not None and not callee.is_static and params and params[0] in ("self", "cls")) else 0
        bind: Dict[str, List[Variant]] = {}
        for i, a in enumerate(call.args):
            if isinstance(a, ast.Starred):
                break
            if i + off < len(params):
                bind[params[i + off]] = self._ev(fi, mod, a, env, depth)
        for k in call.keywords:
            if k.arg:
                bind[k.arg] = self._ev(fi, mod, k.value, env, depth)
        return bind

    def _inline(self, callee: FuncInfo, bind, depth, site) -> List[Variant]:
        rets = [n for n in walk_no_nested(callee.node) if isinstance(n, ast.Return) and n.value is not None]
        if not rets:
            return [[hole(f"call:{callee.qualname}", (), site)]]
        out = []
        for r in rets:
            out += self._ev(callee, callee.module, r.value, bind, depth)
        # relabel unbound parameters of the callee so that they stay distinguishable
        res = []
        for v in out:
            res.append([("hole", a[1] if not a[1].startswith("param:") else f"{callee.qualname}.{a[1]}", a[2], a[3])
                        if a[0] == "hole" else a for a in v])
        return res

    def _render(self, fi, mod, t: Template, call: ast.Call, env, depth) -> List[Variant]:
        from .consts import split_template
        kw: Dict[str, List[Variant]] = {}
        for k in call.keywords:
            if k.arg:
                kw[k.arg] = self._ev(fi, mod, k.value, env, depth)
            else:
                kw["**"] = [[hole(f"kwargs:{norm(k.value)}", (), k.value)]]
        cur: List[Variant] = [[]]
        for kind, val in split_template(str(t)):
            if kind == "text":
                cur = self._cross(cur, [[lit(val)]])
            elif kind == "expr":
                name = val.split("|")[0].strip()
                if name in kw:
                    cur = self._cross(cur, self._wrap(kw[name], "jinja-str"))
                else:
                    cur = self._cross(cur, [[hole(f"tpl:{name}", ("jinja-str",), call)]])
        return cur
