"""NF-4 (C08): kind-level abstract evaluation of the type simplifier over every union of up to three members of a finite
universe of depth <= 2 types - the property's own quantifier.

For every x of the universe (built through the evaluated `DUnion` constructor, so x is what `merge_field_sets` can hand to
the simplifier), with F = `MetadataGenerator.optimize_type` evaluated from its source by `sa.absint`:

  (a) F(x) never raises,
  (b) F(x) is in normal form at every level,
  (c) F(F(x)) == F(x): re-running the simplification changes nothing,
  (d) when F(x) holds pointers to two models and these models are merged afterwards (both pointers then refer to one model
      and `merge_models` runs one more pass), that pass gives a normal form and a fixed point as well.

Summaries with several outcomes (two literal sets merged: overflow or not; `registry.resolve`: which classes survive) fork
the evaluation; every combination is followed.
"""
from __future__ import annotations

import itertools
import os
from typing import Dict, List, Optional, Tuple

from ..absint import (AnalysisError, Cls, Evaluator, FuncVal, ModelDict, NeedChoice, Node, OSet, PyRaise, clone, key, show)
from ..ctx import Ctx
from ..report import DISCHARGED, VIOLATED, RuleResult

GEN = "json_to_models/generator.py"
CPLX = "json_to_models/dynamic_typing/complex.py"


# ---------------------------------------------------------------------------------------------------------------
# summaries (the trusted base)
def _s_merge_field_sets(ev: Evaluator, args, kwargs, self_val):
    sets = ev.iterate(args[0], "merge_field_sets")
    if sets and all(isinstance(s, dict) for s in sets):
        return NotImplemented       # real field sets (PERM-1): evaluate the function itself
    tags = set()
    for s in sets:
        if not isinstance(s, ModelDict):
            raise AnalysisError(f"NF-4: merge_field_sets is handed {show(s)}, which is not a field set")
        tags.update(s.tag.split("+"))
    if not tags:
        return {}
    return ModelDict("+".join(sorted(tags)))


def _s_resolve(ev: Evaluator, args, kwargs, self_val):
    distinct: list = []
    for a in args:
        if not any(key(a) == key(d) for d in distinct):
            distinct.append(a)
    if len(distinct) <= 1:
        return OSet(distinct)
    subsets = [c for r in range(1, len(distinct) + 1) for c in itertools.combinations(distinct, r)]
    return OSet(subsets[ev.choose(len(subsets), "registry.resolve")])


def _s_string_literal_init(ev: Evaluator, args, kwargs, self_val):
    tags = frozenset(ev.iterate(args[0], "StringLiteral()"))
    decided = ev.state.setdefault("literal_sets", {})
    if len(tags) <= 1 or any(tags <= ok for ok in ev.state.get("known_ok", ())) or any(tags <= d and not v for d, v in decided.items()):
        overflow = False            # (part of) a set that is known to be within the limits
    elif any(d <= tags and v for d, v in decided.items()):
        overflow = True             # contains a set that overflowed
    else:
        overflow = ev.choose(2, "literal sets merged: within the limits / overflowed") == 1
        decided[tags] = overflow
    self_val.attrs["_overflow"] = overflow
    self_val.attrs["_literals"] = frozenset() if overflow else tags
    return None


def _s_hash_string(ev: Evaluator, args, kwargs, self_val):
    return repr(key(args[0]))


def _h_optimize_field_set(ev: Evaluator, args, kwargs, self_val):
    """optimize_type of a field set simplifies each field on its own and gives a field set: decided per level."""
    if args and isinstance(args[0], ModelDict):
        return args[0]
    return NotImplemented


SUMMARIES = {
    "MetadataGenerator.merge_field_sets": _s_merge_field_sets,
    "StringSerializableRegistry.resolve": _s_resolve,
    "StringLiteral.__init__": _s_string_literal_init,
    "get_hash_string": _s_hash_string,
}
SUMMARY_NOTES = {
    "MetadataGenerator.merge_field_sets": "gives one field set (OPT-* decide what is in it)",
    "StringSerializableRegistry.resolve": "any non-empty subset of its arguments (every subset is followed)",
    "StringLiteral.__init__": "two literal sets merged may overflow or not (both followed); LIM-* decide the limits",
    "get_hash_string": "equal for structurally equal values and only for them (NDET-1 / EQ-1 decide the real functions)",
}


# ---------------------------------------------------------------------------------------------------------------
class World:
    def __init__(self, ctx: Ctx):
        self.ctx = ctx
        prog = ctx.prog
        self.ev = Evaluator(prog, SUMMARIES)
        ev = self.ev
        ev.entry_hooks["MetadataGenerator.optimize_type"] = _h_optimize_field_set
        self.c = {n: ev.cls_of(n) for n in ("DUnion", "DOptional", "DList", "DDict", "StringLiteral", "ModelPtr", "NoneType",
                                             "UnknownType", "MetadataGenerator", "StringSerializableRegistry")}
        self.INT, self.FLOAT, self.BOOL, self.STR = Cls("int"), Cls("float"), Cls("bool"), Cls("str")
        self.PS1, self.PS2 = Cls("PS1", None, True), Cls("PS2", None, True)
        gen_mod = prog.module(GEN)
        self.NULL = ev.global_name(gen_mod, "Null", "NF-4")
        self.UNKNOWN = ev.global_name(gen_mod, "Unknown", "NF-4")
        if not (isinstance(self.NULL, Node) and self.NULL.info.name == "NoneType" and isinstance(self.UNKNOWN, Node)
                and self.UNKNOWN.info.name == "UnknownType"):
            raise AnalysisError("NF-4: `Null` / `Unknown` of generator.py are no longer the singletons of NoneType / UnknownType")
        # the registry and the generator are built by their own (evaluated) constructors
        self.reg = ev.instantiate(self.c["StringSerializableRegistry"], [self.PS1, self.PS2], {}, "NF-4")
        self.gen = ev.instantiate(self.c["MetadataGenerator"], [], {"str_types_registry": self.reg}, "NF-4")
        self.f_opt = prog.func(GEN, "MetadataGenerator.optimize_type")
        self.f_union = prog.func(GEN, "MetadataGenerator._optimize_union")
        self.f_ctor = prog.func(CPLX, "DUnion.__init__")

    def sl(self, tag: str) -> Node:
        return Node(self.c["StringLiteral"].info, {"_literals": frozenset({tag}), "_overflow": False})

    def ptr(self, tag: str) -> Node:
        return Node(self.c["ModelPtr"].info, {"_type": "model " + tag})

    # every outcome of a computation that may ask for choices
    def outcomes(self, thunk) -> List[Tuple[str, object]]:
        ev = self.ev
        out = []
        stack: List[List[int]] = [[]]
        while stack:
            ch = stack.pop()
            ev.choices, ev.choice_pos, ev.steps = ch, 0, 0
            ev.state["literal_sets"] = {}
            try:
                r = thunk()
            except NeedChoice as n:
                for i in reversed(range(n.arity)):
                    stack.append(ch + [i])
                continue
            except PyRaise as e:
                out.append(("raise", e))
                continue
            out.append(("ok", r))
            if len(out) > 4096:
                raise AnalysisError("NF-4: more than 4096 outcomes of one evaluation")
        return out

    def make(self, cname: str, *args):
        return self.outcomes(lambda: self.ev.instantiate(self.c[cname], [clone(a) for a in args], {}, "NF-4 universe"))

    def F(self, x):
        self.ev.state["known_ok"] = _literal_sets(x)

        def run():
            arg = x if isinstance(x, (Cls, ModelDict)) else clone(x)
            return self.ev.call_func(FuncVal(self.f_opt, self.gen), [arg], {}, "NF-4")
        return self.outcomes(run)


def _literal_sets(v, out=None) -> set:
    """Literal sets of the non-overflowed StringLiteral nodes of a type."""
    if out is None:
        out = set()
    if isinstance(v, Node):
        if v.info.name == "StringLiteral" and not v.attrs.get("_overflow") and v.attrs.get("_literals"):
            out.add(v.attrs["_literals"])
        for x in v.attrs.values():
            _literal_sets(x, out)
    elif isinstance(v, (list, tuple)):
        for x in v:
            _literal_sets(x, out)
    return out


def universe(w: World, full: bool) -> Tuple[List[object], Dict[str, int]]:
    """Member types: atoms, containers of atoms, a few depth-2 shapes the simplifier itself produces.  The quick tier uses
    41 of them (the property speaks of about 40), the thorough tier all 56."""
    sla, slb, m1, ptr = w.sl("a"), w.sl("b"), ModelDict("M1"), w.ptr("P")
    atoms = [w.INT, w.FLOAT, w.BOOL, w.STR, w.NULL, w.UNKNOWN, w.PS1, w.PS2, sla, slb, m1, ModelDict("M2"), ptr, w.ptr("Q")]

    def one(cname, *a):
        r = w.make(cname, *a)
        if len(r) != 1 or r[0][0] != "ok":
            raise AnalysisError(f"NF-4: building {cname}({', '.join(show(x) for x in a)}) has {len(r)} outcomes / raises")
        return r[0][1]
    opt = lambda x: one("DOptional", x)
    lst = lambda x: one("DList", x)
    dct = lambda x: one("DDict", x)
    uni = lambda *xs: one("DUnion", *xs)
    members = list(atoms)
    if full:
        inner = [w.INT, w.FLOAT, w.STR, w.NULL, w.UNKNOWN, w.PS1, sla, slb, m1, ptr]
        for mk in (lst, dct, opt):
            for i in inner:
                if mk is opt and (i is w.NULL or i is w.UNKNOWN):
                    continue
                members.append(mk(i))
    else:
        members += [lst(w.INT), lst(w.STR), lst(w.UNKNOWN), lst(sla), lst(m1), lst(w.NULL), dct(w.INT), dct(slb), dct(m1),
                    opt(w.INT), opt(w.FLOAT), opt(w.STR), opt(w.PS1), opt(sla), opt(slb), opt(m1)]
    # (Optional[Any] is what a position gets that held only nulls and empty lists)
    members += [opt(w.UNKNOWN), lst(opt(w.UNKNOWN)),
                lst(opt(sla)), lst(opt(slb)), lst(opt(w.PS1)), lst(uni(w.PS1, sla)), opt(uni(w.INT, w.STR)),
                opt(uni(w.PS1, slb)), opt(lst(w.INT)), lst(uni(w.NULL, w.INT)), lst(uni(w.INT, w.STR))]
    if full:
        members += [lst(lst(w.INT)), lst(lst(w.UNKNOWN)), dct(opt(sla))]
    seen, out = set(), []
    for m in members:
        k = key(m)
        if k not in seen:
            seen.add(k)
            out.append(m)
    return out, {"atoms": len(atoms), "members": len(out)}


# ---------------------------------------------------------------------------------------------------------------
def normal_form_problems(w: World, y, path: str = "") -> List[str]:
    out: List[str] = []
    ev = w.ev
    if isinstance(y, Node):
        n = y.info.name
        if n == "DUnion":
            ms = y.attrs.get("_types", [])
            if len(ms) == 0:
                out.append("an empty union")
            elif len(ms) == 1:
                out.append("a union of a single member")
            ks = [key(m) for m in ms]
            if len(set(ks)) != len(ks):
                out.append("a union with a duplicate member")
            has = lambda c: any(isinstance(m, Cls) and m.name == c.name for m in ms)
            if any(m is w.NULL or (isinstance(m, Node) and m.info.name == "NoneType") for m in ms):
                out.append("null inside a union (not folded into Optional)")
            if any(isinstance(m, Node) and m.info.name == "DOptional" for m in ms):
                out.append("Optional inside a union")
            if any(isinstance(m, Node) and m.info.name == "DUnion" for m in ms):
                out.append("a union nested in a union")
            if has(w.INT) and has(w.FLOAT):
                out.append("int next to float in a union")
            if has(w.STR) and any(isinstance(m, Node) and m.info.name == "StringLiteral" for m in ms):
                out.append("str next to string literals in a union")
            if has(w.STR) and any(isinstance(m, Cls) and m.pseudo for m in ms):
                out.append("str next to a string pseudo-type in a union")
            if len(ms) > 1 and any(isinstance(m, Node) and m.info.name == "UnknownType" for m in ms):
                out.append("Unknown next to a concrete member in a union")
            for m in ms:
                out += normal_form_problems(w, m)
        elif n == "DOptional":
            t = y.attrs.get("_type")
            if isinstance(t, Node) and t.info.name == "DOptional":
                out.append("Optional nested in Optional")
            if isinstance(t, Node) and t.info.name == "NoneType":
                out.append("Optional of null")
            out += normal_form_problems(w, t)
        elif "_type" in y.attrs and n != "ModelPtr":
            out += normal_form_problems(w, y.attrs["_type"])
        elif "_types" in y.attrs:
            for m in y.attrs["_types"]:
                out += normal_form_problems(w, m)
    elif isinstance(y, (list, tuple)) or (y is None):
        out.append(f"the simplifier returned {show(y)}, which is not a type")
    return out


def _unify_pointers(y):
    """A copy of y in which every ModelPtr refers to the same model; None if y has fewer than two different pointers."""
    targets = set()

    def walk(v):
        if isinstance(v, Node):
            if v.info.name == "ModelPtr":
                targets.add(v.attrs.get("_type"))
                return
            for x in v.attrs.values():
                walk(x)
        elif isinstance(v, (list, tuple)):
            for x in v:
                walk(x)
    walk(y)
    if len(targets) < 2:
        return None
    z = clone(y)
    first = sorted(targets)[0]

    def ren(v):
        if isinstance(v, Node):
            if v.info.name == "ModelPtr":
                v.attrs["_type"] = first
                return
            for x in v.attrs.values():
                ren(x)
        elif isinstance(v, (list, tuple)):
            for x in v:
                ren(x)
    ren(z)
    return z


def check_inputs(w: World, xs: List[object]) -> Tuple[Dict[str, Tuple[str, str, int]], Dict[str, int]]:
    """problem kind -> (witness text, where, count); statistics."""
    problems: Dict[str, Tuple[str, str, int]] = {}
    stats = {"inputs": 0, "evaluations": 0, "outcomes": 0}

    def note(kind: str, witness: str, where: str = ""):
        w0 = problems.get(kind)
        if w0 is None or len(witness) < len(w0[0]):
            problems[kind] = (witness, where, (w0[2] if w0 else 0) + 1)
        else:
            problems[kind] = (w0[0], w0[1], w0[2] + 1)

    cache: Dict[object, List[Tuple[str, object]]] = {}

    def F(v):
        k = key(v)
        if k not in cache:
            cache[k] = w.F(v)
            stats["evaluations"] += 1
        return cache[k]

    def settled(origin: str, y1, one_pointer: bool = False):
        """y1 came out of one pass: it has to be in normal form and a fixed point."""
        stats["outcomes"] += 1
        for p in sorted(set(normal_form_problems(w, y1))):
            note(p + (" after one pass" if not one_pointer else " after the pass that follows a merge of the models pointed to"),
                 f"{origin} -> {show(y1)}")
        for t2, y2 in F(y1):
            if t2 == "raise":
                note(f"re-running the simplification raises {y2.etype}", f"{origin} -> {show(y1)}", y2.where)
            elif key(y2) != key(y1):
                note("re-running the simplification changes an already simplified type", f"{origin} -> {show(y1)} -> {show(y2)}")

    for x in xs:
        stats["inputs"] += 1
        sx = show(x)
        for t1, y1 in F(x):
            if t1 == "raise":
                note(f"the simplifier raises {y1.etype}", f"{sx}", y1.where)
                continue
            settled(sx, y1)
            # the models two pointers refer to are merged later: both pointers then refer to one model, and one pass follows
            z = _unify_pointers(y1)
            if z is not None:
                sz = f"{sx} -> {show(y1)} =(pointers unified)=> {show(z)}"
                for t3, y3 in F(z):
                    if t3 == "raise":
                        note(f"the pass after a merge of the models pointed to raises {y3.etype}", sz, y3.where)
                    else:
                        settled(sz, y3, True)
    return problems, stats


def field_types(w: World, members: List[object], max_size: int, subset: Optional[Tuple[int, int]] = None,
                opt_size: int = 3) -> List[object]:
    """The types a field can have when the simplifier meets it: a member, a union of 2..max_size members (built by the
    evaluated constructor), each also under Optional."""
    xs: List[object] = []
    combos = []
    for r in range(1, max_size + 1):
        combos += list(itertools.combinations(range(len(members)), r))
    if subset is not None:
        combos = combos[subset[0]::subset[1]]
    for combo in combos:
        ms = [members[i] for i in combo]
        if len(ms) == 1:
            base = [("ok", ms[0])]
        else:
            base = w.make("DUnion", *ms)
        for t, u in base:
            if t != "ok":
                raise AnalysisError(f"NF-4: constructing the union of {show(ms)} raises {u}")
            if isinstance(u, Node) and u.info.name == "DUnion" and len(u.attrs.get("_types", [])) == 1:
                u = u.attrs["_types"][0]        # merge_field_sets replaces a union of one member by the member
            xs.append(u)
            if len(ms) <= opt_size and not (isinstance(u, Node) and u.info.name in ("DOptional", "NoneType")):
                for t2, o in w.make("DOptional", u):
                    xs.append(o)
    return xs


_SHARED: Dict[str, object] = {}


def _worker(args):
    part, parts, max_size, opt_size = args
    w: World = _SHARED["world"]           # inherited through fork
    members = _SHARED["members"]
    w.ev.functions_evaluated.clear()
    w.ev.summaries_used.clear()
    xs = field_types(w, members, max_size, (part, parts), opt_size)
    problems, stats = check_inputs(w, xs)
    return problems, stats, dict(w.ev.functions_evaluated), dict(w.ev.summaries_used)


def rule_nf4(ctx: Ctx) -> RuleResult:
    from ..rulecache import cached
    return cached(ctx, "rule_nf4", lambda: _rule_nf4(ctx))


def _rule_nf4(ctx: Ctx) -> RuleResult:
    rr = RuleResult("NF-4", "one pass of the simplifier reaches a normal form that a further pass leaves alone", floor=3)
    w = World(ctx)
    full = ctx.tier == "thorough"
    members, ustats = universe(w, full)
    max_size = 3
    opt_size = 3 if full else 2
    ncpu = min(16, os.cpu_count() or 1)
    parts = ncpu * 4 if ncpu > 1 else 1
    jobs = [(i, parts, max_size, opt_size) for i in range(parts)]
    _SHARED["world"], _SHARED["members"] = w, members
    problems: Dict[str, Tuple[str, str, int]] = {}
    stats = {"inputs": 0, "evaluations": 0, "outcomes": 0}
    evaluated: Dict[str, int] = {}
    used: Dict[str, int] = {}
    if ncpu > 1:
        import multiprocessing as mp
        with mp.get_context("fork").Pool(ncpu) as pool:
            results = pool.map(_worker, jobs, chunksize=1)
    else:
        results = [_worker(j) for j in jobs]
    for pr, st_, fe, su in results:
        for k, (wit, where, n) in pr.items():
            cur = problems.get(k)
            if cur is None or len(wit) < len(cur[0]):
                problems[k] = (wit, where, n + (cur[2] if cur else 0))
            else:
                problems[k] = (cur[0], cur[1], cur[2] + n)
        for k in stats:
            stats[k] += st_[k]
        for k, v in fe.items():
            evaluated[k] = evaluated.get(k, 0) + v
        for k, v in su.items():
            used[k] = used.get(k, 0) + v
    # (e) the constructor flattens whatever it is given: a union that holds a union as a member (the in-place
    # `replace(t, index=i)` can build one) contributes its leaves, with the same de-duplication and literal folding
    sla = w.sl("a")
    inner = w.make("DUnion", w.INT, w.STR)[0][1]
    holder = w.make("DUnion", w.FLOAT, w.BOOL)[0][1]
    holder.attrs["_types"] = [inner, w.FLOAT]
    ctor_problems = []
    for t, u in w.make("DUnion", holder, w.INT, sla):
        if t != "ok":
            ctor_problems.append(f"raises {u}")
            continue
        for p_ in sorted(set(normal_form_problems(w, u))):
            if p_ not in ("a union nested in a union", "a union with a duplicate member", "str next to string literals in a union"):
                continue        # (int next to float etc. are the simplifier's business, not the constructor's)
            ctor_problems.append(f"{p_}: DUnion({show(holder)}, int, {show(sla)}) -> {show(u)}")
    rr.instances += 1
    rr.ob(w.f_ctor.relpath, w.f_ctor.qualname, "DUnion(<union holding a union>, int, Literal)",
          "the constructor of a union flattens nested unions at every depth, removes duplicates and folds literals into str when str is "
          "among the leaves", VIOLATED if ctor_problems else DISCHARGED,
          "; ".join(ctor_problems)[:400] if ctor_problems else "flat, no duplicate, literal folded", w.f_ctor.node.lineno)
    need = {w.f_opt.key, w.f_union.key, w.f_ctor.key}
    if not need <= set(evaluated):
        raise AnalysisError(f"NF-4: not evaluated: {sorted(need - set(evaluated))}")
    rr.analysed = sorted(evaluated)
    rr.notes.append(f"universe: {ustats['members']} member types (depth <= 2), every union of up to {max_size} of them, each (those of up to "
                    f"{opt_size} members) also under Optional: {stats['inputs']} field types, {stats['evaluations']} evaluations of optimize_type, "
                    f"{stats['outcomes']} outcomes")
    rr.notes.append("summarised (trusted): " + "; ".join(f"{k}: {SUMMARY_NOTES[k]} [{used.get(k, 0)} uses]" for k in sorted(SUMMARIES)))
    st = ("for every union of up to three member types of the universe, the type optimize_type returns is flat, without "
          "duplicates, single members, null, Optional members, int next to float, str next to literals or pseudo-types; a "
          "second pass returns the same type; no pass raises; the same after two pointed-to models have become one")
    f = w.f_union
    rr.instances += 3
    if stats["inputs"] < (40000 if full else 8000):
        raise AnalysisError(f"NF-4: only {stats['inputs']} field types were built")
    if not problems:
        rr.ob(f.relpath, f.qualname, "normal form after one pass", st, DISCHARGED,
              f"{stats['inputs']} field types, {stats['outcomes']} outcomes, all in normal form", f.node.lineno)
        rr.ob(f.relpath, f.qualname, "a second pass changes nothing", st, DISCHARGED, "fixpoint on every outcome", f.node.lineno)
        rr.ob(f.relpath, f.qualname, "no pass raises", st, DISCHARGED, "no IndexError / ValueError / StopIteration on any input",
              f.node.lineno)
    for kind, (wit, where, n) in sorted(problems.items()):
        line = f.node.lineno
        rel, qn = f.relpath, f.qualname
        if where and ":" in where:
            rel0, ln = where.split(" ")[0].rsplit(":", 1)
            if ln.isdigit():
                rel, line = rel0, int(ln)
                m = ctx.prog.modules.get(rel)
                if m is not None:
                    qn = next((g.qualname for g in m.all_funcs if not isinstance(g.node, __import__("ast").Lambda) and
                               g.node.lineno <= line <= (g.node.end_lineno or line)), qn)
        rr.ob(rel, qn, kind, st, VIOLATED, f"{n} of {stats['inputs']} field types, smallest: {wit}" + (f" ({where})" if where else ""),
              line, witness=[f"optimize_type({wit.split(' -> ')[0]})"] + [f"-> {x}" for x in wit.split(' -> ')[1:]])
    return rr
