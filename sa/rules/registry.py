"""C05 rules: REG-1..4 (registry write discipline, retarget on unregister, snapshot iteration, merge reporting),
CMP-1/2 (comparators OR-ed over all configured, inclusive thresholds)."""
from __future__ import annotations

import ast
from typing import Dict, List, Optional, Set, Tuple

from ..ctx import Ctx
from ..effects import MUTATORS
from ..model import AnalysisError, ClassInfo, FuncInfo, attr_chain, norm, walk_no_nested
from ..report import ALLOWED, DISCHARGED, VIOLATED, RuleResult
from ..util import (all_defs, enclosing_block, enclosing_loop, enclosing_stmt, follows_unconditionally, has_escape,
                    names_in, single_def, strip_snapshot, top_stmt_in)

REG = ("json_to_models/registry.py", "ModelRegistry")
SIZE_MUTATORS = MUTATORS - {"sort", "reverse", "move_to_end"}


def _registry_attr(ctx: Ctx) -> str:
    """The attribute holding the index -> model mapping: the one returned by the `models_map` property."""
    c = ctx.prog.cls(*REG)
    mm = ctx.prog.lookup_method(c, "models_map")
    if not mm:
        raise AnalysisError("REG: ModelRegistry.models_map vanished")
    for n in walk_no_nested(mm[0].node):
        if isinstance(n, ast.Return) and isinstance(n.value, ast.Attribute) and norm(n.value.value) == "self":
            return n.value.attr
    raise AnalysisError("REG: cannot determine the registry attribute from models_map")


def _calls_to(ctx: Ctx, fi: FuncInfo, targets: Set[FuncInfo]) -> List[ast.Call]:
    out = []
    for n in walk_no_nested(fi.node):
        if isinstance(n, ast.Call):
            for t in ctx.cg.resolve_call(fi, fi.module, n):
                if isinstance(t, FuncInfo) and t in targets:
                    out.append(n)
                    break
    return out


def rule_reg12(ctx: Ctx) -> RuleResult:
    rr = RuleResult("REG-1/2", "a model leaves the registry only together with retargeting of every reference to it",
                    floor=4)
    prog = ctx.prog
    c = prog.cls(*REG)
    attr = _registry_attr(ctx)
    ef = ctx.effects
    removers: Set[FuncInfo] = set()
    adders: Set[FuncInfo] = set()
    for f in prog.all_funcs():
        for w in ef.direct_writes(f):
            ch = w.path
            if not (ch.startswith(f"self.{attr}") or f".{attr}" in ch):
                continue
            rr.instances += 1
            is_remove = w.kind == "del" or isinstance(w.node, ast.Delete) or (
                w.kind == "mutcall" and w.path.split(".")[-1] in ("pop", "clear", "popitem", "remove", "discard")) or (
                w.kind == "attr" and f.name != "__init__")
            in_cls = ef._owner(f) is not None and c in prog.mro(ef._owner(f))
            if not in_cls:
                rr.ob(f.relpath, f.qualname, w.path, "the registry mapping is written only by ModelRegistry itself",
                      VIOLATED, "written from outside the class", w.line)
                continue
            if is_remove:
                removers.add(f)
            else:
                adders.add(f)
            rr.ob(f.relpath, f.qualname, w.path, "the registry mapping is written only by ModelRegistry itself",
                  DISCHARGED, "remover (call sites checked by REG-2)" if is_remove else "adds / initialises an entry",
                  w.line, trivial=True)
    if not removers or not adders:
        raise AnalysisError(f"REG-1: expected an unregister and a register function writing self.{attr}")
    # transitive removers: functions that only forward to a remover with their own parameter are removers too
    rr.analysed.append("removers: " + ", ".join(sorted(f.qualname for f in removers)))
    # REG-2 at each call site of a remover
    pointer_attrs = _pointer_attrs(ctx)
    for f in sorted(prog.all_funcs(), key=lambda x: x.key):
        for call in _calls_to(ctx, f, removers):
            rr.instances += 1
            mod = f.module
            st = ("after a model is unregistered, in the same iteration and on every path, all pointers to it are "
                  "retargeted to the replacement, all child references re-parented, and the replacement is registered")
            loop = enclosing_loop(mod, call)
            arg = call.args[0] if call.args else None
            if loop is None or not isinstance(loop, ast.For) or arg is None or not isinstance(arg, ast.Name) or \
                    arg.id not in names_in(loop.target):
                rr.ob(f.relpath, f.qualname, norm(call), st, VIOLATED,
                      "unregister outside the per-model loop of a merge: nothing ties it to a retarget of that model's "
                      "references", call.lineno)
                continue
            var = arg.id
            body = loop.body
            problems = []
            found = {}
            new_names = set()
            for role, (pattr, meth) in pointer_attrs.items():
                ok = False
                for st_ in body:
                    for lp in ast.walk(st_):
                        if isinstance(lp, ast.For):
                            inner, snap = strip_snapshot(lp.iter)
                            if norm(inner) == f"{var}.{pattr}":
                                lv = lp.target.id if isinstance(lp.target, ast.Name) else None
                                calls = [x for b in lp.body for x in ast.walk(b) if isinstance(x, ast.Call)
                                         and isinstance(x.func, ast.Attribute) and x.func.attr == meth
                                         and norm(x.func.value) == lv and x.args]
                                if calls and not has_escape(lp.body) and follows_unconditionally(body, call, lp):
                                    ok = True
                                    found[role] = calls[0]
                                    new_names.add(norm(calls[0].args[0]))
                                    if not snap:
                                        problems.append(f"loop over {var}.{pattr} iterates the live set that "
                                                        f"{meth}() shrinks (no snapshot)")
                if not ok:
                    problems.append(f"no unconditional loop over `{var}.{pattr}` calling `.{meth}(<new model>)` after "
                                    f"the unregister")
            if len(new_names) > 1:
                problems.append(f"pointers and child references are retargeted to different objects {sorted(new_names)}")
            new = next(iter(new_names)) if new_names else None
            # the loop covers every model that was merged and unregister is unconditional in it
            i = top_stmt_in(body, call)
            if i is None or not isinstance(body[i], ast.Expr) or has_escape(body[:i]):
                problems.append("the unregister call is conditional inside the loop (some merged model stays registered)")
            # register(new) post-dominates the loop
            if new is not None:
                regs = [x for x in _calls_to(ctx, f, adders) if x.args and norm(x.args[0]) == new]
                blk = enclosing_block(mod, loop)
                if not regs or blk is None or not any(follows_unconditionally(blk, loop, r) for r in regs):
                    problems.append(f"`{new}` is not registered unconditionally after the loop")
                # the replacement is built from the field sets of exactly the models iterated
                d = single_def(f, new)
                iter_src = norm(loop.iter)
                oksrc = False
                if isinstance(d, ast.Call) and d.args:
                    md = d.args[0]
                    mdv = single_def(f, md.id) if isinstance(md, ast.Name) else md
                    if isinstance(mdv, ast.Call) and mdv.args:
                        a0 = mdv.args[0]
                        if isinstance(a0, (ast.ListComp, ast.GeneratorExp)) and len(a0.generators) == 1 and \
                                norm(a0.generators[0].iter) == iter_src and not a0.generators[0].ifs and \
                                isinstance(a0.elt, ast.Attribute) and a0.elt.attr == "type" and \
                                norm(a0.elt.value) == norm(a0.generators[0].target):
                            oksrc = True
                if not oksrc:
                    problems.append(f"the replacement `{new}` is not built from `[m.type for m in {iter_src}]` - the "
                                    f"merged field sets and the unregistered models can differ")
            rr.ob(f.relpath, f.qualname, norm(call), st, VIOLATED if problems else DISCHARGED,
                  "; ".join(problems) if problems else
                  f"per-model loop over `{norm(loop.iter)}`: snapshot loops over .{pointer_attrs['in'][0]} -> "
                  f".{pointer_attrs['in'][1]}({new}) and .{pointer_attrs['child'][0]} -> .{pointer_attrs['child'][1]}"
                  f"({new}); register({new}) after the loop; {new} built from the same models' field sets", call.lineno)
    # pairing inside replace / replace_parent
    ptr = prog.cls("json_to_models/dynamic_typing/models_meta.py", "ModelPtr")
    for meth, (off, on, cell) in {"replace": ("disconnect", "connect", "type"),
                                  "replace_parent": ("remove_child_ref", "add_child_ref", "parent")}.items():
        ms = prog.lookup_method(ptr, meth)
        if not ms:
            raise AnalysisError(f"REG-2: ModelPtr.{meth} vanished")
        f = ms[0]
        rr.instances += 1
        body = f.node.body
        offs = [n for n in walk_no_nested(f.node) if isinstance(n, ast.Call) and isinstance(n.func, ast.Attribute)
                and n.func.attr == off and norm(n.func.value) == f"self.{cell}" and n.args and norm(n.args[0]) == "self"]
        ons = [n for n in walk_no_nested(f.node) if isinstance(n, ast.Call) and isinstance(n.func, ast.Attribute)
               and n.func.attr == on and norm(n.func.value) == f"self.{cell}" and n.args and norm(n.args[0]) == "self"]
        # the retarget itself: assignment to self.<cell> or super().replace(t)
        sets = [n for n in walk_no_nested(f.node) if (isinstance(n, ast.Assign) and any(
            norm(t) == f"self.{cell}" for t in n.targets)) or (isinstance(n, ast.Call) and norm(n.func).startswith("super()")
                                                               and norm(n.func).endswith(".replace"))]
        # after `self.<cell> = t` the new owner may as well be addressed by the name it was assigned from
        for st_ in sets:
            if isinstance(st_, ast.Assign) and isinstance(st_.value, ast.Name) and not any(
                    isinstance(x, ast.Name) and x.id == st_.value.id and isinstance(x.ctx, ast.Store) for x in walk_no_nested(f.node)):
                ons += [n for n in walk_no_nested(f.node) if isinstance(n, ast.Call) and isinstance(n.func, ast.Attribute)
                        and n.func.attr == on and norm(n.func.value) == st_.value.id and n.args and norm(n.args[0]) == "self"
                        and n.lineno > st_.lineno]
        ok = bool(offs and ons and sets) and follows_unconditionally(body, offs[0], sets[0]) and \
            follows_unconditionally(body, sets[0], ons[0])
        rr.ob(f.relpath, f.qualname, f"{off} -> set {cell} -> {on}",
              f"`{meth}` detaches the pointer from the old {cell} before, and attaches it to the new one after, the "
              f"retarget, unconditionally", DISCHARGED if ok else VIOLATED,
              "ordered, unconditional triple found" if ok else
              f"missing or mis-ordered: {off}={len(offs)} set={len(sets)} {on}={len(ons)}", f.node.lineno)
    return rr


def _pointer_attrs(ctx: Ctx) -> Dict[str, Tuple[str, str]]:
    """{'in': (pointers attr, retarget method), 'child': (child pointers attr, re-parent method)} read off ModelMeta."""
    mm = ctx.prog.cls("json_to_models/dynamic_typing/models_meta.py", "ModelMeta")
    out = {}
    for role, adder, meth in (("in", "connect", "replace"), ("child", "add_child_ref", "replace_parent")):
        ms = ctx.prog.lookup_method(mm, adder)
        if not ms:
            raise AnalysisError(f"REG-2: ModelMeta.{adder} vanished")
        attr = None
        for n in walk_no_nested(ms[0].node):
            if isinstance(n, ast.Call) and isinstance(n.func, ast.Attribute) and n.func.attr == "add":
                ch = attr_chain(n.func.value)
                if ch and ch[0] == "self" and len(ch) == 2:
                    attr = ch[1]
        if attr is None:
            raise AnalysisError(f"REG-2: cannot read the pointer set attribute from ModelMeta.{adder}")
        out[role] = (attr, meth)
    return out


# ---------------------------------------------------------------------------------------------------------------
def _size_mutated_attrs(ctx: Ctx) -> Dict[str, Set[str]]:
    """func key -> attribute / local names whose container size the function may change (transitively)."""
    ef = ctx.effects
    direct: Dict[str, Set[str]] = {}
    funcs = list(ctx.prog.all_funcs())
    for f in funcs:
        s: Set[str] = set()
        for w in ef.direct_writes(f):
            name = None
            if w.kind == "mutcall":
                meth = w.path.split(".")[-1]
                if meth not in SIZE_MUTATORS:
                    continue
                ch = attr_chain(w.node.func.value) if isinstance(w.node, ast.Call) else None
                if ch:
                    name = ch[-1]
            elif w.kind in ("item",) or isinstance(w.node, ast.Delete):
                tg = []
                if isinstance(w.node, ast.Assign):
                    tg = w.node.targets
                elif isinstance(w.node, (ast.AugAssign, ast.AnnAssign)):
                    tg = [w.node.target]
                elif isinstance(w.node, ast.Delete):
                    tg = w.node.targets
                for t in tg:
                    if isinstance(t, ast.Subscript):
                        ch = attr_chain(t.value)
                        if ch:
                            name = ch[-1]
                            if isinstance(w.node, ast.Assign) and _key_is_loop_var_of_same(f, t):
                                name = None
            if name:
                s.add(name)
        direct[f.key] = s
    trans = {k: set(v) for k, v in direct.items()}
    changed = True
    while changed:
        changed = False
        for f in funcs:
            for g in ctx.cg.callees(f, byname=True):
                add = trans.get(g.key, set()) - trans[f.key]
                if add:
                    trans[f.key] |= add
                    changed = True
    return trans


def _key_is_loop_var_of_same(f: FuncInfo, sub: ast.Subscript) -> bool:
    """`d[k] = v` inside `for k, ... in d.items()/d/keys()`: replaces a value, never changes the size."""
    mod = f.module
    lp = enclosing_loop(mod, sub)
    while lp is not None:
        if isinstance(lp, ast.For):
            it = lp.iter
            base = it.func.value if isinstance(it, ast.Call) and isinstance(it.func, ast.Attribute) and it.func.attr in (
                "items", "keys") else it
            if norm(base) == norm(sub.value) and isinstance(sub.slice, ast.Name) and sub.slice.id in names_in(lp.target):
                return True
        lp = enclosing_loop(mod, lp)
    return False


def rule_reg3(ctx: Ctx) -> RuleResult:
    rr = RuleResult("REG-3", "no loop iterates a collection that its own body resizes, unless over a snapshot", floor=2)
    trans = _size_mutated_attrs(ctx)
    prop_backing: Dict[str, str] = {}
    for f in ctx.prog.all_funcs():
        if f.is_property and f.cls is not None:
            for n in walk_no_nested(f.node):
                if isinstance(n, ast.Return) and n.value is not None:
                    v = n.value
                    if isinstance(v, ast.Call) and isinstance(v.func, ast.Attribute) and v.func.attr in ("values", "keys", "items"):
                        v = v.func.value
                    ch = attr_chain(v)
                    if ch and ch[0] == "self" and len(ch) == 2:
                        prop_backing[f.name] = ch[1]
    for f in sorted(ctx.prog.all_funcs(), key=lambda x: x.key):
        for lp in walk_no_nested(f.node):
            if not isinstance(lp, ast.For):
                continue
            it = lp.iter
            while isinstance(it, ast.Call) and norm(it.func) in ("enumerate", "reversed", "iter", "zip") and it.args:
                it = it.args[0]
            inner, snap = strip_snapshot(it)
            if isinstance(inner, ast.Call) and isinstance(inner.func, ast.Attribute) and inner.func.attr in (
                    "items", "keys", "values") and not inner.args:
                inner = inner.func.value
            ch = attr_chain(inner)
            if not ch:
                continue
            ident = prop_backing.get(ch[-1], ch[-1])
            # what does the body resize?  locals are matched by name, attributes by attribute name
            is_local = len(ch) == 1
            resized: Set[str] = set()
            via = {}

            def note(c2, how, transitive=False):
                if not c2:
                    return
                if transitive:
                    if not is_local:
                        resized.add(c2[-1])
                        via.setdefault(c2[-1], how)
                    return
                if (len(c2) == 1) == is_local:
                    resized.add(c2[-1])
                    via.setdefault(c2[-1], how)

            for st in lp.body:
                for n in ast.walk(st):
                    if isinstance(n, ast.Call):
                        if isinstance(n.func, ast.Attribute) and n.func.attr in SIZE_MUTATORS:
                            note(attr_chain(n.func.value), norm(n.func))
                        for t in ctx.cg.resolve_call(f, f.module, n):
                            tf = t[1] if isinstance(t, tuple) and t[0] == "byname" else t
                            if isinstance(tf, FuncInfo):
                                for a in trans.get(tf.key, ()):
                                    note([None, a], f"{norm(n.func)}() -> {tf.qualname}", True)
                            elif isinstance(tf, ClassInfo):
                                for init in ctx.prog.lookup_method(tf, "__init__"):
                                    for a in trans.get(init.key, ()):
                                        note([None, a], f"{norm(n.func)}() -> {init.qualname}", True)
                    elif isinstance(n, ast.Delete):
                        for t in n.targets:
                            if isinstance(t, ast.Subscript):
                                note(attr_chain(t.value), norm(t))
                    elif isinstance(n, ast.Assign):
                        for t in n.targets:
                            if isinstance(t, ast.Subscript) and not _key_is_loop_var_of_same(f, t):
                                c2 = attr_chain(t.value)
                                if c2 and len(c2) > 1:
                                    note(c2, norm(t))
            if ident not in resized:
                continue
            rr.instances += 1
            st_ = f"the body resizes `{ident}` (via {via.get(ident)}); the loop must iterate a snapshot"
            rr.ob(f.relpath, f.qualname, f"for {norm(lp.target)} in {norm(lp.iter)}", st_,
                  DISCHARGED if snap else VIOLATED,
                  "iterates tuple()/list()/slice copy" if snap else
                  "iterates the live collection: elements are skipped or RuntimeError is raised once it changes size",
                  lp.lineno)
    return rr


def rule_reg4(ctx: Ctx) -> RuleResult:
    rr = RuleResult("REG-4", "every merge is reported with its group in the returned replacement list", floor=1)
    prog = ctx.prog
    mm = prog.func("json_to_models/registry.py", "ModelRegistry.merge_models")
    merge = set(prog.lookup_method(prog.cls(*REG), "_merge"))
    calls = _calls_to(ctx, mm, merge)
    if not calls:
        raise AnalysisError("REG-4: merge_models no longer calls _merge")
    rets = [n for n in walk_no_nested(mm.node) if isinstance(n, ast.Return) and n.value is not None]
    for call in calls:
        rr.instances += 1
        st = enclosing_stmt(mm.module, call)
        loop = enclosing_loop(mm.module, call)
        res = st.targets[0].id if isinstance(st, ast.Assign) and isinstance(st.targets[0], ast.Name) else None
        ok = False
        why = "result of _merge is not bound to a name"
        if res and isinstance(loop, ast.For):
            lv = names_in(loop.target)
            for n in ast.walk(loop):
                if isinstance(n, ast.Call) and isinstance(n.func, ast.Attribute) and n.func.attr == "append" and n.args:
                    a = n.args[0]
                    if isinstance(a, ast.Tuple) and res in names_in(a) and (names_in(a) & lv) and \
                            follows_unconditionally(loop.body, call, n) and \
                            any(norm(r.value) == norm(n.func.value) for r in rets):
                        ok = True
            why = f"no unconditional `<returned list>.append(({res}, <group>))` in the merge loop"
        rr.ob(mm.relpath, mm.qualname, norm(call)[:70], "each merged model and its group are appended to the list the "
              "function returns", DISCHARGED if ok else VIOLATED, "appended unconditionally and returned" if ok else why,
              call.lineno)
    return rr


# ---------------------------------------------------------------------------------------------------------------
def rule_cmp1(ctx: Ctx) -> RuleResult:
    rr = RuleResult("CMP-1", "two models are similar iff ANY configured comparator accepts their key sets", floor=2)
    prog = ctx.prog
    c = prog.cls(*REG)
    f = prog.func("json_to_models/registry.py", "ModelRegistry._models_cmp_fn")
    params = [p for p in f.params if p != "self"]
    rets = [n for n in walk_no_nested(f.node) if isinstance(n, ast.Return) and n.value is not None]
    rr.instances += 1
    ok = False
    why = "return value is not any(<comparator>.cmp(A, B) for <comparator> in <all configured>)"
    if len(rets) == 1 and isinstance(rets[0].value, ast.Call) and norm(rets[0].value.func) == "any" and rets[0].value.args:
        g = rets[0].value.args[0]
        if isinstance(g, (ast.GeneratorExp, ast.ListComp)) and len(g.generators) == 1:
            gen = g.generators[0]
            src = norm(gen.iter)
            whole = src.startswith("self.") and not gen.ifs and isinstance(gen.iter, ast.Attribute)
            # the attribute must be the one assigned from the constructor's *models_cmp
            el = g.elt
            if whole and isinstance(el, ast.Call) and isinstance(el.func, ast.Attribute) and \
                    norm(el.func.value) == norm(gen.target) and len(el.args) == 2:
                srcs = []
                for a in el.args:
                    v = single_def(f, a.id) if isinstance(a, ast.Name) else a
                    srcs.append(norm(v) if v is not None else "?")
                want = {f"set({p}.type.keys())" for p in params} | {f"set({p}.type)" for p in params}
                if len(params) == 2 and len(set(srcs)) == 2 and all(s in want for s in srcs) and \
                        {s.split("(")[1].split(".")[0] for s in srcs} == set(params):
                    ok = True
                else:
                    why = f"comparator arguments are {srcs}, expected the key sets of both different models"
            else:
                why = f"comparators iterated: `{src}` (filtered={bool(gen.ifs)})"
    else:
        if rets and isinstance(rets[0].value, ast.Call):
            why = f"aggregated with `{norm(rets[0].value.func)}` instead of any()"
    rr.ob(f.relpath, f.qualname, norm(rets[0].value) if rets else "return", "similarity = OR over all configured "
          "comparators applied to the two models' key sets", DISCHARGED if ok else VIOLATED,
          "any() over the whole comparator tuple, on set(a.type.keys()) and set(b.type.keys())" if ok else why,
          f.node.lineno)
    # the comparators consulted are the ones configured, all of them, as given
    init = prog.func("json_to_models/registry.py", "ModelRegistry.__init__")
    rr.instances += 1
    asg = [n for n in walk_no_nested(init.node) if isinstance(n, ast.Assign) and norm(n.targets[0]) == "self._models_cmp"]
    vararg = init.node.args.vararg.arg if init.node.args.vararg else None
    ok0 = len(asg) == 1 and norm(asg[0].value) in (f"{vararg} or self.DEFAULT_MODELS_CMP", f"{vararg} if {vararg} else self.DEFAULT_MODELS_CMP",
                                                   f"tuple({vararg}) or self.DEFAULT_MODELS_CMP", f"list({vararg}) or self.DEFAULT_MODELS_CMP")
    rr.ob(init.relpath, init.qualname, norm(asg[0]) if asg else "self._models_cmp = ...", "the registry keeps exactly the "
          "comparators it was given (the documented defaults if none)", DISCHARGED if ok0 else VIOLATED,
          "stored as given" if ok0 else "the configured comparators are filtered / de-duplicated / transformed before use: a pair "
          "accepted only by a dropped comparator is no longer merged", init.node.lineno)
    # the pairwise relation covers all pairs and is recorded symmetrically
    mm = prog.func("json_to_models/registry.py", "ModelRegistry.merge_models")
    rr.instances += 1
    ok2 = False
    why2 = "no loop over combinations(<all models>, 2) guarded by the comparator"
    all_models = ("self.models", f"self.{_registry_attr(ctx)}.values()")

    def _is_all_pairs(e) -> bool:
        return isinstance(e, ast.Call) and norm(e.func).endswith("combinations") and len(e.args) == 2 and \
            norm(e.args[1]) == "2" and norm(e.args[0]) in all_models

    def _is_cmp_call(fi, test, tv) -> bool:
        return isinstance(test, ast.Call) and f in [t for t in ctx.cg.resolve_call(fi, fi.module, test) if isinstance(t, FuncInfo)] \
            and [norm(a_) for a_ in test.args] in ([tv[0], tv[1]], [tv[1], tv[0]])

    def _filtered_pairs(fi, e, depth=0) -> bool:
        """`e` yields exactly the pairs of all models the comparator accepts."""
        if isinstance(e, (ast.ListComp, ast.GeneratorExp)) and len(e.generators) == 1:
            g0 = e.generators[0]
            tv_ = [x.id for x in g0.target.elts] if isinstance(g0.target, ast.Tuple) and all(
                isinstance(x, ast.Name) for x in g0.target.elts) else []
            return _is_all_pairs(g0.iter) and len(tv_) == 2 and len(g0.ifs) == 1 and _is_cmp_call(fi, g0.ifs[0], tv_) and \
                isinstance(e.elt, ast.Tuple) and sorted(norm(x) for x in e.elt.elts) == sorted(tv_)
        if isinstance(e, ast.Call) and norm(e.func) in ("list", "tuple", "iter") and e.args:
            return _filtered_pairs(fi, e.args[0], depth)
        if isinstance(e, ast.Call) and depth < 2:
            for t in ctx.cg.resolve_call(fi, fi.module, e):
                if isinstance(t, FuncInfo) and t.cls is mm.cls:
                    rets = [r_ for r_ in walk_no_nested(t.node) if isinstance(r_, ast.Return) and r_.value is not None]
                    if len(rets) == 1 and _filtered_pairs(t, rets[0].value, depth + 1):
                        return True
        return False

    for lp in walk_no_nested(mm.node):
        if not isinstance(lp, ast.For):
            continue
        tv = [e.id for e in lp.target.elts] if isinstance(lp.target, ast.Tuple) and all(
            isinstance(e, ast.Name) for e in lp.target.elts) else []
        if len(tv) != 2:
            continue
        body = None
        if _is_all_pairs(lp.iter) and len(lp.body) == 1 and isinstance(lp.body[0], ast.If) and not lp.body[0].orelse and \
                _is_cmp_call(mm, lp.body[0].test, tv):
            body = lp.body[0].body
        elif _filtered_pairs(mm, lp.iter):
            body = lp.body
        if body is not None:
            adds = [norm(s_) for s_ in body]
            a, b = tv
            def _rec(x, y):
                # D[x].add(y), or the same insertion through update / |= with a one-element display
                forms = (f"[{x}].add({y})", f"[{x}].update(({y},))", f"[{x}].update([{y}])", f"[{x}].update({{{y}}})", f"[{x}] |= {{{y}}}")
                return any(fm in s_ for s_ in adds for fm in forms)
            sym = _rec(a, b) and _rec(b, a)
            ok2 = sym
            why2 = "pair not recorded in both directions" if not sym else ""
    rr.ob(mm.relpath, mm.qualname, "for a, b in combinations(self.models, 2)", "every unordered pair of registered "
          "models is tested once and a match is recorded for both members", DISCHARGED if ok2 else VIOLATED,
          "all pairs, symmetric recording" if ok2 else why2, mm.node.lineno)
    return rr


def _norm_cmp(test: ast.AST):
    """Normalise a comparison to (measure text, op in {'>=','>','==',...}, threshold text) with measure on the left."""
    neg = False
    while isinstance(test, ast.UnaryOp) and isinstance(test.op, ast.Not):
        neg = not neg
        test = test.operand
    if not isinstance(test, ast.Compare) or len(test.ops) != 1:
        return None
    ops = {ast.GtE: ">=", ast.Gt: ">", ast.LtE: "<=", ast.Lt: "<", ast.Eq: "==", ast.NotEq: "!="}
    op = ops.get(type(test.ops[0]))
    if op is None:
        return None
    l, r = test.left, test.comparators[0]
    if neg:
        op = {">=": "<", ">": "<=", "<=": ">", "<": ">=", "==": "!=", "!=": "=="}[op]
    return l, op, r


def _flip(op):
    return {">=": "<=", ">": "<", "<=": ">=", "<": ">", "==": "==", "!=": "!="}[op]


def _set_op(e: ast.AST, opcls, a: str, b: str) -> bool:
    """len(a OP b) with commutative operands, or len(a.intersection(b)) / len(a.union(b))."""
    if not (isinstance(e, ast.Call) and norm(e.func) == "len" and len(e.args) == 1):
        return False
    x = e.args[0]
    if isinstance(x, ast.BinOp) and isinstance(x.op, opcls):
        return {norm(x.left), norm(x.right)} == {a, b}
    meth = {ast.BitAnd: "intersection", ast.BitOr: "union"}[opcls]
    if isinstance(x, ast.Call) and isinstance(x.func, ast.Attribute) and x.func.attr == meth and len(x.args) == 1:
        return {norm(x.func.value), norm(x.args[0])} == {a, b}
    return False


def rule_cmp2(ctx: Ctx) -> RuleResult:
    rr = RuleResult("CMP-2", "comparator thresholds are inclusive and measure shared keys", floor=3)
    prog = ctx.prog
    base = prog.cls("json_to_models/registry.py", "ModelCmp")
    subs = prog.subclasses(base, strict=True)
    if len(subs) < 3:
        raise AnalysisError("CMP-2: fewer than three comparator classes")
    # identify by the CLI's policy table
    cli = prog.cls("json_to_models/cli.py", "Cli")
    table = cli.assigns.get("MODEL_CMP_MAPPING")
    if not isinstance(table, ast.Dict):
        raise AnalysisError("CMP-2: Cli.MODEL_CMP_MAPPING is not a dict literal")
    policy: Dict[str, ClassInfo] = {}
    for k, v in zip(table.keys, table.values):
        name = k.value if isinstance(k, ast.Constant) else None
        tg = [t for t in ctx.cg.callable_values(None, cli.module, v) if isinstance(t, ClassInfo)]
        if name and tg:
            policy[name] = tg[0]
    for pol in ("percent", "number", "exact"):
        if pol not in policy:
            raise AnalysisError(f"CMP-2: merge policy `{pol}` not in MODEL_CMP_MAPPING")
        c = policy[pol]
        ms = c.methods.get("cmp")
        if not ms:
            raise AnalysisError(f"CMP-2: {c.qualname}.cmp vanished")
        f = ms[0]
        rr.instances += 1
        ps = [p for p in f.params if p != "self"]
        rets_all = [n for n in walk_no_nested(f.node) if isinstance(n, ast.Return) and n.value is not None]
        # the deciding return is the comparison; a constant answer is allowed only under a test for an empty union
        rets = [r_ for r_ in rets_all if not isinstance(r_.value, ast.Constant)]
        consts = [r_ for r_ in rets_all if isinstance(r_.value, ast.Constant)]
        if len(rets) != 1 or len(ps) != 2:
            rr.ob(f.relpath, f.qualname, "cmp", f"policy `{pol}`", VIOLATED, "unexpected shape (returns/params)", f.node.lineno)
            continue
        a, b = ps
        # locals bound to the union / intersection of the two arguments
        set_locals: Dict[str, ast.AST] = {}
        for n_ in walk_no_nested(f.node):
            if isinstance(n_, ast.Assign) and isinstance(n_.targets[0], ast.Name) and isinstance(n_.value, (ast.BinOp, ast.Call)):
                set_locals[n_.targets[0].id] = n_.value

        class _Inline(ast.NodeTransformer):
            def visit_Name(self, node):
                if isinstance(node.ctx, ast.Load) and node.id in set_locals:
                    return set_locals[node.id]
                return node
        import copy as _copy
        rets = [ast.Return(value=_Inline().visit(_copy.deepcopy(rets[0].value)), lineno=rets[0].lineno)]
        guard_ok = True
        for cr in consts:
            iff = f.module.parents.get(cr)
            t_ = _Inline().visit(_copy.deepcopy(iff.test)) if isinstance(iff, ast.If) else None
            def _is_union(e):
                return (isinstance(e, ast.BinOp) and isinstance(e.op, ast.BitOr) and {norm(e.left), norm(e.right)} == {a, b}) or (
                    isinstance(e, ast.Call) and isinstance(e.func, ast.Attribute) and e.func.attr == "union"
                    and {norm(e.func.value), norm(e.args[0]) if e.args else ""} == {a, b})
            emptiness = t_ is not None and (
                (isinstance(t_, ast.UnaryOp) and isinstance(t_.op, ast.Not) and (_is_union(t_.operand) or _set_op(t_.operand, ast.BitOr, a, b)))
                or (isinstance(t_, ast.Compare) and len(t_.ops) == 1 and isinstance(t_.ops[0], ast.Eq) and (
                    (_set_op(t_.left, ast.BitOr, a, b) and norm(t_.comparators[0]) == "0") or
                    (_is_union(t_.left) and norm(t_.comparators[0]) in ("set()", "frozenset()")))))
            if not emptiness:
                guard_ok = False
        if consts and not guard_ok:
            rr.ob(f.relpath, f.qualname, norm(consts[0]), f"policy `{pol}`", VIOLATED,
                  "a constant answer is returned under a condition other than `the union of both key sets is empty`", consts[0].lineno)
            continue
        has_empty_guard = bool(consts) and guard_ok
        nc = _norm_cmp(rets[0].value)
        text = norm(rets[0].value)
        if pol == "exact":
            ok = nc is not None and nc[1] == "==" and {norm(nc[0]), norm(nc[2])} == {a, b}
            rr.ob(f.relpath, f.qualname, text, "`exact`: the two key sets are equal", DISCHARGED if ok else VIOLATED,
                  "set equality of both arguments" if ok else "not an equality of the two key sets", rets[0].lineno)
            continue
        if nc is None:
            rr.ob(f.relpath, f.qualname, text, f"policy `{pol}`", VIOLATED, "not a single comparison", rets[0].lineno)
            continue
        l, op, r = nc
        # threshold side: self.<attr> assigned from the constructor parameter
        def is_thr(e):
            return isinstance(e, ast.Attribute) and norm(e.value) == "self"
        def measure_like(e):
            return any(isinstance(x, ast.BinOp) and isinstance(x.op, ast.BitAnd) for x in ast.walk(e)) or \
                any(isinstance(x, ast.Call) and isinstance(x.func, ast.Attribute) and x.func.attr == "intersection" for x in ast.walk(e))
        if (is_thr(l) and not is_thr(r)) or (measure_like(r) and not measure_like(l)):
            l, r, op = r, l, _flip(op)
        thr_ok = is_thr(r)
        if pol == "number":
            meas_ok = _set_op(l, ast.BitAnd, a, b)
            want = "|a ∩ b| >= n"
        else:
            meas_ok = isinstance(l, ast.BinOp) and isinstance(l.op, ast.Div) and _set_op(l.left, ast.BitAnd, a, b) \
                and _set_op(l.right, ast.BitOr, a, b)
            # cross-multiplied form |a ∩ b| >= p * |a ∪ b|: same relation over the reals, but the float product is rounded
            cross = False
            if not meas_ok and _set_op(l, ast.BitAnd, a, b) and isinstance(r, ast.BinOp) and isinstance(r.op, ast.Mult):
                fac = [r.left, r.right]
                thr = [x for x in fac if is_thr(x)]
                uni = [x for x in fac if _set_op(x, ast.BitOr, a, b)]
                if len(thr) == 1 and len(uni) == 1:
                    meas_ok = True
                    cross = True
                    r = thr[0]
                    thr_ok = True
            want = "|a ∩ b| / |a ∪ b| >= p"
            if cross:
                rr.instances += 1
                rr.ob(f.relpath, f.qualname, text, "a pair whose share of common keys is exactly the configured percentage is merged "
                      "(the threshold is inclusive)", VIOLATED,
                      "the threshold is multiplied into the union size: the float product is rounded up for some exact cases "
                      "(0.28 * 25 == 7.000000000000001 > 7, 0.07 * 100 > 7: 27 whole percentages with unions up to 200), so a pair "
                      "sitting exactly on the threshold is rejected; the quotient len(a & b) / len(a | b) is correctly rounded and "
                      "compares equal to the literal", rets[0].lineno)
        ok = thr_ok and meas_ok and op == ">="
        how = f"normal form `{norm(l)} {op} {norm(r)}`"
        divs = [x for x in ast.walk(rets[0].value) if isinstance(x, ast.BinOp) and isinstance(x.op, (ast.Div, ast.FloorDiv, ast.Mod))
                and isinstance(x.right, ast.Call) and norm(x.right.func) == "len"]
        if divs:
            rr.instances += 1
            rr.ob(f.relpath, f.qualname, norm(divs[0]), f"`{pol}` is defined for every pair of key sets, two empty ones included "
                  f"(two samples that are empty objects)", DISCHARGED if has_empty_guard else VIOLATED,
                  "the empty union is answered before the division" if has_empty_guard else
                  f"division by `{norm(divs[0].right)}`: two models without fields raise ZeroDivisionError and abort the merge "
                  f"(answer the empty union first)", rets[0].lineno)
        if not meas_ok:
            how += " - the measured quantity is not the documented one"
        elif op != ">=":
            how += " - the threshold is not inclusive in the documented direction"
        rr.ob(f.relpath, f.qualname, text, f"`{pol}`: {want} (README: models with at least that share/number of "
              f"matched field names merge)", DISCHARGED if ok else VIOLATED, how, rets[0].lineno)
        # the threshold attribute is the constructor argument, unchanged
        init = c.methods.get("__init__")
        if init and thr_ok:
            rr.instances += 1
            attr = r.attr
            asg = [n for n in walk_no_nested(init[0].node) if isinstance(n, ast.Assign) and norm(n.targets[0]) == f"self.{attr}"]
            ip = [p for p in init[0].params if p != "self"]
            ok2 = len(asg) == 1 and isinstance(asg[0].value, ast.Name) and asg[0].value.id in ip
            rr.ob(f.relpath, init[0].qualname, norm(asg[0]) if asg else f"self.{attr}", "the threshold is the "
                  "constructor argument as given", DISCHARGED if ok2 else VIOLATED,
                  "stored unchanged" if ok2 else "threshold is transformed or not stored", init[0].node.lineno)
    return rr


def rule_reg5(ctx: Ctx) -> RuleResult:
    """Similarity is evaluated once, on the key sets the models had when merging started."""
    rr = RuleResult("REG-5", "models are compared on their original key sets: one comparison pass, before anything is merged", floor=2)
    prog = ctx.prog
    c = prog.cls(*REG)
    mm = prog.lookup_method(c, "merge_models")
    mg = prog.lookup_method(c, "_merge")
    if not mm or not mg:
        raise AnalysisError("REG-5: merge_models / _merge vanished")
    f = mm[0]
    mod = f.module
    # (a) no re-entry: merge_models is not reachable from its own body
    rr.instances += 1
    seen: Set[str] = set()
    stack = [(f, None)]
    reentry = None
    first = True
    while stack and reentry is None:
        g, via = stack.pop()
        if g.key in seen:
            continue
        if not first:
            seen.add(g.key)
        for n in walk_no_nested(g.node):
            if isinstance(n, ast.Call):
                for t in ctx.cg.resolve_call(g, g.module, n):
                    if isinstance(t, FuncInfo) and t.relpath == f.relpath:
                        if t is f:
                            reentry = (g, n)
                        elif t.key not in seen:
                            stack.append((t, n))
        first = False
    st = ("two models end up in one class only through a chain of pairs similar on their ORIGINAL key sets; a merged model "
          "(union of its members' keys) is never compared again with the models that are left")
    if reentry:
        g, n = reentry
        rr.ob(g.relpath, g.qualname, norm(n)[:80], st, VIOLATED,
              f"`{norm(n)[:60]}` runs the merge again on the result: merged models take part in a second round of "
              f"comparisons with their enlarged key sets, and the reported replacements name models that no longer exist",
              n.lineno)
    else:
        rr.ob(f.relpath, f.qualname, "merge_models", st, DISCHARGED, "merge_models is not re-entered from its own call tree",
              f.node.lineno)
    # (b) inside one run: no comparator call is reachable after a merge
    rr.instances += 1
    def _is_cmp(n):
        if not (isinstance(n, ast.Call) and isinstance(n.func, ast.Attribute)):
            return False
        if "cmp" in n.func.attr.lower():
            return True
        # a helper method of the registry that itself calls the comparator
        for t in ctx.cg.resolve_call(f, mod, n):
            if isinstance(t, FuncInfo) and t.cls is c and t is not f and t is not mg[0] and any(
                    isinstance(x, ast.Call) and isinstance(x.func, ast.Attribute) and "cmp" in x.func.attr.lower()
                    for x in walk_no_nested(t.node)):
                return True
        return False
    cmp_calls = [n for n in walk_no_nested(f.node) if _is_cmp(n)]
    merge_calls = [n for n in walk_no_nested(f.node) if isinstance(n, ast.Call) and mg[0] in
                   [t for t in ctx.cg.resolve_call(f, mod, n) if isinstance(t, FuncInfo)]]
    if not cmp_calls or not merge_calls:
        raise AnalysisError(f"REG-5: comparator calls ({len(cmp_calls)}) or merge calls ({len(merge_calls)}) not found in merge_models")
    cfg = ctx.cfg(f)
    bad = None
    for m in merge_calls:
        reach = cfg.reachable_from(cfg.node_containing(m, mod.parents), labels_excluded=("exc",))
        for cc in cmp_calls:
            if cfg.node_containing(cc, mod.parents) in reach:
                bad = (m, cc)
    if bad:
        rr.ob(f.relpath, f.qualname, norm(bad[1])[:80], st, VIOLATED,
              f"`{norm(bad[1])[:50]}` can run after `{norm(bad[0])[:40]}`: models are compared after some were already merged",
              bad[1].lineno)
    else:
        rr.ob(f.relpath, f.qualname, norm(cmp_calls[0])[:80], st, DISCHARGED,
              "all comparisons happen before the first merge", cmp_calls[0].lineno)
    return rr
