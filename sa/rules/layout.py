"""C12 rules: LAY-1 (every model placed exactly once), LAY-2 (one class per structure entry, nested classes forwarded),
LAY-3 (nesting only from single-parent/single-root branches; flat layout never nests)."""
from __future__ import annotations

import ast
from typing import Dict, List, Optional, Set, Tuple

from ..ctx import Ctx
from ..model import AnalysisError, ClassInfo, FuncInfo, norm, walk_no_nested
from ..paths import enumerate_paths
from ..report import ALLOWED, DISCHARGED, VIOLATED, RuleResult
from ..util import enclosing_loop, names_in
from ..util import follows_unconditionally as follows_unconditionally_
from ..util import has_escape as has_escape_

ST = "json_to_models/models/structure.py"
PLACERS = {"append": 0, "insert": 1, "insert_before": 0, "insert_after": 0}


def _layout_loop(f: FuncInfo) -> ast.For:
    for n in walk_no_nested(f.node):
        if isinstance(n, ast.For) and norm(n.iter) == "models_map.items()":
            return n
    raise AnalysisError(f"LAY: per-model loop over models_map.items() not found in {f.qualname}")


def _table_name(f: FuncInfo) -> Tuple[str, bool]:
    """(name of the key -> structure entry table, built by one comprehension over models_map before the loop?)"""
    for n in walk_no_nested(f.node):
        if isinstance(n, (ast.Assign, ast.AnnAssign)):
            tg = n.targets[0] if isinstance(n, ast.Assign) else n.target
            if isinstance(tg, ast.Name) and isinstance(n.value, ast.DictComp) and norm(n.value.generators[0].iter) == "models_map.items()":
                return tg.id, True
    # fallback: the mapping indexed with the loop key inside the per-model loop
    lp = _layout_loop(f)
    kv = norm(lp.target.elts[0]) if isinstance(lp.target, ast.Tuple) else None
    cands: Dict[str, int] = {}
    for x in ast.walk(lp):
        if isinstance(x, ast.Subscript) and isinstance(x.value, ast.Name) and norm(x.slice) == kv:
            cands[x.value.id] = cands.get(x.value.id, 0) + 1
    if not cands:
        raise AnalysisError(f"LAY: cannot identify the structure table of {f.qualname}")
    return max(cands, key=cands.get), False


def rule_lay1(ctx: Ctx) -> RuleResult:
    rr = RuleResult("LAY-1", "each model's structure entry is placed into exactly one list on every path", floor=8)
    prog = ctx.prog
    # ListEx.insert_before raises before it inserts (so try/except counts once)
    lx = prog.func("json_to_models/models/utils.py", "ListEx.insert_before")
    rr.instances += 1
    raises = [n for n in walk_no_nested(lx.node) if isinstance(n, ast.Raise)]
    ins = [n for n in walk_no_nested(lx.node) if isinstance(n, ast.Call) and norm(n.func) == "self.insert"]
    ok = bool(raises) and bool(ins) and max(r.lineno for r in raises) < min(i.lineno for i in ins) and len(ins) == 1
    rr.ob(lx.relpath, lx.qualname, "raise ValueError ... self.insert(pos, value)", "insert_before either raises before "
          "touching the list or inserts exactly once", DISCHARGED if ok else VIOLATED,
          "raise precedes the single insert" if ok else "insert may happen before the raise / more than once", lx.node.lineno)
    for fname in ("compose_models", "compose_models_flat"):
        f = prog.func(ST, fname)
        lp = _layout_loop(f)
        table, prebuilt = _table_name(f)
        kv = norm(lp.target.elts[0]) if isinstance(lp.target, ast.Tuple) else None
        cur = {f"{table}[{kv}]"}
        for n in ast.walk(lp):
            if isinstance(n, ast.Assign) and isinstance(n.targets[0], ast.Name) and norm(n.value) == f"{table}[{kv}]":
                cur.add(n.targets[0].id)
        # the table is complete before the loop and never rewritten inside it
        rr.instances += 1
        writes = [n for st in lp.body for n in ast.walk(st) if (isinstance(n, ast.Assign) and any(
            isinstance(t, ast.Subscript) and norm(t.value) == table for t in n.targets)) or (
            isinstance(n, ast.Call) and isinstance(n.func, ast.Attribute) and norm(n.func.value) == table
            and n.func.attr in ("setdefault", "update", "pop", "clear", "__setitem__"))]
        rr.ob(f.relpath, f.qualname, f"{table} = {{key: entry for key, model in models_map.items()}}",
              "every model has one structure entry, created before placement starts and never replaced (children attached "
              "to a parent's entry must still be there when the parent itself is placed)",
              VIOLATED if writes or not prebuilt else DISCHARGED,
              (f"`{norm(writes[0])[:60]}` rewrites the table inside the placement loop: an entry that already received "
               f"children can be replaced by a fresh one" if writes else
               "the table is not built up front by one comprehension over models_map") if writes or not prebuilt else
              "built once, read-only in the loop", lp.lineno)
        paths = enumerate_paths(lp.body)
        n_ok = 0
        for p in paths:
            if p.exit == "raise":
                continue
            rr.instances += 1
            count = 0
            where = []
            for s in p.stmts():
                for x in ast.walk(s):
                    if isinstance(x, ast.Call) and isinstance(x.func, ast.Attribute) and x.func.attr in PLACERS:
                        idx = PLACERS[x.func.attr]
                        if len(x.args) > idx and norm(x.args[idx]) in cur:
                            count += 1
                            where.append(norm(x.func))
            # try-body statements before the raising call are not on the handler path in this enumeration; the
            # handler path therefore counts only the handler's own insert
            ok = count == 1
            n_ok += ok
            rr.ob(f.relpath, f.qualname, p.describe()[:120], "the current model's entry is inserted into exactly one list",
                  DISCHARGED if ok else VIOLATED, f"placed by {where}" if ok else
                  (f"no placement on this path: the model's class is never emitted" if count == 0 else
                   f"placed {count} times ({where}): the class is emitted more than once"), lp.lineno)
    return rr


def rule_lay2(ctx: Ctx) -> RuleResult:
    rr = RuleResult("LAY-2", "one generator and one class text per structure entry; nested classes are forwarded", floor=4)
    prog = ctx.prog
    g = prog.func("json_to_models/models/base.py", "_generate_code")
    mod = g.module
    # helper functions of the renderer: module-level functions reachable from _generate_code inside base.py
    helpers = [g]
    stack = [g]
    while stack:
        f0 = stack.pop()
        for n in walk_no_nested(f0.node):
            if isinstance(n, ast.Call) and isinstance(n.func, ast.Name) and n.func.id in mod.functions:
                h = mod.functions[n.func.id]
                if h not in helpers and h.name not in ("generate_code", "template", "sort_kwargs", "prepare_label"):
                    helpers.append(h)
                    stack.append(h)

    def binder_of(f0, node):
        """(iterated expression, target, filtered?, conditional?) of the innermost loop / comprehension around node."""
        p = f0.module.parents.get(node)
        cond = False
        while p is not None and p is not f0.node:
            if isinstance(p, (ast.If, ast.IfExp, ast.Try, ast.While)):
                cond = True
            if isinstance(p, (ast.ListComp, ast.GeneratorExp)):
                gen = p.generators[0]
                return gen.iter, gen.target, bool(gen.ifs) or len(p.generators) > 1, cond
            if isinstance(p, ast.For):
                return p.iter, p.target, has_escape_(p.body), cond
            p = f0.module.parents.get(p)
        return None, None, False, cond

    # (1) one generator per structure entry
    ctors = [(f0, n) for f0 in helpers for n in walk_no_nested(f0.node) if isinstance(n, ast.Call) and isinstance(n.func, ast.Name)
             and n.func.id in f0.params and "generator" in n.func.id and n.args and norm(n.args[0]).endswith("['model']")]
    rr.instances += 1
    ok = False
    why = f"{len(ctors)} generator constructions found"
    if len(ctors) == 1:
        f0, c = ctors[0]
        it, tg, filt, cond = binder_of(f0, c)
        dv = norm(c.args[0])[:-len("['model']")]
        star = any(kw.arg is None for kw in c.keywords)
        ok = it is not None and norm(it) == f0.params[0] and norm(tg) == dv and not filt and not cond and star
        why = f"in {f0.name}: iterates `{norm(it) if it is not None else '?'}`, filtered={filt}, conditional={cond}, options forwarded={star}"
        # (1b) recursion over the entry's nested list with the same generator class and options
        recs = [n for n in walk_no_nested(f0.node) if isinstance(n, ast.Call) and isinstance(n.func, ast.Name)
                and n.func.id in mod.functions and n.args and norm(n.args[0]) == f"{dv}['nested']"]
        fwd = bool(recs) and all([norm(a) for a in r.args[1:3]] == f0.params[1:3] for r in recs)
        if not fwd:
            ok = False
            why += "; the recursion over entry['nested'] does not forward the generator class and its options (nested classes " \
                   "would be rendered with default options)"
    rr.ob(g.relpath, g.qualname, "one generator per structure entry", "for every structure entry exactly one generator is "
          "created for its model, unconditionally, with the configured options - at every nesting level", DISCHARGED if ok else VIOLATED,
          why, g.node.lineno)
    # (2) each generator renders once, with the texts of its nested classes, and its text is appended once
    renders = [(f0, n) for f0 in helpers for n in walk_no_nested(f0.node) if isinstance(n, ast.Call)
               and isinstance(n.func, ast.Attribute) and n.func.attr == "generate"]
    rr.instances += 1
    ok = False
    why = f"{len(renders)} render calls found"
    if len(renders) == 1:
        f0, c = renders[0]
        it, tg, filt, cond = binder_of(f0, c)
        nested_arg = norm(c.args[0]) if c.args else None
        # the nested texts come from rendering the nested entries (loop target component or result of the recursion)
        from_target = tg is not None and nested_arg in names_in(tg)
        from_rec = any(isinstance(n, ast.Assign) and isinstance(n.targets[0], ast.Tuple) and nested_arg in names_in(n.targets[0])
                       and isinstance(n.value, ast.Call) and isinstance(n.value.func, ast.Name) and n.value.func.id in mod.functions
                       for n in walk_no_nested(f0.node))
        st_ = f0.module.parents.get(c)
        res = None
        while st_ is not None and not isinstance(st_, ast.stmt):
            st_ = f0.module.parents.get(st_)
        if isinstance(st_, ast.Assign) and isinstance(st_.targets[0], ast.Tuple):
            res = norm(st_.targets[0].elts[1])
        apps = [n for n in walk_no_nested(f0.node) if isinstance(n, ast.Call) and isinstance(n.func, ast.Attribute)
                and n.func.attr == "append" and n.args and norm(n.args[0]) == res]
        fresh = True
        if from_rec and not from_target and c.args and isinstance(c.args[0], ast.Name):
            # the texts handed over are the ones rendered for THIS entry: the only definition reaching the call is the
            # recursion over this entry's nested generators
            ds = ctx.defs_reaching(f0, c, nested_arg) or []
            fresh = len(ds) == 1 and isinstance(ds[0], ast.Assign) and isinstance(ds[0].value, ast.Call) and \
                isinstance(ds[0].value.func, ast.Name) and ds[0].value.func.id in mod.functions
        ok = (from_target or from_rec) and not filt and not cond and len(apps) == 1 and fresh
        why = f"in {f0.name}: nested texts passed={from_target or from_rec}, filtered={filt}, conditional={cond}, appended {len(apps)}x"
        if not fresh:
            why += (f"; `{nested_arg}` can still hold the texts rendered for an earlier entry when `{norm(c)[:40]}` runs "
                    f"(more than one definition reaches the call): a class without nested classes receives its sibling's")
    rr.ob(g.relpath, g.qualname, "one class text per generator", "every generator renders once, receives the texts of its "
          "nested classes, and its class text is appended once", DISCHARGED if ok else VIOLATED, why, g.node.lineno)
    # generate_code joins exactly those classes
    gc = prog.func("json_to_models/models/base.py", "generate_code")
    rr.instances += 1
    rets = [n for n in walk_no_nested(gc.node) if isinstance(n, ast.Return) and n.value is not None]
    ok = any("objects_delimiter.join(classes)" in norm(r.value) for r in rets)
    rr.ob(gc.relpath, gc.qualname, "objects_delimiter.join(classes)", "the module text joins exactly the class texts of the "
          "root entries", DISCHARGED if ok else VIOLATED, "join over classes" if ok else "classes are filtered/altered", gc.node.lineno)
    # every generate() implementation forwards nested_classes to the base renderer, which indents and emits them
    base = prog.cls("json_to_models/models/base.py", "GenericModelCodeGenerator")
    for k in prog.subclasses(base):
        for f in k.methods.get("generate", []):
            rr.instances += 1
            if k is base:
                t = norm(f.node)
                def _indented_all(n) -> bool:
                    # data['nested'] = [indent(x) for x in nested_classes]  (any variable; a list, tuple or generator of them)
                    if not (isinstance(n, ast.Assign) and norm(n.targets[0]) == "data['nested']"):
                        return False
                    v = n.value
                    if isinstance(v, ast.Call) and norm(v.func) in ("list", "tuple") and len(v.args) == 1:
                        v = v.args[0]
                    return isinstance(v, (ast.ListComp, ast.GeneratorExp)) and len(v.generators) == 1 and not v.generators[0].ifs \
                        and norm(v.generators[0].iter) == "nested_classes" and isinstance(v.generators[0].target, ast.Name) \
                        and norm(v.elt) == f"indent({v.generators[0].target.id})"
                ok = any(_indented_all(n) for n in walk_no_nested(f.node)) and "self.BODY.render(**data)" in t
                rr.ob(f.relpath, f.qualname, "data['nested'] = [indent(s) for s in nested_classes]", "the base renderer puts "
                      "every nested class text, indented, into the class body", DISCHARGED if ok else VIOLATED,
                      "ok" if ok else "nested class texts are dropped or altered", f.node.lineno)
                continue
            calls = [c for c in walk_no_nested(f.node) if isinstance(c, ast.Call) and isinstance(c.func, ast.Attribute)
                     and c.func.attr == "generate"]
            ok = False
            for c in calls:
                kws = {kw.arg: norm(kw.value) for kw in c.keywords if kw.arg}
                pos = [norm(a) for a in c.args]
                if kws.get("nested_classes") == "nested_classes" or "nested_classes" in pos:
                    ok = True
            rr.ob(f.relpath, f.qualname, norm(calls[0])[:80] if calls else "generate", "the override hands its "
                  "nested_classes parameter on to the base renderer", DISCHARGED if ok else VIOLATED,
                  "forwarded" if ok else "nested_classes is a named parameter of the override and is not passed on: every "
                  "nested class disappears from this framework's nested layout", f.node.lineno)
    # the template iterates `nested`
    rr.instances += 1
    body = ctx.folder.try_fold(base.module, base.assigns.get("BODY"), base) if base.assigns.get("BODY") is not None else None
    ok = isinstance(body, str) and "for code in nested" in body and "{{ code }}" in body
    rr.ob(base.module.relpath, base.qualname, "BODY template", "the class template emits each nested class text",
          DISCHARGED if ok else VIOLATED, "{% for code in nested %} {{ code }}" if ok else "template does not render nested",
          base.node.lineno)
    return rr


def rule_lay3(ctx: Ctx) -> RuleResult:
    rr = RuleResult("LAY-3", "models are nested only under a single parent / single root; the flat layout never nests", floor=3)
    prog = ctx.prog
    f = prog.func(ST, "compose_models")
    lp = _layout_loop(f)
    for p in enumerate_paths(lp.body):
        nested_calls = [x for s in p.stmts() for x in ast.walk(s) if isinstance(x, ast.Call) and isinstance(x.func, ast.Attribute)
                        and x.func.attr in PLACERS and "nested" in norm(x.func.value)]
        if not nested_calls:
            continue
        rr.instances += 1
        conds = {norm(c): tv for c, tv in p.conds()}
        has_root = conds.get("has_root_pointers")
        single_root = conds.get("len(struct['roots']) == 1") is True
        multi_parent = conds.get("len(parents) > 1")
        ok = has_root is False and (single_root or multi_parent is False or conds.get("len(struct['roots']) > 1") is False)
        rr.ob(f.relpath, f.qualname, p.describe()[:120], "a model goes inside another class only if it is not referenced from "
              "the root level and has a single parent or a single root", DISCHARGED if ok else VIOLATED,
              f"has_root_pointers={has_root}, single root={single_root}, several parents={multi_parent}", lp.lineno)
    g = prog.func(ST, "compose_models_flat")
    rr.instances += 1
    touches = [n for n in walk_no_nested(g.node) if isinstance(n, ast.Subscript) and isinstance(n.slice, ast.Constant)
               and n.slice.value == "nested" and isinstance(n.ctx, ast.Load) and not isinstance(g.module.parents.get(n), ast.Dict)]
    rets = [n for n in walk_no_nested(g.node) if isinstance(n, ast.Return) and n.value is not None]
    ok = not touches and all(isinstance(r.value, ast.Tuple) and norm(r.value.elts[1]) == "{}" for r in rets)
    rr.ob(g.relpath, g.qualname, "return root_models, {}", "the flat layout nests nothing and injects no reference prefixes",
          DISCHARGED if ok else VIOLATED, "no use of entry['nested']; empty injection map" if ok else
          "flat layout touches nested lists or returns injections", g.node.lineno)
    # both layouts go through the same renderer (call-graph fact): the CLI table maps to exactly these two functions
    cli = prog.cls("json_to_models/cli.py", "Cli")
    rr.instances += 1
    tab = cli.assigns.get("STRUCTURE_FN_MAPPING")
    vals = sorted(norm(v) for v in tab.values) if isinstance(tab, ast.Dict) else []
    ok = vals == ["compose_models", "compose_models_flat"]
    rr.ob("json_to_models/cli.py", "Cli", f"STRUCTURE_FN_MAPPING -> {vals}", "both layouts are produced by these two functions "
          "and rendered by the same _generate_code", DISCHARGED if ok else VIOLATED, "as expected" if ok else "layout table changed",
          cli.node.lineno)
    return rr


def rule_imp4(ctx: Ctx) -> RuleResult:
    """IMP-4: imports returned by the recursion and by each generator are all accumulated into the returned list."""
    rr = RuleResult("IMP-4", "imports of nested classes and of each class reach the module's import block", floor=2)
    prog = ctx.prog
    g = prog.func("json_to_models/models/base.py", "_generate_code")
    # imports returned by the recursion and by each generator are all accumulated into the returned list
    mod = g.module
    helpers = [g]
    stack = [g]
    while stack:
        f0 = stack.pop()
        for n in walk_no_nested(f0.node):
            if isinstance(n, ast.Call) and isinstance(n.func, ast.Name) and n.func.id in mod.functions:
                h = mod.functions[n.func.id]
                if h not in helpers and h.name not in ("generate_code", "template", "sort_kwargs", "prepare_label"):
                    helpers.append(h)
                    stack.append(h)
    helper_names = {h.name for h in helpers}
    for fn in helpers:
        rets = [n for n in walk_no_nested(fn.node) if isinstance(n, ast.Return) and isinstance(n.value, ast.Tuple)]
        if not rets:
            continue
        acc = norm(rets[0].value.elts[0])
        for n in walk_no_nested(fn.node):
            if isinstance(n, ast.Assign) and isinstance(n.targets[0], ast.Tuple) and len(n.targets[0].elts) == 2 and \
                    isinstance(n.value, ast.Call):
                callee = norm(n.value.func).split(".")[-1]
                if callee not in helper_names | {"generate"}:
                    continue
                rr.instances += 1
                part = norm(n.targets[0].elts[0])
                from ..util import enclosing_block as _eb
                blk = _eb(fn.module, n)
                ext = [c for c in walk_no_nested(fn.node) if isinstance(c, ast.Call) and norm(c.func) == f"{acc}.extend"
                       and c.args and norm(c.args[0]) == part]
                ok = part != acc and bool(ext) and blk is not None and any(follows_unconditionally_(blk, n, c) for c in ext)
                rr.ob(fn.relpath, fn.qualname, norm(n)[:70], f"the imports returned by `{callee}` are added to the list the "
                      f"function returns", DISCHARGED if ok else VIOLATED,
                      f"{acc}.extend({part})" if ok else (f"the result is unpacked into the accumulator `{acc}` itself: imports "
                      f"collected so far (earlier siblings' nested classes) are discarded" if part == acc else
                      f"`{part}` is never added to `{acc}`: names used by those classes are not imported"), n.lineno)
    return rr


def rule_nameord1(ctx: Ctx) -> RuleResult:
    """Every generator (whose constructor normalises the model's class name) exists before any class text is rendered."""
    rr = RuleResult("NAMEORD-1", "all class names are normalised before the first class is rendered", floor=1)
    prog = ctx.prog
    mod = prog.module("json_to_models/models/base.py")
    entry = prog.func("json_to_models/models/base.py", "_generate_code")
    # the constructor does rename the model (otherwise there is nothing to order)
    init = prog.func("json_to_models/models/base.py", "GenericModelCodeGenerator.__init__")
    renames = any(isinstance(n, ast.Call) and norm(n.func).endswith("set_raw_name") for n in walk_no_nested(init.node))
    funcs = [f for f in mod.all_funcs if f.cls is None and f.parent is None]

    def direct(f):
        c = r = False
        for n in walk_no_nested(f.node):
            if isinstance(n, ast.Call):
                if isinstance(n.func, ast.Name) and n.func.id in f.params and "generator" in n.func.id:
                    c = True
                if isinstance(n.func, ast.Attribute) and n.func.attr == "generate":
                    r = True
        return c, r

    lab = {f.key: set() for f in funcs}
    for f in funcs:
        c, r = direct(f)
        if c:
            lab[f.key].add("C")
        if r:
            lab[f.key].add("R")
    changed = True
    while changed:
        changed = False
        for f in funcs:
            for n in walk_no_nested(f.node):
                if isinstance(n, ast.Call) and isinstance(n.func, ast.Name):
                    g = mod.functions.get(n.func.id)
                    if g is not None and not lab[g.key] <= lab[f.key]:
                        lab[f.key] |= lab[g.key]
                        changed = True
    # sites of the entry function, in evaluation order
    sites = []
    for n in walk_no_nested(entry.node):
        if isinstance(n, ast.Call):
            ks = set()
            if isinstance(n.func, ast.Name):
                g = mod.functions.get(n.func.id)
                if g is not None:
                    ks = set(lab[g.key]) if g is not entry else {"C", "R"} & lab[entry.key]
                if n.func.id in entry.params and "generator" in n.func.id:
                    ks = {"C"}
            if isinstance(n.func, ast.Attribute) and n.func.attr == "generate":
                ks = {"R"}
            if ks:
                sites.append((n, ks))
    sites.sort(key=lambda x: (x[0].lineno, x[0].col_offset))
    rr.instances += 1
    st = ("when a class is rendered, every model it can refer to (its enclosing class included) already carries its final, "
          "sanitised name; otherwise a reference is emitted with the raw name and a second rendering differs from the first")
    problems = []
    if not renames:
        rr.ob(entry.relpath, entry.qualname, "GenericModelCodeGenerator.__init__", st, DISCHARGED,
              "the constructor no longer renames models: no ordering needed", entry.node.lineno)
        return rr
    for n, ks in sites:
        if ks == {"C", "R"}:
            problems.append(f"`{norm(n)[:50]}` (line {n.lineno}) both constructs generators and renders classes: nested classes "
                            f"are rendered before the generator of their enclosing class exists")
    first_r = next((i for i, (n, ks) in enumerate(sites) if "R" in ks), None)
    for i, (n, ks) in enumerate(sites):
        if "C" in ks and first_r is not None and i > first_r:
            problems.append(f"generator construction `{norm(n)[:40]}` (line {n.lineno}) follows rendering")
    # construction and rendering in the same loop body interleave per entry
    for lp in walk_no_nested(entry.node):
        if isinstance(lp, ast.For):
            inside = [(n, ks) for n, ks in sites if any(n is x for x in ast.walk(lp))]
            if any("C" in ks for _, ks in inside) and any("R" in ks for _, ks in inside):
                problems.append(f"the loop at line {lp.lineno} constructs and renders in the same iteration")
    rr.ob(entry.relpath, entry.qualname, " ; ".join(f"{norm(n.func)}{sorted(ks)}" for n, ks in sites)[:120], st,
          VIOLATED if problems else DISCHARGED, "; ".join(dict.fromkeys(problems)) if problems else
          "construction of all generators precedes all rendering", entry.node.lineno)
    return rr
