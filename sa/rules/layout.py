"""C12 rules: LAY-1 (every model placed exactly once), LAY-2 (one class per structure entry, nested classes forwarded),
LAY-3 (nesting only from single-parent/single-root branches; flat layout never nests)."""
from __future__ import annotations

import ast
from typing import Dict, List, Optional, Set, Tuple

from ..ctx import Ctx
from ..model import AnalysisError, ClassInfo, FuncInfo, norm, walk_no_nested
from ..paths import enumerate_paths
from ..report import ALLOWED, DISCHARGED, VIOLATED, RuleResult
from ..util import enclosing_loop, names_in
from ..util import follows_unconditionally as follows_unconditionally_

ST = "json_to_models/models/structure.py"
PLACERS = {"append": 0, "insert": 1, "insert_before": 0, "insert_after": 0}


def _layout_loop(f: FuncInfo) -> ast.For:
    for n in walk_no_nested(f.node):
        if isinstance(n, ast.For) and norm(n.iter) == "models_map.items()":
            return n
    raise AnalysisError(f"LAY: per-model loop over models_map.items() not found in {f.qualname}")


def _table_name(f: FuncInfo) -> Tuple[str, bool]:
    """(name of the key -> structure entry table, built by one comprehension over models_map before the loop?)"""
    for n in walk_no_nested(f.node):
        if isinstance(n, (ast.Assign, ast.AnnAssign)):
            tg = n.targets[0] if isinstance(n, ast.Assign) else n.target
            if isinstance(tg, ast.Name) and isinstance(n.value, ast.DictComp) and norm(n.value.generators[0].iter) == "models_map.items()":
                return tg.id, True
    # fallback: the mapping indexed with the loop key inside the per-model loop
    lp = _layout_loop(f)
    kv = norm(lp.target.elts[0]) if isinstance(lp.target, ast.Tuple) else None
    cands: Dict[str, int] = {}
    for x in ast.walk(lp):
        if isinstance(x, ast.Subscript) and isinstance(x.value, ast.Name) and norm(x.slice) == kv:
            cands[x.value.id] = cands.get(x.value.id, 0) + 1
    if not cands:
        raise AnalysisError(f"LAY: cannot identify the structure table of {f.qualname}")
    return max(cands, key=cands.get), False


def rule_lay1(ctx: Ctx) -> RuleResult:
    rr = RuleResult("LAY-1", "each model's structure entry is placed into exactly one list on every path", floor=8)
    prog = ctx.prog
    # ListEx.insert_before raises before it inserts (so try/except counts once)
    lx = prog.func("json_to_models/models/utils.py", "ListEx.insert_before")
    rr.instances += 1
    raises = [n for n in walk_no_nested(lx.node) if isinstance(n, ast.Raise)]
    ins = [n for n in walk_no_nested(lx.node) if isinstance(n, ast.Call) and norm(n.func) == "self.insert"]
    ok = bool(raises) and bool(ins) and max(r.lineno for r in raises) < min(i.lineno for i in ins) and len(ins) == 1
    rr.ob(lx.relpath, lx.qualname, "raise ValueError ... self.insert(pos, value)", "insert_before either raises before "
          "touching the list or inserts exactly once", DISCHARGED if ok else VIOLATED,
          "raise precedes the single insert" if ok else "insert may happen before the raise / more than once", lx.node.lineno)
    for fname in ("compose_models", "compose_models_flat"):
        f = prog.func(ST, fname)
        lp = _layout_loop(f)
        table, prebuilt = _table_name(f)
        kv = norm(lp.target.elts[0]) if isinstance(lp.target, ast.Tuple) else None
        cur = {f"{table}[{kv}]"}
        for n in ast.walk(lp):
            if isinstance(n, ast.Assign) and isinstance(n.targets[0], ast.Name) and norm(n.value) == f"{table}[{kv}]":
                cur.add(n.targets[0].id)
        # the table is complete before the loop and never rewritten inside it
        rr.instances += 1
        writes = [n for st in lp.body for n in ast.walk(st) if (isinstance(n, ast.Assign) and any(
            isinstance(t, ast.Subscript) and norm(t.value) == table for t in n.targets)) or (
            isinstance(n, ast.Call) and isinstance(n.func, ast.Attribute) and norm(n.func.value) == table
            and n.func.attr in ("setdefault", "update", "pop", "clear", "__setitem__"))]
        rr.ob(f.relpath, f.qualname, f"{table} = {{key: entry for key, model in models_map.items()}}",
              "every model has one structure entry, created before placement starts and never replaced (children attached "
              "to a parent's entry must still be there when the parent itself is placed)",
              VIOLATED if writes or not prebuilt else DISCHARGED,
              (f"`{norm(writes[0])[:60]}` rewrites the table inside the placement loop: an entry that already received "
               f"children can be replaced by a fresh one" if writes else
               "the table is not built up front by one comprehension over models_map") if writes or not prebuilt else
              "built once, read-only in the loop", lp.lineno)
        paths = enumerate_paths(lp.body)
        n_ok = 0
        for p in paths:
            if p.exit == "raise":
                continue
            rr.instances += 1
            count = 0
            where = []
            for s in p.stmts():
                for x in ast.walk(s):
                    if isinstance(x, ast.Call) and isinstance(x.func, ast.Attribute) and x.func.attr in PLACERS:
                        idx = PLACERS[x.func.attr]
                        if len(x.args) > idx and norm(x.args[idx]) in cur:
                            count += 1
                            where.append(norm(x.func))
            # try-body statements before the raising call are not on the handler path in this enumeration; the
            # handler path therefore counts only the handler's own insert
            ok = count == 1
            n_ok += ok
            rr.ob(f.relpath, f.qualname, p.describe()[:120], "the current model's entry is inserted into exactly one list",
                  DISCHARGED if ok else VIOLATED, f"placed by {where}" if ok else
                  (f"no placement on this path: the model's class is never emitted" if count == 0 else
                   f"placed {count} times ({where}): the class is emitted more than once"), lp.lineno)
    return rr


def rule_lay2(ctx: Ctx) -> RuleResult:
    rr = RuleResult("LAY-2", "one generator and one class text per structure entry; nested classes are forwarded", floor=4)
    prog = ctx.prog
    g = prog.func("json_to_models/models/base.py", "_generate_code")
    loops = [n for n in walk_no_nested(g.node) if isinstance(n, ast.For)]
    # loop 1 over structure: recursion on data["nested"] + one generator construction appended
    rr.instances += 1
    l1 = next((l for l in loops if norm(l.iter) == g.params[0]), None)
    ok = False
    why = "loop over the structure not found"
    if l1 is not None:
        dv = norm(l1.target)
        rec = [c for s in l1.body for c in ast.walk(s) if isinstance(c, ast.Call) and norm(c.func) == g.name
               and c.args and norm(c.args[0]) == f"{dv}['nested']"]
        ctor = [c for s in l1.body for c in ast.walk(s) if isinstance(c, ast.Call) and norm(c.func) == g.params[1]
                and c.args and norm(c.args[0]) == f"{dv}['model']"]
        apps = [c for s in l1.body for c in ast.walk(s) if isinstance(c, ast.Call) and isinstance(c.func, ast.Attribute)
                and c.func.attr == "append" and any(any(x is k for x in ast.walk(c)) for k in ctor)]
        paths = enumerate_paths(l1.body)
        fwd = bool(rec) and [norm(a) for a in rec[0].args[1:3]] == g.params[1:3]
        ok = len(rec) == 1 and len(ctor) == 1 and len(apps) == 1 and len(paths) == 1 and fwd
        why = f"recursions={len(rec)} generators={len(ctor)} appended={len(apps)} paths={len(paths)} " \
              f"generator class and options forwarded to the recursion={fwd}"
    rr.ob(g.relpath, g.qualname, "for data in structure: ...", "for every structure entry: its nested entries are rendered "
          "recursively and exactly one generator is created for its model, unconditionally", DISCHARGED if ok else VIOLATED, why,
          g.node.lineno)
    # loop 2 over generators: one generate() per generator, its text appended once
    rr.instances += 1
    l2 = next((l for l in loops if l is not l1 and "generators" in norm(l.iter)), None)
    ok = False
    why = "loop over the generators not found"
    if l2 is not None:
        gens = [c for s in l2.body for c in ast.walk(s) if isinstance(c, ast.Call) and isinstance(c.func, ast.Attribute)
                and c.func.attr == "generate"]
        cls_app = [c for s in l2.body for c in ast.walk(s) if isinstance(c, ast.Call) and isinstance(c.func, ast.Attribute)
                   and c.func.attr == "append" and "class" in norm(c.func.value)]
        nested_ok = bool(gens) and gens[0].args and isinstance(l2.target, ast.Tuple) and \
            norm(gens[0].args[0]) == norm(l2.target.elts[1])
        ok = len(gens) == 1 and len(cls_app) == 1 and len(enumerate_paths(l2.body)) == 1 and nested_ok
        why = f"generate calls={len(gens)} class appends={len(cls_app)} nested texts passed={nested_ok}"
    rr.ob(g.relpath, g.qualname, "for gen, nested_classes in generators: ...", "every generator renders once, receives the "
          "texts of its nested classes, and its class text is appended once", DISCHARGED if ok else VIOLATED, why, g.node.lineno)
    # generate_code joins exactly those classes
    gc = prog.func("json_to_models/models/base.py", "generate_code")
    rr.instances += 1
    rets = [n for n in walk_no_nested(gc.node) if isinstance(n, ast.Return) and n.value is not None]
    ok = any("objects_delimiter.join(classes)" in norm(r.value) for r in rets)
    rr.ob(gc.relpath, gc.qualname, "objects_delimiter.join(classes)", "the module text joins exactly the class texts of the "
          "root entries", DISCHARGED if ok else VIOLATED, "join over classes" if ok else "classes are filtered/altered", gc.node.lineno)
    # every generate() implementation forwards nested_classes to the base renderer, which indents and emits them
    base = prog.cls("json_to_models/models/base.py", "GenericModelCodeGenerator")
    for k in prog.subclasses(base):
        for f in k.methods.get("generate", []):
            rr.instances += 1
            if k is base:
                t = norm(f.node)
                ok = "data['nested'] = [indent(s) for s in nested_classes]" in t and "self.BODY.render(**data)" in t
                rr.ob(f.relpath, f.qualname, "data['nested'] = [indent(s) for s in nested_classes]", "the base renderer puts "
                      "every nested class text, indented, into the class body", DISCHARGED if ok else VIOLATED,
                      "ok" if ok else "nested class texts are dropped or altered", f.node.lineno)
                continue
            calls = [c for c in walk_no_nested(f.node) if isinstance(c, ast.Call) and isinstance(c.func, ast.Attribute)
                     and c.func.attr == "generate"]
            ok = False
            for c in calls:
                kws = {kw.arg: norm(kw.value) for kw in c.keywords if kw.arg}
                pos = [norm(a) for a in c.args]
                if kws.get("nested_classes") == "nested_classes" or "nested_classes" in pos:
                    ok = True
            rr.ob(f.relpath, f.qualname, norm(calls[0])[:80] if calls else "generate", "the override hands its "
                  "nested_classes parameter on to the base renderer", DISCHARGED if ok else VIOLATED,
                  "forwarded" if ok else "nested_classes is a named parameter of the override and is not passed on: every "
                  "nested class disappears from this framework's nested layout", f.node.lineno)
    # the template iterates `nested`
    rr.instances += 1
    body = ctx.folder.try_fold(base.module, base.assigns.get("BODY"), base) if base.assigns.get("BODY") is not None else None
    ok = isinstance(body, str) and "for code in nested" in body and "{{ code }}" in body
    rr.ob(base.module.relpath, base.qualname, "BODY template", "the class template emits each nested class text",
          DISCHARGED if ok else VIOLATED, "{% for code in nested %} {{ code }}" if ok else "template does not render nested",
          base.node.lineno)
    return rr


def rule_lay3(ctx: Ctx) -> RuleResult:
    rr = RuleResult("LAY-3", "models are nested only under a single parent / single root; the flat layout never nests", floor=3)
    prog = ctx.prog
    f = prog.func(ST, "compose_models")
    lp = _layout_loop(f)
    for p in enumerate_paths(lp.body):
        nested_calls = [x for s in p.stmts() for x in ast.walk(s) if isinstance(x, ast.Call) and isinstance(x.func, ast.Attribute)
                        and x.func.attr in PLACERS and "nested" in norm(x.func.value)]
        if not nested_calls:
            continue
        rr.instances += 1
        conds = {norm(c): tv for c, tv in p.conds()}
        has_root = conds.get("has_root_pointers")
        single_root = conds.get("len(struct['roots']) == 1") is True
        multi_parent = conds.get("len(parents) > 1")
        ok = has_root is False and (single_root or multi_parent is False or conds.get("len(struct['roots']) > 1") is False)
        rr.ob(f.relpath, f.qualname, p.describe()[:120], "a model goes inside another class only if it is not referenced from "
              "the root level and has a single parent or a single root", DISCHARGED if ok else VIOLATED,
              f"has_root_pointers={has_root}, single root={single_root}, several parents={multi_parent}", lp.lineno)
    g = prog.func(ST, "compose_models_flat")
    rr.instances += 1
    touches = [n for n in walk_no_nested(g.node) if isinstance(n, ast.Subscript) and isinstance(n.slice, ast.Constant)
               and n.slice.value == "nested" and isinstance(n.ctx, ast.Load) and not isinstance(g.module.parents.get(n), ast.Dict)]
    rets = [n for n in walk_no_nested(g.node) if isinstance(n, ast.Return) and n.value is not None]
    ok = not touches and all(isinstance(r.value, ast.Tuple) and norm(r.value.elts[1]) == "{}" for r in rets)
    rr.ob(g.relpath, g.qualname, "return root_models, {}", "the flat layout nests nothing and injects no reference prefixes",
          DISCHARGED if ok else VIOLATED, "no use of entry['nested']; empty injection map" if ok else
          "flat layout touches nested lists or returns injections", g.node.lineno)
    # both layouts go through the same renderer (call-graph fact): the CLI table maps to exactly these two functions
    cli = prog.cls("json_to_models/cli.py", "Cli")
    rr.instances += 1
    tab = cli.assigns.get("STRUCTURE_FN_MAPPING")
    vals = sorted(norm(v) for v in tab.values) if isinstance(tab, ast.Dict) else []
    ok = vals == ["compose_models", "compose_models_flat"]
    rr.ob("json_to_models/cli.py", "Cli", f"STRUCTURE_FN_MAPPING -> {vals}", "both layouts are produced by these two functions "
          "and rendered by the same _generate_code", DISCHARGED if ok else VIOLATED, "as expected" if ok else "layout table changed",
          cli.node.lineno)
    return rr


def rule_imp4(ctx: Ctx) -> RuleResult:
    """IMP-4: imports returned by the recursion and by each generator are all accumulated into the returned list."""
    rr = RuleResult("IMP-4", "imports of nested classes and of each class reach the module's import block", floor=2)
    prog = ctx.prog
    g = prog.func("json_to_models/models/base.py", "_generate_code")
    # imports returned by the recursion and by each generator are all accumulated into the returned list
    for fn in [g] + [x for x in prog.module("json_to_models/models/base.py").all_funcs
                     if x.name in ("_render_generators", "_create_generators") and x is not g]:
        rets = [n for n in walk_no_nested(fn.node) if isinstance(n, ast.Return) and isinstance(n.value, ast.Tuple)]
        if not rets:
            continue
        acc = norm(rets[0].value.elts[0])
        for n in walk_no_nested(fn.node):
            if isinstance(n, ast.Assign) and isinstance(n.targets[0], ast.Tuple) and len(n.targets[0].elts) == 2 and \
                    isinstance(n.value, ast.Call):
                callee = norm(n.value.func).split(".")[-1]
                if callee not in (g.name, "generate", "_render_generators"):
                    continue
                rr.instances += 1
                part = norm(n.targets[0].elts[0])
                from ..util import enclosing_block as _eb
                blk = _eb(fn.module, n)
                ext = [c for c in walk_no_nested(fn.node) if isinstance(c, ast.Call) and norm(c.func) == f"{acc}.extend"
                       and c.args and norm(c.args[0]) == part]
                ok = part != acc and bool(ext) and blk is not None and any(follows_unconditionally_(blk, n, c) for c in ext)
                rr.ob(fn.relpath, fn.qualname, norm(n)[:70], f"the imports returned by `{callee}` are added to the list the "
                      f"function returns", DISCHARGED if ok else VIOLATED,
                      f"{acc}.extend({part})" if ok else (f"the result is unpacked into the accumulator `{acc}` itself: imports "
                      f"collected so far (earlier siblings' nested classes) are discarded" if part == acc else
                      f"`{part}` is never added to `{acc}`: names used by those classes are not imported"), n.lineno)
    return rr
