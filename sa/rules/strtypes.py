"""C09 rules: DET-1..5 (string pseudo-type detection protocol, registry order, removal, interface, CLI event order)."""
from __future__ import annotations

import ast
from typing import Dict, List, Optional, Set, Tuple

from ..ctx import Ctx
from ..model import AnalysisError, ClassInfo, ConstRef, External, FuncInfo, attr_chain, norm, walk_no_nested
from ..report import ALLOWED, DISCHARGED, VIOLATED, RuleResult
from ..util import all_defs, enclosing_loop, follows_unconditionally, has_escape, names_in, single_def, strip_snapshot

SS = ("json_to_models/dynamic_typing/string_serializable.py", "StringSerializable")
SSR = ("json_to_models/dynamic_typing/string_serializable.py", "StringSerializableRegistry")
GEN = ("json_to_models/generator.py", "MetadataGenerator._detect_type")


# exceptions third-party parsers raise for text they cannot parse (trusted table; dateutil lets OverflowError escape
# for huge numbers, e.g. parse("Jan 99999999999"))
THIRD_PARTY_RAISES = {
    "dateutil.parser.parse": ("ValueError", "OverflowError"),
    "dateutil.parser.isoparse": ("ValueError",),
    "parse": ("ValueError", "OverflowError"),
    "isoparse": ("ValueError",),
}


def rule_det1(ctx: Ctx) -> RuleResult:
    rr = RuleResult("DET-1", "a pseudo-type is returned only after its own parser accepted the very string", floor=1)
    f = ctx.prog.func(*GEN)
    cfg = ctx.cfg(f)
    dom = cfg.dominators()
    params = [p for p in f.params if p != "self"]
    vparam = params[0]
    ssr = ctx.prog.cls(*SSR)
    found = False
    for lp in walk_no_nested(f.node):
        if not isinstance(lp, ast.For) or not isinstance(lp.target, ast.Name):
            continue
        lv = lp.target.id
        # the detection loop is the one whose body offers the value to the loop variable's own parser
        is_reg = any(isinstance(c, ast.Call) and isinstance(c.func, ast.Attribute) and c.func.attr == "to_internal_value"
                     and norm(c.func.value) == lv for st in lp.body for c in ast.walk(st)) or any(
            isinstance(r, ast.Return) and r.value is not None and norm(r.value) == lv for st in lp.body for r in ast.walk(st))
        if not is_reg:
            continue
        rets = [n for st in lp.body for n in ast.walk(st) if isinstance(n, ast.Return) and n.value is not None
                and lv in names_in(n.value)]
        for r in rets:
            found = True
            rr.instances += 1
            rn = cfg.stmt_node(r)
            calls = [c for st in lp.body for c in ast.walk(st) if isinstance(c, ast.Call) and isinstance(c.func, ast.Attribute)
                     and c.func.attr == "to_internal_value" and norm(c.func.value) == lv]
            st = ("`return <type>` is dominated by a completed call of that type's own parser on the unmodified input "
                  "string, and the rejecting handler cannot fall through to it")
            problems = []
            if norm(r.value) != lv:
                problems.append(f"returns `{norm(r.value)}`, not the type whose parser ran")
            good = [c for c in calls if cfg.node_containing(c, f.module.parents) in dom.get(rn, ()) and
                    cfg.node_containing(c, f.module.parents) != rn]
            if not good:
                problems.append("no call of <type>.to_internal_value dominates the return")
            for c in good[:1]:
                if not (len(c.args) == 1 and isinstance(c.args[0], ast.Name) and c.args[0].id == vparam):
                    problems.append(f"the parser is given `{norm(c.args[0]) if c.args else ''}`, not the value being "
                                    f"classified (`{vparam}`): detection and conversion then see different strings")
                # handler of the enclosing try must not reach the return without another successful call
                tr = None
                p = f.module.parents.get(c)
                while p is not None and p is not lp:
                    if isinstance(p, ast.Try):
                        tr = p
                        break
                    p = f.module.parents.get(p)
                if tr is not None:
                    for h in tr.handlers:
                        hn = cfg.node_of_stmt.get(id(h))
                        if hn is not None:
                            reach = cfg.reachable_from(hn, labels_excluded=("back",))
                            if rn in reach:
                                problems.append(f"handler `except {norm(h.type) if h.type else ''}` falls through to the "
                                                f"return: a rejected string is classified anyway")
            # the classified value must not be rewritten before the parser sees it
            for d in all_defs(f, vparam):
                if isinstance(d, ast.Assign):
                    v = d.value
                    okd = isinstance(v, ast.Call) and isinstance(v.func, ast.Attribute) and v.func.attr == "to_internal_value"
                    if not okd:
                        problems.append(f"`{norm(d)}` rewrites the value before classification")
            rr.ob(f.relpath, f.qualname, norm(r), st, VIOLATED if problems else DISCHARGED,
                  "; ".join(problems) if problems else
                  f"`{norm(good[0])}` dominates the return; the ValueError handler continues with the next type",
                  r.lineno)
    if not found:
        raise AnalysisError("DET-1: the detection loop over the string-type registry was not found")
    return rr


def rule_det2(ctx: Ctx) -> RuleResult:
    rr = RuleResult("DET-2", "detection tries registered types in registration order", floor=3)
    prog = ctx.prog
    c = prog.cls(*SSR)
    it = prog.lookup_method(c, "__iter__")
    if not it:
        raise AnalysisError("DET-2: StringSerializableRegistry.__iter__ vanished")
    f = it[0]
    rets = [n for n in walk_no_nested(f.node) if isinstance(n, (ast.Return, ast.Expr)) and getattr(n, "value", None) is not None]
    rr.instances += 1
    attr = None
    for n in rets:
        v = n.value
        if isinstance(v, ast.YieldFrom):
            v = v.value
        if isinstance(v, ast.Call) and norm(v.func) == "iter" and v.args:
            v = v.args[0]
        ch = attr_chain(v)
        if ch and ch[0] == "self" and len(ch) == 2:
            attr = ch[1]
    rr.ob(f.relpath, f.qualname, norm(rets[0].value) if rets else "__iter__",
          "iteration yields the registration list itself, in its order", DISCHARGED if attr else VIOLATED,
          f"iterates self.{attr} directly" if attr else "the iterator is not the plain list (sorted/reversed/set/filter?)",
          f.node.lineno)
    if attr is None:
        return rr
    # the list is only appended to / removed from
    ef = ctx.effects
    for g in sorted(prog.all_funcs(), key=lambda x: x.key):
        owner = ef._owner(g)
        for w in ef.direct_writes(g):
            if not (w.path.startswith(f"self.{attr}") and owner is not None and c in prog.mro(owner)) and \
                    not (f".{attr}." in w.path + "." and w.kind == "mutcall" and "registry" in w.path):
                continue
            rr.instances += 1
            ok = False
            how = f"{w.kind} `{w.path}`"
            if w.kind == "mutcall":
                meth = w.path.split(".")[-1]
                ok = meth in ("append", "remove")
                how = f".{meth}() " + ("keeps the relative order of the other entries" if ok else "reorders the list")
            elif w.kind == "attr" and g.name == "__init__":
                v = w.node.value if isinstance(w.node, (ast.Assign, ast.AnnAssign)) else None
                ok = v is not None and norm(v) in ("list(types)", "[*types]", "[]", "list()")
                how = f"initialised as `{norm(v) if v is not None else '?'}`"
            elif w.kind == "item":
                how = "item assignment replaces an entry in place"
                ok = False
            rr.ob(g.relpath, g.qualname, w.path, "the registration list is only appended to or removed from",
                  DISCHARGED if ok else VIOLATED, how, w.line)
    # the detector iterates the registry directly
    d = prog.func(*GEN)
    for lp in walk_no_nested(d.node):
        if isinstance(lp, ast.For) and c in ctx.cg.receiver_classes(d, d.module, strip_snapshot(lp.iter)[0] if isinstance(
                lp.iter, ast.Call) else lp.iter):
            pass
    loops = [lp for lp in walk_no_nested(d.node) if isinstance(lp, ast.For) and isinstance(lp.target, ast.Name) and any(
        isinstance(c, ast.Call) and isinstance(c.func, ast.Attribute) and c.func.attr == "to_internal_value"
        and norm(c.func.value) == lp.target.id for st in lp.body for c in ast.walk(st))]
    for lp in loops:
        rr.instances += 1
        # the registry itself (its __iter__ was checked above) or its registration list
        direct = isinstance(lp.iter, ast.Attribute) and (lp.iter.attr == attr or "registry" in lp.iter.attr)
        rr.ob(d.relpath, d.qualname, f"for {norm(lp.target)} in {norm(lp.iter)}",
              "the detector walks the registry itself (no sorted/reversed/set)", DISCHARGED if direct else VIOLATED,
              "plain iteration" if direct else f"iterates `{norm(lp.iter)}`", lp.lineno)
    if not loops:
        raise AnalysisError("DET-2: detection loop not found")
    return rr


def rule_det3(ctx: Ctx) -> RuleResult:
    rr = RuleResult("DET-3", "removing a type purges it from the registry and from the replace relation", floor=3)
    prog = ctx.prog
    c = prog.cls(*SSR)
    rm = prog.lookup_method(c, "remove")
    rbn = prog.lookup_method(c, "remove_by_name")
    if not rm or not rbn:
        raise AnalysisError("DET-3: remove / remove_by_name vanished")
    f = rm[0]
    p = [x for x in f.params if x != "self"][0]
    # (1) removes from the type list unconditionally
    rr.instances += 1
    lst = [n for n in walk_no_nested(f.node) if isinstance(n, ast.Call) and isinstance(n.func, ast.Attribute)
           and n.func.attr == "remove" and n.args and norm(n.args[0]) == p and norm(n.func.value).startswith("self.")]
    ok = bool(lst) and ctx.cfg(f).stmt_node(f.module.parents[lst[0]]) in ctx.cfg(f).postdominators()[ctx.cfg(f).entry] \
        if lst and isinstance(f.module.parents.get(lst[0]), ast.Expr) else False
    rr.ob(f.relpath, f.qualname, norm(lst[0]) if lst else "self.types.remove(cls)",
          "the class is removed from the type list on every path", DISCHARGED if ok else VIOLATED,
          "unconditional removal" if ok else "removal missing or conditional", f.node.lineno)
    # (2) every pair mentioning the class in either position is deleted
    rr.instances += 1
    ok = False
    why = "no loop over the replace relation deleting pairs"
    for lp in walk_no_nested(f.node):
        if isinstance(lp, ast.For) and isinstance(lp.target, ast.Name):
            # `for pair in list(self.replaces): if cls in pair: self.replaces.remove(pair)` covers both positions at once
            inner, snap = strip_snapshot(lp.iter)
            pv = lp.target.id
            if len(lp.body) == 1 and isinstance(lp.body[0], ast.If) and norm(lp.body[0].test) == f"{p} in {pv}":
                dels = [x for x in ast.walk(lp.body[0]) if isinstance(x, ast.Call) and isinstance(x.func, ast.Attribute)
                        and x.func.attr in ("remove", "discard") and norm(x.func.value) == norm(inner)
                        and x.args and norm(x.args[0]) == pv]
                if dels:
                    ok = snap
                    why = "" if snap else "iterates the live set while deleting from it"
        if isinstance(lp, ast.For) and isinstance(lp.target, ast.Tuple) and len(lp.target.elts) == 2:
            inner, snap = strip_snapshot(lp.iter)
            rel = norm(inner)
            a, b = (norm(e) for e in lp.target.elts)
            if len(lp.body) == 1 and isinstance(lp.body[0], ast.If):
                test = lp.body[0].test
                terms = test.values if isinstance(test, ast.BoolOp) and isinstance(test.op, ast.Or) else [test]
                hit = set()
                for t in terms:
                    if isinstance(t, ast.Compare) and len(t.ops) == 1 and isinstance(t.ops[0], (ast.Is, ast.Eq)):
                        pair = {norm(t.left), norm(t.comparators[0])}
                        if p in pair:
                            hit |= pair - {p}
                dels = [x for x in ast.walk(lp.body[0]) if isinstance(x, ast.Call) and isinstance(x.func, ast.Attribute)
                        and x.func.attr in ("remove", "discard") and norm(x.func.value) == rel]
                if hit == {a, b} and dels and isinstance(test, ast.BoolOp if len(terms) > 1 else ast.Compare):
                    ok = snap
                    why = "" if snap else "iterates the live set while deleting from it"
                else:
                    why = f"pairs are deleted only when {sorted(hit)} is the class; both positions {[a, b]} are required"
    rr.ob(f.relpath, f.qualname, "purge of self.replaces", "every (special, general) pair naming the removed class in "
          "either position is deleted, so resolve() can never return it", DISCHARGED if ok else VIOLATED,
          "both positions tested with `or`, over a snapshot" if ok else why, f.node.lineno)
    # (3) remove_by_name reaches remove for class name and actual type name
    g = rbn[0]
    pn = [x for x in g.params if x != "self"][0]
    rr.instances += 1
    ok = False
    why = "no loop over the type list calling remove"
    for lp in walk_no_nested(g.node):
        if isinstance(lp, ast.For) and isinstance(lp.target, ast.Name):
            lv = lp.target.id
            inner, snap = strip_snapshot(lp.iter)
            for iff in [x for x in lp.body if isinstance(x, ast.If)]:
                terms = iff.test.values if isinstance(iff.test, ast.BoolOp) and isinstance(iff.test.op, ast.Or) else [iff.test]
                want_op = ast.Eq
                scope = [iff]
                # the guard clause form: `if <both names differ>: continue` and the removal after it
                if not iff.orelse and iff.body and isinstance(iff.body[-1], ast.Continue) and len(iff.body) == 1 and \
                        isinstance(iff.test, ast.BoolOp) and isinstance(iff.test.op, ast.And):
                    terms, want_op = iff.test.values, ast.NotEq
                    scope = lp.body[lp.body.index(iff) + 1:]
                keys = set()
                for t in terms:
                    if isinstance(t, ast.Compare) and len(t.ops) == 1 and isinstance(t.ops[0], want_op):
                        sides = {norm(t.left), norm(t.comparators[0])}
                        if pn in sides:
                            keys |= sides - {pn}
                calls = [x for sc in scope for x in ast.walk(sc) if isinstance(x, ast.Call) and f in [
                    t for t in ctx.cg.resolve_call(g, g.module, x) if isinstance(t, FuncInfo)] and x.args and norm(x.args[0]) == lv]
                if want_op is ast.NotEq and not all(isinstance(sc, ast.Expr) for sc in scope):
                    calls = []
                if calls:
                    need = {f"{lv}.__name__", f"{lv}.actual_type.__name__"}
                    ok = need <= keys and snap
                    why = "" if ok else (f"matches only {sorted(keys)}; both the class name and the actual type's name "
                                         f"are documented" if not need <= keys else "iterates the live list while removing")
    rr.ob(g.relpath, g.qualname, "remove_by_name", "a type is removed when either its class name or the name of its "
          "actual type equals the given name", DISCHARGED if ok else VIOLATED,
          "both names compared, snapshot iteration, remove(cls) called" if ok else why, g.node.lineno)
    # (5) the CLI passes every disabled name to the registry before samples are loaded
    pa = prog.func("json_to_models/cli.py", "Cli.parse_args")
    rr.instances += 1
    ok = False
    why = "no loop over namespace.disable_str_serializable_types calling remove_by_name"
    sm = prog.func("json_to_models/cli.py", "Cli.setup_models_data")
    for lp in walk_no_nested(pa.node):
        if isinstance(lp, ast.For) and "disable_str_serializable_types" in norm(lp.iter) and isinstance(lp.target, ast.Name):
            calls = [x for st in lp.body for x in ast.walk(st) if isinstance(x, ast.Call) and g in [
                t for t in ctx.cg.resolve_call(pa, pa.module, x) if isinstance(t, FuncInfo)]]
            if calls and not has_escape(lp.body) and all(isinstance(s, ast.Expr) for s in lp.body) and \
                    norm(calls[0].args[0]) == lp.target.id and isinstance(lp.iter, ast.Attribute):
                loads = [x for x in walk_no_nested(pa.node) if isinstance(x, ast.Call) and sm in [
                    t for t in ctx.cg.resolve_call(pa, pa.module, x) if isinstance(t, FuncInfo)]]
                ok = bool(loads) and follows_unconditionally(pa.node.body, lp, loads[0])
                why = "" if ok else "the removals do not precede sample loading unconditionally"
    rr.ob(pa.relpath, pa.qualname, "for name in namespace.disable_str_serializable_types: registry.remove_by_name(name)",
          "every --disable-str-serializable-types value reaches remove_by_name before any sample is loaded",
          DISCHARGED if ok else VIOLATED, "unconditional loop over all values, ahead of setup_models_data" if ok else why,
          pa.node.lineno)
    return rr


def rule_det4(ctx: Ctx) -> RuleResult:
    rr = RuleResult("DET-4", "every string pseudo-type implements the whole interface", floor=5)
    prog = ctx.prog
    base = prog.cls(*SS)
    handler_types: Set[str] = set()
    d = prog.func(*GEN)
    for n in walk_no_nested(d.node):
        if isinstance(n, ast.Try) and any(isinstance(c, ast.Call) and isinstance(c.func, ast.Attribute)
                                          and c.func.attr == "to_internal_value" for s in n.body for c in ast.walk(s)):
            for h in n.handlers:
                if h.type is not None:
                    handler_types |= {x.id for x in ast.walk(h.type) if isinstance(x, ast.Name)}
    for c in prog.subclasses(base, strict=True):
        rr.instances += 1
        missing = []
        for m in ("to_internal_value", "to_representation"):
            found = None
            for k in prog.mro(c):
                if k == base:
                    break
                if m in k.methods:
                    found = k
                    break
            if found is None:
                missing.append(m)
        has_at = any("actual_type" in k.assigns for k in prog.mro(c) if k != base)
        if not has_at:
            missing.append("actual_type")
        ext = prog.external_bases(c)
        if any(b.split(".")[-1] in ("date", "time", "datetime") for b in ext):
            if not any("replace" in k.methods for k in prog.mro(c) if k != base and base in prog.mro(k)):
                missing.append("replace (BaseType.replace would shadow datetime.replace)")
        rr.ob(c.module.relpath, c.qualname, f"class {c.name}", "defines actual_type, to_internal_value, "
              "to_representation (and replace for date/time classes)", VIOLATED if missing else DISCHARGED,
              f"missing: {missing}" if missing else "complete", c.node.lineno)
        # failure contract: what the third-party parsers used by this type can raise is caught by the detector too
        for f in c.methods.get("to_internal_value", []):
            reach = ctx.cg.reachable([f], byname=False)
            need: Dict[str, str] = {}
            for g in reach:
                for n in walk_no_nested(g.node):
                    if isinstance(n, ast.Call) and norm(n.func) in THIRD_PARTY_RAISES:
                        local = set()
                        p = g.module.parents.get(n)
                        while p is not None and p is not g.node:
                            if isinstance(p, ast.Try) and any(n is x for b in p.body for x in ast.walk(b)):
                                for hd in p.handlers:
                                    if hd.type is not None:
                                        local |= {x.id for x in ast.walk(hd.type) if isinstance(x, ast.Name)}
                            p = g.module.parents.get(p)
                        for e in THIRD_PARTY_RAISES[norm(n.func)]:
                            if e not in local:
                                need.setdefault(e, f"{norm(n.func)} in {g.qualname}")
            if need:
                rr.instances += 1
                missing = {e: w for e, w in need.items() if e not in handler_types}
                rr.ob(f.relpath, f.qualname, f"third-party parsers: {sorted(set(need.values()))}"[:110],
                      f"every exception type the parsers behind `{c.name}` are known to raise for unparseable text is caught "
                      f"by the detector ({sorted(handler_types)}), so such text is typed str instead of aborting generation",
                      VIOLATED if missing else DISCHARGED,
                      f"{sorted(missing)} can escape ({list(missing.values())[0]}): one such string value makes the whole "
                      f"generation fail" if missing else f"needs {sorted(need)}: all caught", f.node.lineno)
        # failure contract: own raise sites raise what the detector catches
        for k in [c]:
            for f in k.methods.get("to_internal_value", []):
                for n in walk_no_nested(f.node):
                    if isinstance(n, ast.Raise) and n.exc is not None:
                        rr.instances += 1
                        exc = norm(n.exc.func) if isinstance(n.exc, ast.Call) else norm(n.exc)
                        ok = exc in handler_types
                        rr.ob(f.relpath, f.qualname, norm(n)[:70], f"a rejecting parser raises what the detector "
                              f"catches ({sorted(handler_types)})", DISCHARGED if ok else VIOLATED,
                              f"raises {exc}", n.lineno)
    return rr


def rule_det5(ctx: Ctx) -> RuleResult:
    rr = RuleResult("DET-5", "on CLI paths no type registration can follow a type removal", floor=2)
    prog = ctx.prog
    c = prog.cls(*SSR)
    add_f = set(prog.lookup_method(c, "add"))
    rem_f = set(prog.lookup_method(c, "remove")) | set(prog.lookup_method(c, "remove_by_name"))
    cone = ctx.cli_cone
    # per-function transitive event kinds
    kinds: Dict[str, Set[str]] = {f.key: set() for f in prog.all_funcs()}
    for f in prog.all_funcs():
        if f in add_f:
            kinds[f.key].add("add")
        if f in rem_f:
            kinds[f.key].add("remove")
    changed = True
    while changed:
        changed = False
        for f in prog.all_funcs():
            for g in ctx.cg.callees(f, byname=False):
                new = kinds[g.key] - kinds[f.key]
                if new and f not in add_f | rem_f:
                    kinds[f.key] |= new
                    changed = True
    n_add = n_rem = 0
    for f in sorted(cone, key=lambda x: x.key):
        if f in add_f | rem_f or ctx.effects._owner(f) == c:
            continue
        cfg = ctx.cfg(f)
        sites = []
        for n in walk_no_nested(f.node):
            if isinstance(n, ast.Call):
                ks = set()
                for t in ctx.cg.resolve_call(f, f.module, n):
                    if isinstance(t, FuncInfo):
                        ks |= kinds[t.key]
                if ks:
                    sites.append((n, ks, cfg.node_containing(n, f.module.parents)))
        for n, ks, nid in sites:
            n_add += "add" in ks
            n_rem += "remove" in ks
        for n1, k1, id1 in sites:
            if "remove" not in k1:
                continue
            reach = set()
            for b, l in cfg.succ[id1]:
                reach |= cfg.reachable_from(b)
            for n2, k2, id2 in sites:
                if "add" in k2 and n2 is not n1 and id2 in reach:
                    rr.instances += 1
                    rr.ob(f.relpath, f.qualname, f"{norm(n1.func)}(...) ... {norm(n2.func)}(...)",
                          "a string type the user disabled is never registered again afterwards", VIOLATED,
                          f"`{norm(n2)[:60]}` (line {n2.lineno}) can register types after `{norm(n1)[:60]}` (line "
                          f"{n1.lineno}) removed the disabled ones", n2.lineno)
        # a call site whose callee contains both kinds is checked inside the callee (it is in the cone)
        for n, ks, nid in sites:
            rr.instances += 1
            rr.ob(f.relpath, f.qualname, norm(n)[:70], "registry event site classified", DISCHARGED,
                  f"effects on the string-type registry: {sorted(ks)}", n.lineno, trivial=True)
    if n_add < 1 or n_rem < 1:
        raise AnalysisError(f"DET-5: expected add and remove events on CLI paths, found add={n_add} remove={n_rem}")
    return rr


def rule_res1(ctx: Ctx) -> RuleResult:
    rr = RuleResult("RES-1", "resolving string pseudo-types never loses a type that nothing else covers", floor=1)
    prog = ctx.prog
    c = prog.cls(*SSR)
    # (4) RES-1: resolve() returns the given types minus those that are a particular case of another given type
    rs = prog.lookup_method(c, "resolve")
    if rs:
        h = rs[0]
        rr.instances += 1
        rets = [n for n in walk_no_nested(h.node) if isinstance(n, ast.Return) and n.value is not None]
        # an answer remembered from an earlier call (CACHEINV-1 decides that the table is emptied when the registry changes)
        memo_names = {norm(t) for a in walk_no_nested(h.node) if isinstance(a, ast.Assign) and isinstance(a.value, (ast.Call, ast.Subscript))
                      and norm(a.value).startswith("self._") and (".get(" in norm(a.value) or isinstance(a.value, ast.Subscript))
                      for t in a.targets}
        rets = [r for r in rets if not (memo_names and any(isinstance(x, ast.Name) and x.id in memo_names for x in ast.walk(r.value)))]
        vararg = h.node.args.vararg.arg if h.node.args.vararg else None
        ok = False
        why = "unexpected shape"
        if len(rets) == 1 and isinstance(rets[0].value, ast.BinOp) and isinstance(rets[0].value.op, ast.Sub):
            # `return types - {t1 for t1, t2 in permutations(types, 2) if (t1, t2) in self.replaces}`
            sub_ = rets[0].value.right
            if isinstance(sub_, ast.SetComp) and len(sub_.generators) == 1 and sub_.generators[0].ifs and \
                    isinstance(sub_.generators[0].target, ast.Tuple) and len(sub_.generators[0].target.elts) == 2:
                t1 = norm(sub_.generators[0].target.elts[0])
                test = sub_.generators[0].ifs[0]
                pair_ok = isinstance(test, ast.Compare) and isinstance(test.ops[0], ast.In) and "replaces" in norm(test.comparators[0]) \
                    and isinstance(test.left, ast.Tuple) and norm(test.left.elts[0]) == t1
                ok = norm(sub_.elt) == t1 and pair_ok
                why = "" if ok else "the subtracted set is not the special-case side of the matching pairs"
        if len(rets) == 1 and isinstance(rets[0].value, ast.Name):
            R = rets[0].value.id
            defs = [d for d in all_defs(h, R) if isinstance(d, (ast.Assign, ast.AnnAssign))]
            src_ok = bool(defs) and all(norm(d.value) in (f"set({vararg})", f"set({R})", "set(types)", f"frozenset({vararg})",
                                                         f"{vararg}.copy()", f"set({vararg}).copy()") or
                                        (isinstance(d.value, ast.Call) and norm(d.value.func) == "set" and d.value.args
                                         and isinstance(d.value.args[0], ast.Name)) for d in defs)
            muts = [x for x in walk_no_nested(h.node) if isinstance(x, ast.Call) and isinstance(x.func, ast.Attribute)
                    and norm(x.func.value) == R and x.func.attr in ("add", "update", "discard", "remove", "pop", "clear",
                                                                    "difference_update", "intersection_update")]
            mut_ok = True
            for m in muts:
                lp = enclosing_loop(h.module, m)
                iff = h.module.parents.get(h.module.parents.get(m))
                pair_guard = isinstance(iff, ast.If) and isinstance(iff.test, ast.Compare) and isinstance(iff.test.ops[0], ast.In) \
                    and "replaces" in norm(iff.test.comparators[0]) and isinstance(iff.test.left, ast.Tuple) and len(iff.test.left.elts) == 2
                # the pair kept whole: `for pair in permutations(..): if pair in self.replaces: R.discard(pair[0])`
                whole_pair = isinstance(iff, ast.If) and isinstance(iff.test, ast.Compare) and len(iff.test.ops) == 1 \
                    and isinstance(iff.test.ops[0], ast.In) and "replaces" in norm(iff.test.comparators[0]) \
                    and isinstance(iff.test.left, ast.Name) and isinstance(lp, ast.For) and isinstance(lp.target, ast.Name) \
                    and lp.target.id == iff.test.left.id and m.args and norm(m.args[0]) == f"{lp.target.id}[0]" \
                    and isinstance(lp.iter, ast.Call) and norm(lp.iter.func).split(".")[-1] == "permutations"
                if whole_pair and m.func.attr in ("discard", "remove"):
                    continue
                if not (m.func.attr in ("discard", "remove") and pair_guard and m.args
                        and norm(m.args[0]) == norm(iff.test.left.elts[0])):
                    mut_ok = False
                    why = (f"`{norm(m)}` changes the result otherwise than by dropping the special-case side of a matching pair: "
                           f"types unrelated to the others can be lost (IntString, FloatString, BooleanString -> {{FloatString}})")
            rebuilt = [d for d in defs if isinstance(d.value, ast.Name) and d.value.id != vararg]
            if rebuilt:
                mut_ok = False
                why = (f"the result is replaced by `{norm(rebuilt[0].value)}`, a set collected from the right-hand sides of the "
                       f"matching pairs: a type related to none of the others is dropped as soon as any pair matches")
            ok = src_ok and mut_ok and not rebuilt
            if ok:
                why = ""
            elif not src_ok and mut_ok:
                why = "the result does not start as a copy of the given types"
        rr.ob(h.relpath, h.qualname, "return of resolve", "resolve() keeps every given type except those that another given "
              "type replaces (so a set with an unrelated member never resolves to a single type)", DISCHARGED if ok else VIOLATED,
              "copy of the arguments, only special cases discarded" if ok else why, h.node.lineno)
    if rr.instances == 0:
        raise AnalysisError("RES-1: StringSerializableRegistry.resolve vanished")
    # the caller turns an unresolved set (more than one type left) into plain str
    ou = prog.func("json_to_models/generator.py", "MetadataGenerator._optimize_union")
    rr.instances += 1
    def _more_than_one(t: ast.AST) -> bool:
        # exactly `len(X) > 1` (or `>= 2`, `!= 1` is not it): any further condition lets a set of several unrelated types pass
        return isinstance(t, ast.Compare) and len(t.ops) == 1 and isinstance(t.left, ast.Call) and norm(t.left.func) == "len" and \
            isinstance(t.comparators[0], ast.Constant) and ((isinstance(t.ops[0], ast.Gt) and t.comparators[0].value == 1) or
                                                            (isinstance(t.ops[0], ast.GtE) and t.comparators[0].value == 2))
    ok = any(isinstance(n, ast.IfExp) and norm(n.body) == "str" and _more_than_one(n.test) for n in walk_no_nested(ou.node)) or any(
        isinstance(n, ast.If) and _more_than_one(n.test) and any(isinstance(x, ast.Call) and x.args and norm(x.args[0]) == "str"
                                                                 for b in n.body for x in ast.walk(b)) for n in walk_no_nested(ou.node))
    rr.ob(ou.relpath, ou.qualname, "str if len(str_types) > 1 else next(iter(str_types))", "more than one pseudo-type left "
          "after resolving means plain str", DISCHARGED if ok else VIOLATED, "found" if ok else "missing", ou.node.lineno)
    return rr


# ---------------------------------------------------------------------------------------------------------------
# "B replaces A" (A is a particular case of B) is a semantic claim: B's parser accepts every string A's accepts.
# The pairs below were confirmed by reading; each names the structural facts the confirmation rests on.
COVER_JUSTIFIED = {
    ("IntString", "FloatString"): "int(s) succeeding implies float(s) succeeds (same whitespace/underscore/sign rules; "
                                  "digits beyond double range become inf, not an error)",
}


def _registrations(prog) -> List[Tuple[str, List[str], ast.AST, str]]:
    """(class name, replaced class names, node, relpath) for every registry.add(...) in the package."""
    out = []
    for m in prog.modules.values():
        for c in m.all_classes:
            for d in c.node.decorator_list:
                if isinstance(d, ast.Call) and isinstance(d.func, ast.Attribute) and d.func.attr == "add":
                    reps = []
                    for kw in d.keywords:
                        if kw.arg == "replace_types":
                            reps = [norm(e) for e in (kw.value.elts if isinstance(kw.value, (ast.Tuple, ast.List, ast.Set)) else [kw.value])]
                    out.append((c.name, reps, d, m.relpath))
        for n in ast.walk(m.tree) if hasattr(m, "tree") else []:
            if isinstance(n, ast.Call) and isinstance(n.func, ast.Attribute) and n.func.attr == "add":
                kws = {kw.arg: kw.value for kw in n.keywords if kw.arg}
                if "cls" in kws:
                    reps = []
                    if "replace_types" in kws:
                        v = kws["replace_types"]
                        reps = [norm(e) for e in (v.elts if isinstance(v, (ast.Tuple, ast.List, ast.Set)) else [v])]
                    out.append((norm(kws["cls"]), reps, n, m.relpath))
    return out


def _parser_of(prog, cname: str) -> Optional[FuncInfo]:
    for m in prog.modules.values():
        for c in m.all_classes:
            if c.name == cname:
                ms = prog.lookup_method(c, "to_internal_value")
                return ms[0] if ms else None
    return None


def _plain_constructor_parser(f: FuncInfo) -> Tuple[bool, str]:
    """True when the parser only calls `cls(value)`: it rejects what the builtin base rejects and nothing else."""
    nodes = list(walk_no_nested(f.node))
    raises = [n for n in nodes if isinstance(n, (ast.Raise, ast.Assert))]
    if raises:
        return False, f"it rejects strings on conditions of its own (`{norm(raises[0])[:60]}`, line {raises[0].lineno})"
    ctor = [n for n in nodes if isinstance(n, ast.Call) and norm(n.func) == "cls" and len(n.args) == 1 and
            isinstance(n.args[0], ast.Name) and n.args[0].id in f.params]
    other_calls = [n for n in nodes if isinstance(n, ast.Call) and n not in ctor]
    if ctor and not other_calls and not any(isinstance(n, (ast.If, ast.IfExp, ast.Try, ast.While, ast.For)) for n in nodes):
        return True, "the plain constructor call cls(value)"
    return False, "it is no longer just the constructor call `cls(value)`"


def rule_cover1(ctx: Ctx) -> RuleResult:
    rr = RuleResult("COVER-1", "a pseudo-type replaces another only where its parser provably accepts all the other accepts", floor=1)
    prog = ctx.prog
    regs = _registrations(prog)
    if len(regs) < 5:
        raise AnalysisError(f"COVER-1: only {len(regs)} pseudo-type registrations found")
    pairs = [(a, b, node, rel) for b, reps, node, rel in regs for a in reps]
    st = ("`B` registered with replace_types=(A,) means a field holding A-strings and B-strings is typed B: B's parser must "
          "accept every string A's parser accepts")
    n_pairs = 0
    for a, b, node, rel in pairs:
        n_pairs += 1
        rr.instances += 1
        why = COVER_JUSTIFIED.get((a, b))
        if why is None:
            rr.ob(rel, b, norm(node)[:90], st, VIOLATED,
                  f"{b} is declared to cover {a}, but nothing shows that {b}'s parser (and the type emitted for {b}) accepts "
                  f"every string {a} accepts; the confirmed pairs are {sorted(COVER_JUSTIFIED)}", node.lineno)
            continue
        pa, pb = _parser_of(prog, a), _parser_of(prog, b)
        if pa is None or pb is None:
            raise AnalysisError(f"COVER-1: parser of {a} or {b} not found")
        okb, howb = _plain_constructor_parser(pb)
        oka, howa = _plain_constructor_parser(pa)
        if okb and not oka:
            rr.ob(pa.relpath, pa.qualname, norm(node)[:90], st, VIOLATED,
                  f"{b} covers {a} on the ground that int(s) succeeding implies float(s) succeeds; but {a}'s parser is no longer the "
                  f"plain constructor ({howa}): it can accept strings (\"0x1F\" with base 0) that {b} rejects", pa.node.lineno)
            continue
        bases_ok = True
        for cname, base in ((a, "int"), (b, "float")):
            c = next((c for m in prog.modules.values() for c in m.all_classes if c.name == cname), None)
            if c is None or base not in [norm(x) for x in c.node.bases]:
                bases_ok = False
        ok = okb and bases_ok
        rr.ob(pb.relpath, pb.qualname, norm(node)[:90], st, DISCHARGED if ok else VIOLATED,
              f"{why}; {b}'s parser is {howb}" if ok else
              (f"{b} covers {a}, but {howb}: strings {a} accepts can now be rejected by the type chosen for the field"
               if not okb else f"{a}/{b} no longer derive from int/float, the inclusion the pair rests on"), pb.node.lineno)
    if n_pairs == 0:
        rr.instances += 1
        rr.ob(SSR[0], SSR[1], "replace_types", st, DISCHARGED, "no cover pair is registered", 1)
    return rr


# renderer forms that are inverses of the parsers in use (parse(render(v)) == v for every value the parser can produce)
RENDER_INVERSE_OK = {
    "str(self)": "int/float: str() round-trips through the constructor (repr-precision since 3.1; 'nan'/'inf' parse back)",
    "self.isoformat()": "date/time/datetime: isoformat() is what isoparse / dateutil.parse read back, zero-padded years included",
    "date.isoformat(self)": "same method, called through the base class",
    "time.isoformat(self)": "same method, called through the base class",
    "datetime.isoformat(self)": "same method, called through the base class",
    "super().isoformat()": "same method, called through super()",
    "int.__str__(self)": "same as str(self)",
    "float.__str__(self)": "same as str(self)",
    "float.__repr__(self)": "float repr is the shortest round-tripping text",
    "repr(float(self))": "float repr is the shortest round-tripping text",
    "str(float(self))": "same text as str(self)",
    "str(int(self))": "same text as str(self)",
    "str(bool(self)).lower()": "bool: 'true'/'false' are the two strings the parser maps back",
    "'true' if self else 'false'": "bool: the same two strings, chosen by the truth value directly",
    "'true' if bool(self) else 'false'": "bool: the same two strings, chosen by the truth value directly",
}
RENDER_KNOWN_BAD = ("strftime", "__format__", "ctime", "format(", "%")


def rule_rt1(ctx: Ctx) -> RuleResult:
    rr = RuleResult("RT-1", "every pseudo-type renders with the inverse of its parser", floor=5)
    prog = ctx.prog
    base = prog.cls(*SS)
    n = 0
    for k in prog.subclasses(base, strict=True):
        ms = k.methods.get("to_representation", [])
        if not ms:
            inh = prog.lookup_method(k, "to_representation")
            if not inh or inh[0].cls is base:
                continue
            ms = inh
        f = ms[0]
        n += 1
        rr.instances += 1
        rets = [x for x in walk_no_nested(f.node) if isinstance(x, ast.Return) and x.value is not None]
        st = (f"parsing what {k.name}.to_representation() produces gives back an equal value: the renderer is the inverse "
              f"of the parser for every value (years below 1000, NaN, infinities, negative zero included)")
        forms = [norm(r.value) for r in rets]
        # one level through a helper method of the same class
        expanded = []
        for r in rets:
            v = r.value
            if isinstance(v, ast.Call) and isinstance(v.func, ast.Attribute) and isinstance(v.func.value, ast.Name) and \
                    v.func.value.id == "self" and not v.args and not v.keywords and v.func.attr in k.methods:
                h = k.methods[v.func.attr][0]
                expanded += [norm(x.value) for x in walk_no_nested(h.node) if isinstance(x, ast.Return) and x.value is not None]
            else:
                expanded.append(norm(v))
        # `if self: return 'true'` / `return 'false'` is the conditional expression of the table written as statements
        if sorted(expanded) == ["'false'", "'true'"] and any(
                isinstance(x, ast.If) and norm(x.test) in ("self", "bool(self)") and len(x.body) == 1 and isinstance(x.body[0], ast.Return)
                and norm(x.body[0].value) == "'true'" for x in walk_no_nested(f.node)):
            expanded = ["'true' if self else 'false'"]
        bad = [e for e in expanded if e not in RENDER_INVERSE_OK]
        if not rets:
            rr.ob(f.relpath, f.qualname, "to_representation", st, VIOLATED, "nothing is returned", f.node.lineno)
        elif not bad:
            rr.ob(f.relpath, f.qualname, "; ".join(forms)[:80], st, DISCHARGED, RENDER_INVERSE_OK[expanded[0]], f.node.lineno)
        elif any(any(b in e for b in RENDER_KNOWN_BAD) for e in bad):
            rr.ob(f.relpath, f.qualname, "; ".join(forms)[:80], st, VIOLATED,
                  f"`{bad[0][:60]}` formats through a format string: the result depends on platform and value range "
                  f"(%Y is not zero-padded for years below 1000 on glibc) and the parser does not read it back", rets[0].lineno)
        else:
            raise AnalysisError(f"RT-1: renderer `{bad[0][:60]}` of {k.name} is not in the table of confirmed inverses; "
                                f"confirm it and extend RENDER_INVERSE_OK")
    if n < 5:
        raise AnalysisError(f"RT-1: only {n} renderers found")
    return rr


def rule_det6(ctx: Ctx) -> RuleResult:
    """A string is declared a plain string only after every registered parser has been tried on it."""
    rr = RuleResult("DET-6", "plain `str` / Literal is the verdict only when all registered parsers rejected the string", floor=1)
    f = ctx.prog.func(*GEN)
    mod = f.module
    loops = [n for n in walk_no_nested(f.node) if isinstance(n, ast.For) and "str_types_registry" in norm(n.iter)]
    if len(loops) != 1:
        raise AnalysisError(f"DET-6: expected one loop over the pseudo-type registry in _detect_type, found {len(loops)}")
    lp = loops[0]
    holder = mod.parents.get(lp)
    block = None
    for fld in ("body", "orelse", "finalbody"):
        b = getattr(holder, fld, None)
        if isinstance(b, list) and lp in b:
            block = b
    if block is None:
        raise AnalysisError("DET-6: cannot locate the block holding the registry loop")
    idx = block.index(lp)
    lv = norm(lp.target)
    st = ("inside the string branch, the only way to an answer other than a pseudo-type leads through the exhausted loop over "
          "the registry: a shortcut in front of it (length, first character, cache) types a parseable string as str")
    n = 0
    for i, stmt in enumerate(block):
        for r in ast.walk(stmt):
            if not isinstance(r, ast.Return) or r.value is None:
                continue
            n += 1
            rr.instances += 1
            inside = any(r is x for x in ast.walk(lp))
            if inside:
                ok = norm(r.value) == lv
                rr.ob(f.relpath, f.qualname, norm(r)[:70], st, DISCHARGED if ok else VIOLATED,
                      "returns the accepting pseudo-type" if ok else
                      f"`{norm(r)[:50]}` leaves the loop with another answer before the remaining parsers were tried", r.lineno)
            elif i < idx:
                rr.ob(f.relpath, f.qualname, norm(r)[:70], st, VIOLATED,
                      f"`{norm(r)[:50]}` answers before any parser has seen the string", r.lineno)
            else:
                rr.ob(f.relpath, f.qualname, norm(r)[:70], st, DISCHARGED, "reached only after the loop is exhausted", r.lineno)
    if n < 2:
        raise AnalysisError(f"DET-6: only {n} returns in the string branch")
    return rr


def rule_det7(ctx: Ctx) -> RuleResult:
    """A parser that rejects the string only disqualifies its own type: the detector goes on with the next registered type."""
    rr = RuleResult("DET-7", "a rejecting parser never ends the search through the registered types", floor=1)
    f = ctx.prog.func(*GEN)
    loops = [n for n in walk_no_nested(f.node) if isinstance(n, ast.For) and "str_types_registry" in norm(n.iter)]
    if len(loops) != 1:
        raise AnalysisError(f"DET-7: expected one loop over the pseudo-type registry, found {len(loops)}")
    lp = loops[0]
    handlers = [h for n in ast.walk(lp) if isinstance(n, ast.Try) for h in n.handlers]
    if not handlers:
        raise AnalysisError("DET-7: the detection loop has no exception handler")
    for h in handlers:
        rr.instances += 1
        leaves = [x for s_ in h.body for x in ast.walk(s_) if isinstance(x, (ast.Break, ast.Return, ast.Raise))]
        rr.ob(f.relpath, f.qualname, f"except {norm(h.type) if h.type is not None else ''}: {norm(h.body[-1])[:30]}",
              "whatever exception marks 'this type does not accept the string', the types registered after it are still tried "
              "(registration order decides, not which parser happened to raise what)", VIOLATED if leaves else DISCHARGED,
              f"`{norm(leaves[0])[:30]}` leaves the loop from the handler: the types registered later are never asked" if leaves
              else "continues with the next type", h.lineno)
    return rr


def rule_regdup1(ctx: Ctx) -> RuleResult:
    """REGDUP-1: registering a class that is already registered does not list it twice (remove() takes out one occurrence)."""
    rr = RuleResult("REGDUP-1", "a pseudo-type is listed once however often it is registered", floor=1)
    prog = ctx.prog
    c = prog.cls(*SSR)
    add = prog.lookup_method(c, "add")
    rm = prog.lookup_method(c, "remove")
    if not add or not rm:
        raise AnalysisError("REGDUP-1: add / remove vanished")
    rr.instances += 1
    st = ("after remove(cls) the class is not detected any more, also when it was registered twice (register_datetime_classes "
          "called twice on one registry): either add() does not append a class that is already listed, or remove() takes out every "
          "occurrence")
    funcs = [add[0]] + [g for g in prog.all_funcs() if g.parent is add[0]]
    apps = [(g, n) for g in funcs for n in walk_no_nested(g.node) if isinstance(n, ast.Call) and isinstance(n.func, ast.Attribute)
            and n.func.attr in ("append", "insert") and norm(n.func.value) == "self.types"]
    guarded = bool(apps) and all(any(isinstance(p_, ast.If) and "self.types" in norm(p_.test) and ("not in" in norm(p_.test) or " in " in norm(p_.test))
                                     for p_ in _anc(g.module, n)) for g, n in apps)
    rm_all = any(isinstance(n, ast.While) and "self.types" in norm(n.test) for n in walk_no_nested(rm[0].node)) or any(
        isinstance(n, ast.Assign) and norm(n.targets[0]) == "self.types" and isinstance(n.value, (ast.ListComp, ast.Call))
        for n in walk_no_nested(rm[0].node))
    ok = guarded or rm_all
    rr.ob(add[0].relpath, add[0].qualname, norm(apps[0][1]) if apps else "self.types.append(cls)", st, DISCHARGED if ok else VIOLATED,
          ("add() skips a class that is already listed" if guarded else "remove() takes out every occurrence") if ok else
          "add() appends unconditionally and remove() calls list.remove once: a class registered twice survives its removal",
          add[0].node.lineno)
    return rr


def _anc(mod, n):
    p = mod.parents.get(n)
    while p is not None:
        yield p
        p = mod.parents.get(p)
