"""C17 rules: ATOM-1/2 (one writer, opened last), EXC-1 (no swallowing), EXIT-1, OUT-1."""
from __future__ import annotations

import ast
import os
import re
from typing import Dict, List, Optional, Set, Tuple

from ..ctx import Ctx
from ..model import AnalysisError, ClassInfo, External, FuncInfo, norm, walk_no_nested
from ..report import ALLOWED, DISCHARGED, VIOLATED, RuleResult

WRITE_FUNCS = {"os.remove", "os.unlink", "os.replace", "os.rename", "os.truncate", "os.rmdir", "shutil.rmtree",
               "shutil.move", "shutil.copy", "shutil.copyfile", "shutil.copy2", "os.makedirs", "os.mkdir"}
WRITE_METHODS = {"write_text", "write_bytes", "unlink", "rename", "replace", "rmdir", "touch", "truncate"}

# pipeline stages whose failure must surface (anchors shared with STAGE-1)
CRITICAL = [
    ("json_to_models/cli.py", "Cli.run"), ("json_to_models/cli.py", "Cli.parse_args"),
    ("json_to_models/cli.py", "Cli.validate"), ("json_to_models/cli.py", "Cli.set_args"),
    ("json_to_models/cli.py", "Cli.setup_models_data"), ("json_to_models/cli.py", "iter_json_file"),
    ("json_to_models/cli.py", "dict_lookup"), ("json_to_models/cli.py", "process_path"),
    ("json_to_models/cli.py", "FileLoaders.json"), ("json_to_models/cli.py", "FileLoaders.yaml"),
    ("json_to_models/cli.py", "FileLoaders.ini"),
    ("json_to_models/generator.py", "MetadataGenerator.generate"),
    ("json_to_models/generator.py", "MetadataGenerator._convert"),
    ("json_to_models/generator.py", "MetadataGenerator.merge_field_sets"),
    ("json_to_models/generator.py", "MetadataGenerator.optimize_type"),
    ("json_to_models/registry.py", "ModelRegistry.process_meta_data"),
    ("json_to_models/registry.py", "ModelRegistry.merge_models"),
    ("json_to_models/registry.py", "ModelRegistry.generate_names"),
    ("json_to_models/models/structure.py", "compose_models"),
    ("json_to_models/models/structure.py", "compose_models_flat"),
    ("json_to_models/models/base.py", "generate_code"),
    ("json_to_models/models/base.py", "_generate_code"),
    ("json_to_models/models/base.py", "GenericModelCodeGenerator.generate"),
]


def _open_mode(call: ast.Call, method: bool) -> Optional[str]:
    """Mode of an open()/Path.open() call; None if not constant."""
    idx = 0 if method else 1
    mode_expr = None
    if len(call.args) > idx:
        mode_expr = call.args[idx]
    for k in call.keywords:
        if k.arg == "mode":
            mode_expr = k.value
    if mode_expr is None:
        return "r"
    if isinstance(mode_expr, ast.Constant) and isinstance(mode_expr.value, str):
        return mode_expr.value
    return None


def file_mutations(ctx: Ctx, funcs) -> List[Tuple[FuncInfo, ast.Call, str, str]]:
    """(function, call, kind, mode) for every call that opens or mutates a file."""
    out = []
    for f in sorted(funcs, key=lambda x: x.key):
        for n in walk_no_nested(f.node):
            if not isinstance(n, ast.Call):
                continue
            t = norm(n.func)
            if t in ("open", "io.open", "builtins.open", "codecs.open"):
                out.append((f, n, "open", _open_mode(n, False)))
            elif isinstance(n.func, ast.Attribute) and n.func.attr == "open" and t not in ("os.open",):
                out.append((f, n, "open", _open_mode(n, True)))
            elif t in WRITE_FUNCS or t.startswith("shutil."):
                out.append((f, n, "mutate", t))
            elif isinstance(n.func, ast.Attribute) and n.func.attr in WRITE_METHODS:
                # str.replace etc. share names: only count Path-like receivers
                if n.func.attr in ("replace", "rename", "touch", "truncate", "unlink", "rmdir"):
                    recv = norm(n.func.value)
                    if not re.search(r"path|file|Path", recv):
                        continue
                out.append((f, n, "mutate", n.func.attr))
    return out


def _lazy_value(ctx: Ctx, fi: FuncInfo, v: Optional[ast.AST]) -> Optional[str]:
    """Is the expression evaluated lazily (generator function call, generator expression, map/filter/iter)?"""
    if v is None:
        return None
    if isinstance(v, ast.GeneratorExp):
        return "a generator expression"
    if isinstance(v, ast.Call):
        if norm(v.func) in ("map", "filter", "iter", "itertools.chain", "chain", "zip"):
            return f"a lazy `{norm(v.func)}(...)` iterator"
        for t in ctx.cg.resolve_call(fi, fi.module, v):
            if isinstance(t, FuncInfo) and any(isinstance(x, (ast.Yield, ast.YieldFrom)) for x in walk_no_nested(t.node)):
                return f"the result of generator function {t.qualname}"
    return None


def _is_write_mode(mode: Optional[str]) -> bool:
    return mode is None or any(c in mode for c in "wax+")


def _failing_calls_after(ctx: Ctx, fi: FuncInfo, start_nodes: Set[int], skip_ids: Set[int]) -> List[ast.Call]:
    """Calls reachable (normal edges) from the given CFG nodes that may raise (anything but a small safe list)."""
    cfg = ctx.cfg(fi)
    reach: Set[int] = set()
    for s in start_nodes:
        reach |= cfg.reachable_from(s, labels_excluded=("exc",))
    out = []
    for nid in reach:
        node = cfg.nodes[nid]
        st = node.stmt
        if st is None:
            continue
        exprs = []
        if node.kind == "if" or node.kind == "while":
            exprs = [st.test]
        elif node.kind == "for":
            exprs = [st.iter]
        elif node.kind == "with":
            exprs = [i.context_expr for i in st.items]
        elif node.kind in ("with_exit", "handler"):
            continue
        else:
            exprs = [st]
        for e in exprs:
            for c in ast.walk(e):
                if isinstance(c, ast.Call) and id(c) not in skip_ids and not _safe_call(c):
                    out.append(c)
    return out


SAFE_BUILTINS = {"print", "str", "len", "repr", "isinstance", "bool", "int", "format", "type", "id"}


def _safe_call(c: ast.Call) -> bool:
    t = norm(c.func)
    return t in SAFE_BUILTINS


def rule_atom(ctx: Ctx) -> RuleResult:
    rr = RuleResult("ATOM-1/2", "one writer; the output file is opened only after everything that can fail", floor=3)
    cone = ctx.cli_cone
    muts = file_mutations(ctx, cone)
    main = ctx.prog.func("json_to_models/cli.py", "main")
    writers = 0
    for f, call, kind, mode in muts:
        rr.instances += 1
        st_read = "file access on CLI paths is classified: read-only opens cannot touch an existing output file"
        if kind == "open" and not _is_write_mode(mode):
            rr.ob(f.relpath, f.qualname, norm(call), st_read, DISCHARGED, f"read mode {mode!r}", call.lineno, trivial=True)
            continue
        writers += 1
        st = ("a file is opened for writing / mutated only when nothing that can fail remains to be done: the text "
              "is complete, and no failing call follows before the process ends")
        if kind != "open" and mode not in ("write_text", "write_bytes"):
            rr.ob(f.relpath, f.qualname, norm(call), st, VIOLATED,
                  f"file-system mutation `{mode}` on a CLI path besides the single output write", call.lineno)
            continue
        # (a) open is a with-item, body only calls methods of the handle with plain locals/constants
        mod = f.module
        par = mod.parents.get(call)
        problems = []
        body_ids: Set[int] = set()
        handle = None
        if kind != "open":
            cfg = ctx.cfg(f)
            dom = cfg.dominators()
            wn = cfg.node_containing(call, mod.parents)
            for a in call.args[:1]:
                if not isinstance(a, (ast.Name, ast.Constant)):
                    problems.append(f"written value `{norm(a)[:50]}` is computed while the file is being replaced")
                elif isinstance(a, ast.Name):
                    for d in [d for d in walk_no_nested(f.node) if isinstance(d, (ast.Assign, ast.AugAssign, ast.AnnAssign))
                              and any(isinstance(t, ast.Name) and t.id == a.id for t in
                                      (d.targets if isinstance(d, ast.Assign) else [d.target]))]:
                        if cfg.stmt_node(d) not in dom.get(wn, ()):
                            problems.append(f"definition of `{a.id}` at line {d.lineno} does not dominate the write")
            after_nodes = {b for b, l in cfg.succ[wn] if l != "exc"}
        elif isinstance(par, ast.withitem):
            w = mod.parents.get(par)
            handle = norm(par.optional_vars) if par.optional_vars is not None else None
            for stmt in w.body:
                for x in ast.walk(stmt):
                    body_ids.add(id(x))
                    if isinstance(x, ast.Call):
                        ok = isinstance(x.func, ast.Attribute) and handle is not None and norm(x.func.value) == handle \
                            and all(isinstance(a, (ast.Name, ast.Constant)) for a in x.args)
                        if not ok:
                            problems.append(f"call `{norm(x)}` inside the write block computes or fetches data while "
                                            f"the file is already truncated")
            # (b) every written value is a local defined before the open
            cfg = ctx.cfg(f)
            dom = cfg.dominators()
            wn = cfg.stmt_node(w)
            for stmt in w.body:
                for x in ast.walk(stmt):
                    if isinstance(x, ast.Call) and isinstance(x.func, ast.Attribute) and x.func.attr in ("write", "writelines"):
                        for a in x.args:
                            if isinstance(a, ast.Name):
                                defs = [d for d in walk_no_nested(f.node) if isinstance(d, (ast.Assign, ast.AugAssign, ast.AnnAssign))
                                        and any(isinstance(t, ast.Name) and t.id == a.id for t in
                                                (d.targets if isinstance(d, ast.Assign) else [d.target]))]
                                if not defs:
                                    problems.append(f"written value `{a.id}` has no definition in this function")
                                for d in defs:
                                    lazy = _lazy_value(ctx, f, d.value)
                                    if lazy:
                                        problems.append(f"`{a.id}` is {lazy}: it is evaluated while the file is already "
                                                        f"open and truncated, so a failure in generation destroys the "
                                                        f"existing output")
                                for d in defs:
                                    dn = cfg.stmt_node(d)
                                    if dn not in dom.get(wn, ()):
                                        problems.append(f"definition of `{a.id}` at line {d.lineno} does not dominate the open")
            after_nodes = {cfg.stmt_node(w)}
        else:
            problems.append("opened outside a `with` block: the handle stays open across later failing calls")
            cfg = ctx.cfg(f)
            after_nodes = {cfg.node_containing(call, mod.parents)}
        # (c) nothing that can fail after the open in this function
        skip = set(body_ids) | {id(call)}
        for c in ast.walk(call):
            skip.add(id(c))
        later = _failing_calls_after(ctx, f, after_nodes, skip)
        for c in later:
            problems.append(f"`{norm(c)[:70]}` (line {c.lineno}) can still fail after the file was opened")
        # (d) callers up to main: nothing that can fail after the call returns
        seen = set()
        frontier = [f]
        depth = 0
        while frontier and depth < 6:
            nxt = []
            for g in frontier:
                for caller in sorted(cone, key=lambda x: x.key):
                    for n in walk_no_nested(caller.node):
                        if isinstance(n, ast.Call) and g in [t for t in ctx.cg.resolve_call(caller, caller.module, n)
                                                            if isinstance(t, FuncInfo)]:
                            if (caller.key, id(n)) in seen:
                                continue
                            seen.add((caller.key, id(n)))
                            ccfg = ctx.cfg(caller)
                            cn = ccfg.node_containing(n, caller.module.parents)
                            succ = {b for b, l in ccfg.succ[cn] if l != "exc"}
                            # calls in the same statement that are evaluated after n (enclosing calls) are safe-listed
                            sk = {id(x) for x in ast.walk(n)}
                            for c in _failing_calls_after(ctx, caller, succ, sk):
                                problems.append(f"after `{g.qualname}` returns, `{norm(c)[:60]}` in {caller.qualname} "
                                                f"(line {c.lineno}) can still fail while the file is already rewritten")
                            encl = caller.module.parents.get(n)
                            while encl is not None and not isinstance(encl, ast.stmt):
                                if isinstance(encl, ast.Call) and not _safe_call(encl):
                                    problems.append(f"`{norm(encl)[:60]}` in {caller.qualname} consumes the result and can fail")
                                encl = caller.module.parents.get(encl)
                            if caller not in nxt and caller != main:
                                nxt.append(caller)
            # property reads (run is not a property; version_string is) are not call sites of writers
            frontier = nxt
            depth += 1
        if problems:
            rr.ob(f.relpath, f.qualname, norm(call), st, VIOLATED, "; ".join(problems[:4]), call.lineno)
        else:
            rr.ob(f.relpath, f.qualname, norm(call), st, DISCHARGED,
                  "with-block whose body only writes locals defined before the open; no failing call is reachable "
                  "after it in this function or after the call returns in its callers up to main", call.lineno)
    rr.notes.append(f"file accesses classified: {len(muts)}; write-capable: {writers}")
    if writers == 0:
        raise AnalysisError("ATOM: no write-open found on CLI paths (the -o writer vanished?)")
    # ordering of main: parse_args (loading + validation) precedes run
    parse = ctx.prog.func("json_to_models/cli.py", "Cli.parse_args")
    run = ctx.prog.func("json_to_models/cli.py", "Cli.run")
    cfg = ctx.cfg(main)
    dom = cfg.dominators()
    pn = rn = None
    for n in walk_no_nested(main.node):
        if isinstance(n, ast.Call):
            tg = [t for t in ctx.cg.resolve_call(main, main.module, n) if isinstance(t, FuncInfo)]
            if parse in tg:
                pn = cfg.node_containing(n, main.module.parents)
            if run in tg:
                rn = cfg.node_containing(n, main.module.parents)
    rr.instances += 1
    ok = pn is not None and rn is not None and pn in dom.get(rn, ()) and pn != rn
    rr.ob(main.relpath, main.qualname, "parse_args(); run()",
          "sample loading and validation (parse_args) complete before run() can open the output",
          DISCHARGED if ok else VIOLATED,
          "the parse_args call dominates the run call in main" if ok else "run() is not dominated by parse_args()",
          main.node.lineno)
    # loading is eager: every iterator produced while reading samples is consumed in parse_args' cone
    sm = ctx.prog.func("json_to_models/cli.py", "Cli.setup_models_data")
    lazy = []
    for n in walk_no_nested(sm.node):
        if isinstance(n, ast.Call):
            tg = [t for t in ctx.cg.resolve_call(sm, sm.module, n) if isinstance(t, FuncInfo)]
            for t in tg:
                is_gen = any(isinstance(x, (ast.Yield, ast.YieldFrom)) for x in walk_no_nested(t.node))
                if is_gen:
                    par = sm.module.parents.get(n)
                    consumed = False
                    # direct consumption: extend(<gen>) / list(<gen>) / for-loop iteration, possibly via one local
                    holder = None
                    if isinstance(par, ast.Assign) and isinstance(par.targets[0], ast.Name):
                        holder = par.targets[0].id
                    for c in walk_no_nested(sm.node):
                        if isinstance(c, ast.Call) and (norm(c.func).split(".")[-1] in ("extend", "list", "tuple", "sorted")):
                            if any((isinstance(a, ast.Name) and a.id == holder) or a is n for a in c.args):
                                consumed = True
                            # ... or drained through a generator expression / comprehension that is itself the argument
                            for a in c.args:
                                if isinstance(a, (ast.GeneratorExp, ast.ListComp)) and a.generators and (
                                        a.generators[0].iter is n or (isinstance(a.generators[0].iter, ast.Name) and a.generators[0].iter.id == holder)):
                                    consumed = True
                        if isinstance(c, ast.ListComp) and c.generators and c.generators[0].iter is n:
                            consumed = True
                        if isinstance(c, ast.For) and ((isinstance(c.iter, ast.Name) and c.iter.id == holder) or c.iter is n):
                            consumed = True
                    rr.instances += 1
                    rr.ob(sm.relpath, sm.qualname, norm(n)[:80],
                          "lazy sample iterators are exhausted while arguments are processed, so a bad file or lookup "
                          "fails before any output is produced", DISCHARGED if consumed else VIOLATED,
                          "generator result is consumed eagerly (extend/list/for) in the same function" if consumed else
                          "generator is stored unconsumed: the failure would surface later, possibly after output began",
                          n.lineno)
    return rr


def _handler_swallows(h: ast.ExceptHandler) -> bool:
    """Some path through the handler body reaches its end (or returns/continues/breaks) without raising."""
    def falls(body) -> bool:
        for st in body:
            if isinstance(st, ast.Raise):
                return False
            if isinstance(st, (ast.Return, ast.Continue, ast.Break)):
                return True
            if isinstance(st, ast.If):
                t = falls(st.body)
                e = falls(st.orelse) if st.orelse else True
                if not t and not e:
                    return False
                if isinstance(st, ast.If) and (t or e):
                    # one branch continues: keep scanning only if that branch falls through to the next statement
                    # (conservative: a branch that can continue makes the handler swallowing)
                    return True
            if isinstance(st, ast.Try):
                if falls(st.body):
                    return True
        return True
    return falls(h.body)


def rule_exc1(ctx: Ctx) -> RuleResult:
    rr = RuleResult("EXC-1", "no handler on a CLI path swallows a failure of loading, generation or output", floor=4)
    critical = set()
    for rel, q in CRITICAL:
        critical.add(ctx.prog.func(rel, q))
    cone = ctx.cli_cone
    for m in ctx.prog.pkg_modules():
        for n in ast.walk(m.tree):
            if not isinstance(n, ast.Try):
                continue
            fi = m.func_of_node(n)
            where = m.qual_of_node(n)
            on_cli = fi is None or fi in cone
            for h in n.handlers:
                rr.instances += 1
                tname = norm(h.type) if h.type is not None else "<bare>"
                st = "an exception raised by sample loading, generation, emission or output reaches the top of main"
                if not _handler_swallows(h):
                    rr.ob(m.relpath, where, f"except {tname}", st, DISCHARGED, "every path through the handler re-raises",
                          h.lineno)
                    continue
                broad = h.type is None or any(isinstance(x, ast.Name) and x.id in ("Exception", "BaseException")
                                              for x in ast.walk(h.type))
                # does the try body reach a critical stage?
                reaches = []
                if fi is not None:
                    tgs = set()
                    for st_ in n.body:
                        for c in ast.walk(st_):
                            if isinstance(c, ast.Call):
                                for t in ctx.cg.resolve_call(fi, m, c):
                                    if isinstance(t, FuncInfo):
                                        tgs.add(t)
                                    elif isinstance(t, ClassInfo):
                                        tgs.update(ctx.prog.lookup_method(t, "__init__"))
                                    elif isinstance(t, tuple) and t[0] == "byname":
                                        tgs.add(t[1])
                                if norm(c.func) in ("open",):
                                    reaches.append("open()")
                    reach = ctx.cg.reachable(tgs, byname=True) if tgs else set()
                    reaches += sorted(x.qualname for x in reach & critical)
                if not on_cli:
                    rr.ob(m.relpath, where, f"except {tname}", st, ALLOWED,
                          "swallowing handler, but the function is not reachable from main (runtime helper of generated "
                          "models)", h.lineno)
                elif broad:
                    rr.ob(m.relpath, where, f"except {tname}", st, VIOLATED,
                          "a bare / Exception-wide handler on a CLI path continues normally: the run would exit 0 after "
                          "a failure", h.lineno)
                elif reaches:
                    rr.ob(m.relpath, where, f"except {tname}", st, VIOLATED,
                          f"handler continues normally and its try body reaches pipeline stages {reaches[:4]}: a failure "
                          f"there of type {tname} is swallowed", h.lineno)
                else:
                    rr.ob(m.relpath, where, f"except {tname}", st, DISCHARGED,
                          f"names the specific type {tname} and its try body reaches no pipeline stage "
                          f"(body: {'; '.join(norm(s)[:50] for s in n.body)})", h.lineno)
    return rr


def rule_exit1(ctx: Ctx) -> RuleResult:
    rr = RuleResult("EXIT-1", "no success exit on a failure path; entry points call main unwrapped", floor=2)
    cone = ctx.cli_cone
    main = ctx.prog.func("json_to_models/cli.py", "main")
    for f in sorted(cone, key=lambda x: x.key):
        m = f.module
        for n in walk_no_nested(f.node):
            if isinstance(n, ast.Call) and norm(n.func) in ("sys.exit", "exit", "quit", "os._exit", "SystemExit"):
                rr.instances += 1
                zero = not n.args or (isinstance(n.args[0], ast.Constant) and n.args[0].value in (0, None, False))
                in_handler = False
                p = m.parents.get(n)
                while p is not None and p is not f.node:
                    if isinstance(p, ast.ExceptHandler):
                        in_handler = True
                    p = m.parents.get(p)
                bad = zero and in_handler
                rr.ob(f.relpath, f.qualname, norm(n), "a failure path never ends the process with status 0",
                      VIOLATED if bad else DISCHARGED,
                      "exit with zero/absent status inside an exception handler" if bad else
                      ("non-zero status" if not zero else "zero status outside any handler"), n.lineno)
    # ArgumentParser.exit(status=0, message=None): the default status is success
    for f in sorted(cone, key=lambda x: x.key):
        for n in walk_no_nested(f.node):
            if isinstance(n, ast.Call) and isinstance(n.func, ast.Attribute) and n.func.attr == "exit" and \
                    "pars" in norm(n.func.value).lower():
                rr.instances += 1
                stv = n.args[0] if n.args else next((k.value for k in n.keywords if k.arg == "status"), None)
                zero = stv is None or (isinstance(stv, ast.Constant) and stv.value in (0, None, False))
                has_msg = len(n.args) > 1 or any(k.arg == "message" for k in n.keywords)
                rr.ob(f.relpath, f.qualname, norm(n)[:70], "a failure path never ends the process with status 0",
                      VIOLATED if zero and has_msg else DISCHARGED,
                      "ArgumentParser.exit() with an error message and the default status 0: the failure is reported on stderr but "
                      "the process (and SystemExit for library callers) signals success" if zero and has_msg else "non-zero status",
                      n.lineno)
    # returns from main inside handlers
    for n in walk_no_nested(main.node):
        if isinstance(n, ast.Return):
            p = main.module.parents.get(n)
            while p is not None and p is not main.node:
                if isinstance(p, ast.ExceptHandler):
                    rr.instances += 1
                    rr.ob(main.relpath, main.qualname, norm(n), "main does not return normally from a handler",
                          VIOLATED, "return inside except: the interpreter exits 0", n.lineno)
                p = main.module.parents.get(p)
    # entry points
    mm = ctx.prog.module("json_to_models/__main__.py")
    calls = [n for n in ast.walk(mm.tree) if isinstance(n, ast.Call) and norm(n.func) == "main"]
    rr.instances += 1
    wrapped = any(isinstance(p, (ast.Try,)) for c in calls for p in _ancestors(mm, c))
    rr.ob(mm.relpath, "<module>", "main()", "__main__ calls main() directly, not inside try/except",
          DISCHARGED if calls and not wrapped else VIOLATED,
          "direct call" if calls and not wrapped else "main() missing or wrapped in try", calls[0].lineno if calls else 1)
    pp = os.path.join(ctx.root, "pyproject.toml")
    if os.path.isfile(pp):
        txt = open(pp, encoding="utf-8").read()
        mt = re.search(r"^\s*json2models\s*=\s*[\"']([\w.]+):(\w+)[\"']", txt, re.M)
        rr.instances += 1
        ok = bool(mt) and mt.group(1) == "json_to_models.cli" and mt.group(2) == "main"
        rr.ob("pyproject.toml", "[project.scripts]", mt.group(0).strip() if mt else "json2models = ?",
              "the console script is json_to_models.cli:main itself", DISCHARGED if ok else VIOLATED,
              "entry point is main" if ok else "console entry point is not main (a wrapper could change the status)", 1)
    return rr


def _ancestors(mod, node):
    p = mod.parents.get(node)
    while p is not None:
        yield p
        p = mod.parents.get(p)


def rule_out1(ctx: Ctx) -> RuleResult:
    rr = RuleResult("OUT-1", "model code is printed only after the whole run succeeded", floor=2)
    cone = ctx.cli_cone
    main = ctx.prog.func("json_to_models/cli.py", "main")
    run = ctx.prog.func("json_to_models/cli.py", "Cli.run")
    for f in sorted(cone, key=lambda x: x.key):
        for n in walk_no_nested(f.node):
            if not isinstance(n, ast.Call):
                continue
            t = norm(n.func)
            if t not in ("print", "sys.stdout.write", "sys.stdout.writelines", "pprint", "pprint.pprint"):
                continue
            rr.instances += 1
            st = "nothing derived from generated code is printed while the run can still fail"
            args = list(n.args)
            if all(isinstance(a, ast.Constant) for a in args):
                rr.ob(f.relpath, f.qualname, norm(n)[:80], st, DISCHARGED, "constant diagnostic text", n.lineno, trivial=True)
                continue
            if f == main and len(args) == 1 and isinstance(args[0], ast.Call) and run in [
                    x for x in ctx.cg.resolve_call(f, f.module, args[0]) if isinstance(x, FuncInfo)]:
                # nothing may follow in main that can fail
                cfg = ctx.cfg(f)
                pn = cfg.node_containing(n, f.module.parents)
                succ = {b for b, l in cfg.succ[pn] if l != "exc"}
                later = _failing_calls_after(ctx, f, succ, {id(x) for x in ast.walk(n)})
                rr.ob(f.relpath, f.qualname, norm(n), st, DISCHARGED if not later else VIOLATED,
                      "prints the value returned by run(): evaluated only after run() returned normally; nothing that "
                      "can fail follows" if not later else f"`{norm(later[0])[:60]}` can fail after the code was printed",
                      n.lineno)
                continue
            # f-strings / names: must not carry generation data
            names = {x.id for a in args for x in ast.walk(a) if isinstance(x, ast.Name)}
            followed_by_raise = False
            stp = f.module.parents.get(n)
            while stp is not None and not isinstance(stp, ast.stmt):
                stp = f.module.parents.get(stp)
            blk = f.module.parents.get(stp)
            for fld in ("body", "orelse", "finalbody"):
                seq = getattr(blk, fld, None)
                if isinstance(seq, list) and stp in seq:
                    i = seq.index(stp)
                    if i + 1 < len(seq) and isinstance(seq[i + 1], ast.Raise):
                        followed_by_raise = True
            if followed_by_raise:
                rr.ob(f.relpath, f.qualname, norm(n)[:80], st, DISCHARGED, "diagnostic immediately followed by raise",
                      n.lineno)
            else:
                rr.ob(f.relpath, f.qualname, norm(n)[:80], st, VIOLATED,
                      f"prints run-time data ({sorted(names)}) from inside the pipeline: output appears although a later "
                      f"stage may still fail", n.lineno)
    # with -o, run returns a status line that is not the code
    rets = [n for n in walk_no_nested(run.node) if isinstance(n, ast.Return) and n.value is not None]
    rr.analysed.append(f"{run.key}: {len(rets)} return statements")
    return rr


def rule_load1(ctx: Ctx) -> RuleResult:
    """Sibling agreement of the input loaders: each opens its path argument itself on every path to a return."""
    rr = RuleResult("LOAD-1", "every input loader opens the file it is given (a missing file raises)", floor=2)
    loaders = ctx.prog.cls("json_to_models/cli.py", "FileLoaders")
    for name, ms in sorted(loaders.methods.items()):
        for f in ms:
            params = f.params
            if not params:
                continue
            p = params[0]
            rr.instances += 1
            cfg = ctx.cfg(f)
            opens = []
            for n in walk_no_nested(f.node):
                if isinstance(n, ast.Call):
                    t = norm(n.func)
                    if (t == f"{p}.open") or (t in ("open", "io.open") and n.args and norm(n.args[0]) == p):
                        mode = _open_mode(n, t != "open" and t != "io.open")
                        if not _is_write_mode(mode):
                            opens.append(n)
            st = (f"loader `{name}` opens `{p}` itself on every path that returns data, so an unreadable input is an "
                  f"error and not an empty document")
            if not opens:
                others = [norm(n)[:60] for n in walk_no_nested(f.node) if isinstance(n, ast.Call) and any(
                    isinstance(a, ast.Name) and a.id == p for a in n.args)]
                rr.ob(f.relpath, f.qualname, f"{name}({p})", st, VIOLATED,
                      f"no open of `{p}`; the path is handed to {others or 'nothing'} - unlike the sibling loaders, whose "
                      f"open() raises for a missing file (e.g. ConfigParser.read silently skips unreadable files)",
                      f.node.lineno)
                continue
            # every return is dominated by an open
            dom = cfg.dominators()
            bad = []
            for n in walk_no_nested(f.node):
                if isinstance(n, ast.Return) and n.value is not None:
                    rn = cfg.stmt_node(n)
                    if not any(cfg.node_containing(o, f.module.parents) in dom.get(rn, ()) for o in opens):
                        bad.append(n)
            # the open must not sit in a try whose handler swallows OSError-like failures
            swallowed = False
            for o in opens:
                for anc in _ancestors(f.module, o):
                    if isinstance(anc, ast.Try) and any(_handler_swallows(h) for h in anc.handlers) and any(
                            o in list(ast.walk(s)) for s in anc.body):
                        swallowed = True
            if bad or swallowed:
                rr.ob(f.relpath, f.qualname, f"{name}({p})", st, VIOLATED,
                      "a return is reachable without opening the file" if bad else
                      "the open sits in a try whose handler continues normally", f.node.lineno)
            else:
                rr.ob(f.relpath, f.qualname, f"{name}({p})", st, DISCHARGED,
                      f"`{norm(opens[0])}` dominates every data return", f.node.lineno)
    return rr


def rule_enc1(ctx: Ctx) -> RuleResult:
    """Text is written to the output file with an explicit encoding (the locale must not decide)."""
    rr = RuleResult("ENC-1", "the output file is written with an explicit text encoding", floor=1)
    for f, call, kind, mode in file_mutations(ctx, ctx.cli_cone):
        if kind == "open" and not _is_write_mode(mode):
            continue
        is_text = (kind == "open" and (mode is None or "b" not in mode)) or mode == "write_text"
        if not is_text:
            # binary write: the bytes must come from an explicit .encode(<encoding>) of the text
            rr.instances += 1
            encs = [c for c in walk_no_nested(f.node) if isinstance(c, ast.Call) and isinstance(c.func, ast.Attribute)
                    and c.func.attr == "encode" and (c.args or c.keywords)]
            rr.ob(f.relpath, f.qualname, norm(call)[:80], "bytes written to the output file are the text encoded with an "
                  "explicit encoding, before the file is opened", DISCHARGED if encs else VIOLATED,
                  f"`{norm(encs[0])}` produces the bytes" if encs else "binary write without an explicit encode", call.lineno)
            continue
        rr.instances += 1
        has_enc = any(k.arg == "encoding" for k in call.keywords) or (
            kind == "open" and len(call.args) >= (4 if norm(call.func) in ("open", "io.open") else 3)) or (
            mode == "write_text" and len(call.args) >= 2)
        rr.ob(f.relpath, f.qualname, norm(call)[:80],
              "generated text (which may contain any non-ASCII key or literal) is encoded the same way whatever the "
              "locale, so -o stores exactly what would be printed and a successful generation cannot fail at the write",
              DISCHARGED if has_enc else VIOLATED,
              "explicit encoding" if has_enc else
              "no encoding given: under a non-UTF-8 locale the write raises UnicodeEncodeError after the existing file "
              "was truncated", call.lineno)
        # ENC-2: the text is known to be encodable before the existing file is truncated
        if has_enc:
            rr.instances += 1
            cfg = ctx.cfg(f)
            dom = cfg.dominators()
            on = cfg.node_containing(call, f.module.parents)
            written = set()
            par = f.module.parents.get(call)
            if isinstance(par, ast.withitem):
                w = f.module.parents.get(par)
                for x in ast.walk(w):
                    if isinstance(x, ast.Call) and isinstance(x.func, ast.Attribute) and x.func.attr in ("write", "writelines"):
                        written |= {a.id for a in x.args if isinstance(a, ast.Name)}
            elif mode == "write_text":
                written |= {a.id for a in call.args[:1] if isinstance(a, ast.Name)}
            pre = [c for c in walk_no_nested(f.node) if isinstance(c, ast.Call) and isinstance(c.func, ast.Attribute)
                   and c.func.attr == "encode" and isinstance(c.func.value, ast.Name) and c.func.value.id in written
                   and cfg.node_containing(c, f.module.parents) in dom.get(on, ()) and cfg.node_containing(c, f.module.parents) != on]
            binary = kind == "open" and mode is not None and "b" in mode
            ok2 = bool(pre) or binary
            rr.ob(f.relpath, f.qualname, norm(pre[0]) if pre else f"{sorted(written)} encoded before open?",
                  "the generated text is encoded (or proven encodable) before the output file is opened, so data that cannot be "
                  "encoded (a lone surrogate in a key or value) fails the run without truncating the existing file",
                  DISCHARGED if ok2 else VIOLATED, "encode() dominates the open" if ok2 else
                  "the first attempt to encode the text is the write itself, after the file was truncated: a sample such as "
                  "{\"k\": \"v\\ud800\"} leaves an empty output file behind", call.lineno)
    if rr.instances == 0:
        raise AnalysisError("ENC-1: no text write found on CLI paths")
    return rr


def rule_lookup1(ctx: Ctx) -> RuleResult:
    """A lookup that selects neither an object nor a list is an error on every path (never a silently empty input)."""
    from ..paths import enumerate_paths
    rr = RuleResult("LOOKUP-1", "a lookup result that is not an object or a list raises; every matched file is parsed", floor=2)
    f = ctx.prog.func("json_to_models/cli.py", "iter_json_file")
    for p in enumerate_paths(f.node.body):
        rr.instances += 1
        yields = any(isinstance(x, (ast.Yield, ast.YieldFrom)) for s in p.stmts() for x in ast.walk(s))
        ok = yields or p.exit == "raise"
        rr.ob(f.relpath, f.qualname, p.describe()[:100], "each way through iter_json_file either yields the selected "
              "samples or raises", DISCHARGED if ok else VIOLATED,
              "yields" if yields else ("raises" if ok else "returns nothing without raising: a lookup that selects null / a "
              "scalar is treated as an empty input, the run exits 0 and overwrites the output"), f.node.lineno)
    # LOAD-2: every path produced for an argument is handed to the selected loader, every time
    sm = ctx.prog.func("json_to_models/cli.py", "Cli.setup_models_data")
    loader = sm.params[-1]
    def _from_process_path(e) -> bool:
        if any(isinstance(c, ast.Call) and norm(c.func) == "process_path" for c in ast.walk(e)):
            return True
        if isinstance(e, ast.Name):
            ds = [d for d in walk_no_nested(sm.node) if isinstance(d, ast.Assign) and norm(d.targets[0]) == e.id]
            return bool(ds) and all(_from_process_path(d.value) for d in ds)
        if isinstance(e, ast.Call) and norm(e.func) in ("list", "tuple", "sorted", "iter") and e.args:
            return _from_process_path(e.args[0])
        return False
    loops = [n for n in walk_no_nested(sm.node) if isinstance(n, ast.For) and isinstance(n.target, ast.Name) and _from_process_path(n.iter)]
    if not loops:
        raise AnalysisError("LOAD-2: loop over process_path(...) not found in setup_models_data")
    for lp in loops:
        pv = lp.target.id
        for p in enumerate_paths(lp.body):
            if p.exit == "raise":
                continue
            rr.instances += 1
            def _loads(c):
                if not isinstance(c, ast.Call):
                    return False
                args = [norm(a) for a in c.args] + [norm(k.value) for k in c.keywords]
                if pv not in args:
                    return False
                return (isinstance(c.func, ast.Name) and c.func.id == loader) or loader in args
            called = any(_loads(c) for s in p.stmts() for c in ast.walk(s))
            if not called:
                # a memo hit: the same path (the path itself, not a part of it) was loaded earlier in this call
                for st_ in ast.walk(lp):
                    if isinstance(st_, ast.Assign) and isinstance(st_.targets[0], ast.Subscript) and any(_loads(c) for c in ast.walk(st_.value)):
                        key = st_.targets[0].slice
                        if isinstance(key, ast.Name) and key.id != pv:
                            ds = [d for d in ast.walk(lp) if isinstance(d, ast.Assign) and norm(d.targets[0]) == key.id]
                            if len(ds) == 1:
                                key = ds[0].value
                        elems = key.elts if isinstance(key, ast.Tuple) else [key]
                        whole_path = any(isinstance(e, ast.Name) and e.id == pv for e in elems)
                        memo = norm(st_.targets[0].value)
                        # the path took the "already in the memo" side of a membership test on that memo
                        hit = any(isinstance(c_, ast.Compare) and norm(c_.comparators[0]) == memo and (
                            (isinstance(c_.ops[0], ast.NotIn) and tv is False) or (isinstance(c_.ops[0], ast.In) and tv is True))
                            for c_, tv in p.conds())
                        if whole_path and hit:
                            called = True
            rr.ob(sm.relpath, sm.qualname, p.describe()[:100] or f"for {pv} in process_path(...)",
                  f"every matched path is opened and parsed by the selected loader (`{loader}({pv})`), so an unreadable or "
                  f"malformed file fails the run wherever it stands", DISCHARGED if called else VIOLATED,
                  "loader called on this path" if called else
                  "this path through the loop body skips the loader (cache / early continue): a bad file is never looked at",
                  lp.lineno)
    return rr


def rule_keychk1(ctx: Ctx) -> RuleResult:
    """Non-string keys are rejected wherever the keys of a sample object are consumed (models and mappings alike)."""
    rr = RuleResult("KEYCHK-1", "a sample object with a non-string key is an error, as a model and as a mapping", floor=2)
    prog = ctx.prog
    GENF = "json_to_models/generator.py"

    def checks_key(fi: FuncInfo, stmts, keyvar_hint=None) -> bool:
        """Do the statements test isinstance(<key>, str) and raise, directly or through a helper?"""
        for st in stmts:
            for x in ast.walk(st):
                if isinstance(x, ast.If) and "isinstance(" in norm(x.test) and ", str)" in norm(x.test) and any(
                        isinstance(y, ast.Raise) for b in x.body for y in ast.walk(b)):
                    return True
                if isinstance(x, ast.Call):
                    for t in ctx.cg.resolve_call(fi, fi.module, x):
                        if isinstance(t, FuncInfo) and t is not fi and any(
                                isinstance(y, ast.If) and "isinstance(" in norm(y.test) and ", str)" in norm(y.test) and any(
                                    isinstance(z, ast.Raise) for b in y.body for z in ast.walk(b)) for y in walk_no_nested(t.node)):
                            return True
        return False

    conv = prog.func(GENF, "MetadataGenerator._convert")
    lp = next((n for n in walk_no_nested(conv.node) if isinstance(n, ast.For) and norm(n.iter).endswith(".items()")), None)
    rr.instances += 1
    ok = lp is not None and checks_key(conv, lp.body)
    rr.ob(conv.relpath, conv.qualname, "for key, value in data.items(): <check key>", "every key of an object that becomes a "
          "model is checked to be a string", DISCHARGED if ok else VIOLATED, "checked in the loop" if ok else "no check", conv.node.lineno)
    det = prog.func(GENF, "MetadataGenerator._detect_type")
    v = [p for p in det.params if p != "self"][0]
    flag = [p for p in det.params if p != "self"][1]
    for iff in walk_no_nested(det.node):
        if isinstance(iff, ast.If) and norm(iff.test) == flag and iff.orelse:
            rr.instances += 1
            ok = checks_key(det, iff.orelse)
            rr.ob(det.relpath, det.qualname, f"if {flag}: ... else: <mapping branch>", "the keys of an object typed as a mapping "
                  "(dict-keys field or regex) are checked to be strings as well", DISCHARGED if ok else VIOLATED,
                  "checked before the value types are collected" if ok else
                  "the mapping branch never looks at the key types: YAML `files: {1: a}` under --dkf files exits 0 and emits "
                  "Dict[str, ...]", iff.lineno)
    return rr


# ---------------------------------------------------------------------------------------------------------------
EXISTENCE_TESTS = {"exists", "is_file", "is_dir", "isfile", "isdir", "lexists", "access"}


def rule_load3(ctx: Ctx) -> RuleResult:
    """A named input that does not exist must reach the loader (whose open() raises); it is never filtered away."""
    rr = RuleResult("LOAD-3", "input paths are not silently dropped by an existence test", floor=2)
    mod = ctx.prog.module("json_to_models/cli.py")
    cli = ctx.prog.cls("json_to_models/cli.py", "Cli")
    funcs = [f for f in mod.all_funcs if f.cls is None and f.parent is None] + \
            [f for n in ("setup_models_data", "parse_args", "run") for f in cli.methods.get(n, [])]
    anchors = {f.qualname for f in funcs}
    for need in ("process_path", "Cli.setup_models_data"):
        if need not in anchors:
            raise AnalysisError(f"LOAD-3: anchor {need} not found in cli.py")
    st = ("no path named on the command line is skipped because it does not exist or is not a regular file: a missing "
          "input has to fail the run, not shrink the sample set")
    for f in funcs:
        rr.instances += 1
        bad = []
        for n in ast.walk(f.node):
            if not (isinstance(n, ast.Call) and ((isinstance(n.func, ast.Attribute) and n.func.attr in EXISTENCE_TESTS) or
                                                 (isinstance(n.func, ast.Name) and n.func.id in EXISTENCE_TESTS))):
                continue
            # where is the test used?
            cur, par = n, mod.parents.get(n)
            verdict = None
            while par is not None:
                if isinstance(par, ast.comprehension) and cur in par.ifs:
                    verdict = "filters a comprehension"
                    break
                if isinstance(par, (ast.If, ast.While)) and (cur is par.test or cur in ast.walk(par.test)):
                    raises = any(isinstance(x, ast.Raise) for b in (par.body, par.orelse) for s_ in b for x in ast.walk(s_))
                    exits = any(isinstance(x, ast.Call) and norm(x.func) in ("sys.exit", "exit", "parser.error", "self.argparser.error")
                                for b in (par.body, par.orelse) for s_ in b for x in ast.walk(s_))
                    verdict = None if (raises or exits) else "guards a branch that neither raises nor exits"
                    break
                if isinstance(par, ast.Call) and norm(par.func) in ("filter", "itertools.filterfalse", "filterfalse"):
                    verdict = "is the predicate of filter()"
                    break
                if isinstance(par, ast.Lambda):
                    gp = mod.parents.get(par)
                    if isinstance(gp, ast.Call) and norm(gp.func) in ("filter", "itertools.filterfalse", "filterfalse", "itertools.takewhile",
                                                                         "itertools.dropwhile"):
                        verdict = "is the predicate of " + norm(gp.func)
                        break
                if isinstance(par, ast.IfExp) and cur is par.test:
                    verdict = "selects between values"
                    break
                if isinstance(par, (ast.Assert,)):
                    verdict = None
                    break
                if isinstance(par, (ast.FunctionDef, ast.AsyncFunctionDef)):
                    break
                cur, par = par, mod.parents.get(par)
            if verdict:
                bad.append((n, verdict))
        if bad:
            for n, why in bad:
                rr.ob(f.relpath, f.qualname, norm(n)[:80], st, VIOLATED,
                      f"`{norm(n)[:50]}` {why}: a path that does not exist is dropped and the run continues", n.lineno)
        else:
            rr.ob(f.relpath, f.qualname, f.name, st, DISCHARGED, "no existence test decides which inputs are read", f.node.lineno)
    return rr
