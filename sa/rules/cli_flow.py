"""C16 rules: OPTFLOW-1..5 (options defined, consumed, delivered, unconditionally, through total transformers),
SAME-1, STAGE-1, SEQ-1."""
from __future__ import annotations

import ast
import os
from typing import Dict, List, Optional, Set, Tuple

from ..ctx import Ctx
from ..effects import local_names, param_names
from ..model import AnalysisError, ClassInfo, FuncInfo, Module, attr_chain, norm, walk_no_nested
from ..report import ALLOWED, DISCHARGED, VIOLATED, RuleResult
from ..util import all_defs, enclosing_loop, enclosing_stmt, has_escape, names_in

CLI = "json_to_models/cli.py"

# oracle: option dest -> sink slots that must be reached.  Correspondences come from the CLI help / README
# (e.g. --strings-converters <-> post_init_converters, --no-unidecode <-> convert_unicode, --max-strings-literals <->
# max_literals); the rest is name identity.
EXPECTED_SINKS: Dict[str, List[Tuple[str, str]]] = {
    "model": [("MetadataGenerator.generate", "*data_variants"), ("ModelRegistry.process_meta_data", "model_name")],
    "list": [("MetadataGenerator.generate", "*data_variants"), ("ModelRegistry.process_meta_data", "model_name")],
    "input_format": [("iter_json_file", "data")],
    "output": [("open", "0")],
    "framework": [("generate_code", "class_generator")],
    "structure": [("generate_code", "structure")],
    "datetime": [("register_datetime_classes", "<guard>")],
    "strings_converters": [("generate_code", "class_generator_kwargs[post_init_converters]")],
    "max_strings_literals": [("generate_code", "class_generator_kwargs[max_literals]")],
    "disable_unicode_conversion": [("generate_code", "class_generator_kwargs[convert_unicode]")],
    "merge": [("ModelRegistry.__init__", "*models_cmp")],
    "dict_keys_regex": [("MetadataGenerator.__init__", "dict_keys_regex")],
    "dict_keys_fields": [("MetadataGenerator.__init__", "dict_keys_fields")],
    "code_generator": [("generate_code", "class_generator")],
    "code_generator_kwargs": [("generate_code", "class_generator_kwargs[*]")],
    "preamble": [("generate_code", "preamble")],
    "disable_str_serializable_types": [("StringSerializableRegistry.remove_by_name", "name")],
}
# delivery of <key> may legitimately depend on the value of <value> (documented pairing)
DEPENDS_OK = {"code_generator": {"framework"}, "framework": {"code_generator"}}


def argparse_options(ctx: Ctx) -> Dict[str, dict]:
    """dest -> {node, action, type, choices(expr), flags}"""
    f = ctx.prog.func(CLI, "Cli._create_argparser")
    out: Dict[str, dict] = {}
    for n in walk_no_nested(f.node):
        if isinstance(n, ast.Call) and isinstance(n.func, ast.Attribute) and n.func.attr == "add_argument":
            flags = [a.value for a in n.args if isinstance(a, ast.Constant) and isinstance(a.value, str)]
            kw = {k.arg: k.value for k in n.keywords if k.arg}
            dest = None
            if "dest" in kw and isinstance(kw["dest"], ast.Constant):
                dest = kw["dest"].value
            else:
                longs = [x for x in flags if x.startswith("--")]
                pick = longs[0] if longs else (flags[0] if flags else None)
                if pick:
                    dest = pick.lstrip("-").replace("-", "_")
            if dest:
                act = kw["action"].value if "action" in kw and isinstance(kw["action"], ast.Constant) else "store"
                typ = norm(kw["type"]) if "type" in kw else ("bool" if act in ("store_true", "store_false") else "str")
                entry = {"node": n, "action": act, "type": typ, "choices": kw.get("choices"), "flags": flags,
                         "nargs": norm(kw["nargs"]) if "nargs" in kw else None}
                if dest in out:
                    # a second option with the same destination (-l next to -m): the first one stays the option's entry
                    out[dest].setdefault("also", []).append(entry)
                else:
                    out[dest] = entry
    return out


def rule_optflow1(ctx: Ctx) -> RuleResult:
    rr = RuleResult("OPTFLOW-1", "every command-line option is read from the parsed namespace, and nothing else is", floor=12)
    opts = argparse_options(ctx)
    if len(opts) < 10:
        raise AnalysisError(f"OPTFLOW-1: only {len(opts)} add_argument calls recognised")
    cli = ctx.prog.module(CLI)
    reads: Dict[str, List[ast.Attribute]] = {}
    for f in cli.all_funcs:
        for n in walk_no_nested(f.node):
            if isinstance(n, ast.Attribute) and isinstance(n.value, ast.Name) and n.value.id == "namespace" and \
                    isinstance(n.ctx, ast.Load):
                reads.setdefault(n.attr, []).append(n)
    for dest, o in sorted(opts.items()):
        rr.instances += 1
        ok = dest in reads
        rr.ob(CLI, "Cli.parse_args", f"namespace.{dest}", f"option {o['flags']} is consumed", DISCHARGED if ok else VIOLATED,
              f"read {len(reads.get(dest, []))} time(s)" if ok else "defined by the argument parser but never read: "
              "the option is accepted and silently ignored", o["node"].lineno)
    for attr, ns in sorted(reads.items()):
        if attr not in opts:
            rr.instances += 1
            rr.ob(CLI, "Cli.parse_args", f"namespace.{attr}", "only defined options are read", VIOLATED,
                  "no add_argument defines this destination (AttributeError at run time)", ns[0].lineno)
    return rr


# ---------------------------------------------------------------------------------------------------------------
class Flow:
    """Forward taint of option values through Cli's methods: cells -> {option: set(key paths)}."""

    def __init__(self, ctx: Ctx):
        self.ctx = ctx
        self.prog = ctx.prog
        self.cli = ctx.prog.cls(CLI, "Cli")
        self.funcs = [f for ms in self.cli.methods.values() for f in ms] + \
                     [f for f in ctx.prog.module(CLI).all_funcs if f.parent is not None and ctx.effects._owner(f) == self.cli]
        self.taint: Dict[Tuple, Dict[str, Set[Optional[str]]]] = {}
        self.hops: Dict[str, List[Tuple[FuncInfo, ast.AST]]] = {}
        self.sinks: Dict[str, Set[Tuple[str, str]]] = {}
        self.sink_nodes: Dict[Tuple[str, str, str], ast.AST] = {}
        self._run()

    def cell_of(self, f: FuncInfo, e: ast.AST, defnode: Optional[ast.AST] = None) -> Optional[Tuple]:
        """Storage cell written by a target expression (locals are keyed by their defining statement)."""
        if isinstance(e, ast.Name):
            if e.id == "namespace":
                return None
            return (f.key, e.id, id(defnode) if defnode is not None else 0)
        if isinstance(e, ast.Attribute) and isinstance(e.value, ast.Name) and e.value.id == "self":
            return ("attr", e.attr, 0)
        return None

    def read_cells(self, f: FuncInfo, x: ast.AST) -> List[Tuple]:
        if isinstance(x, ast.Attribute) and isinstance(x.value, ast.Name) and x.value.id == "self":
            return [("attr", x.attr, 0)]
        if isinstance(x, ast.Name):
            defs = self.ctx.defs_reaching(f, x, x.id)
            if defs:
                return [(f.key, x.id, 0 if d is f.node else id(d)) for d in defs]
            return [k for k in self.taint if k[0] == f.key and k[1] == x.id]
        return []

    def _lib_call_nodes(self, f: FuncInfo, e: ast.AST) -> Set[int]:
        """ids of all nodes that are arguments of a call into the library (its result is the product, not the option)."""
        skip: Set[int] = set()
        for c in ast.walk(e):
            if isinstance(c, ast.Call):
                tg = self.ctx.cg.resolve_call(f, f.module, c)
                is_lib = any((isinstance(t, FuncInfo) and t not in self.funcs and not t.relpath.endswith("cli.py")) or
                             (isinstance(t, ClassInfo) and not t.module.relpath.endswith("cli.py")) for t in tg)
                tainted_callee = isinstance(c.func, (ast.Name, ast.Attribute)) and bool(self._raw_taint(f, c.func))
                if is_lib and not tainted_callee:
                    for a in list(c.args) + [k.value for k in c.keywords]:
                        for x in ast.walk(a):
                            skip.add(id(x))
        return skip

    def _raw_taint(self, f: FuncInfo, e: ast.AST):
        out = {}
        for x in ast.walk(e):
            if isinstance(x, (ast.Name, ast.Attribute)) and isinstance(getattr(x, "ctx", None), ast.Load):
                for c in self.read_cells(f, x):
                    for o, ks in self.taint.get(c, {}).items():
                        out.setdefault(o, set()).update(ks)
        return out

    def expr_taint(self, f: FuncInfo, e: ast.AST, cut_lib: bool = False) -> Dict[str, Set[Optional[str]]]:
        out: Dict[str, Set[Optional[str]]] = {}
        skip = self._lib_call_nodes(f, e) if cut_lib else set()
        for x in ast.walk(e):
            if id(x) in skip:
                continue
            if isinstance(x, ast.Attribute) and isinstance(x.value, ast.Name) and x.value.id == "namespace":
                out.setdefault(x.attr, set()).add(None)
            if isinstance(x, (ast.Name, ast.Attribute)) and isinstance(getattr(x, "ctx", None), ast.Load):
                for c in self.read_cells(f, x):
                    for o, ks in self.taint.get(c, {}).items():
                        out.setdefault(o, set()).update(ks)
        return out

    def _set(self, cell, d: Dict[str, Set[Optional[str]]], f: FuncInfo, node: ast.AST) -> bool:
        cur = self.taint.setdefault(cell, {})
        ch = False
        for o, ks in d.items():
            s = cur.setdefault(o, set())
            if not ks <= s:
                s |= ks
                ch = True
            if (f, node) not in self.hops.setdefault(o, []):
                self.hops[o].append((f, node))
        return ch

    def _run(self):
        changed = True
        rounds = 0
        while changed and rounds < 12:
            changed = False
            rounds += 1
            for f in self.funcs:
                for n in walk_no_nested(f.node):
                    if isinstance(n, (ast.Assign, ast.AnnAssign, ast.AugAssign)) and getattr(n, "value", None) is not None:
                        tg = n.targets if isinstance(n, ast.Assign) else [n.target]
                        v = n.value
                        keyed = self._keyed(f, v)
                        for t in tg:
                            tl = t.elts if isinstance(t, (ast.Tuple, ast.List)) else [t]
                            for t1 in tl:
                                if isinstance(t1, ast.Subscript):
                                    cs = self.read_cells(f, t1.value)
                                    for c in cs:
                                        k = t1.slice.value if isinstance(t1.slice, ast.Constant) else "*"
                                        d = {o: {k} for o in self.expr_taint(f, v)}
                                        changed |= self._set(c, d, f, n)
                                    continue
                                c = self.cell_of(f, t1, n)
                                if c is None:
                                    continue
                                d = keyed if keyed is not None else self.expr_taint(f, v, cut_lib=True)
                                changed |= self._set(c, d, f, n)
                    elif isinstance(n, (ast.For, ast.comprehension)):
                        d = self.expr_taint(f, n.iter)
                        for x in ast.walk(n.target):
                            if isinstance(x, ast.Name):
                                changed |= self._set((f.key, x.id, id(n)), d, f, n if isinstance(n, ast.For) else n.iter)
                    elif isinstance(n, ast.Call):
                        # mutating calls on cells: self.merge_policy.append(<tainted>)
                        if isinstance(n.func, ast.Attribute) and n.func.attr in ("append", "extend", "add", "update", "insert"):
                            recv = n.func.value.value if isinstance(n.func.value, ast.Subscript) else n.func.value
                            for c in self.read_cells(f, recv):
                                d = {}
                                for a in n.args:
                                    for o, ks in self.expr_taint(f, a).items():
                                        d.setdefault(o, set()).update(ks)
                                if d:
                                    changed |= self._set(c, d, f, n)
                        # calls to Cli methods bind arguments to parameters
                        for t in self.ctx.cg.resolve_call(f, f.module, n):
                            if isinstance(t, FuncInfo) and t in self.funcs:
                                ps = [p for p in param_names(t.node) if p not in ("self", "cls")]
                                for i, a in enumerate(n.args):
                                    if i < len(ps):
                                        d = self.expr_taint(f, a)
                                        if d:
                                            changed |= self._set((t.key, ps[i], 0), d, f, n)
                                for k in n.keywords:
                                    if k.arg:
                                        d = self.expr_taint(f, k.value)
                                        if d:
                                            changed |= self._set((t.key, k.arg, 0), d, f, n)
        self._collect_sinks()

    def _keyed(self, f: FuncInfo, v: ast.AST):
        """dict(k=v, ...) / {'k': v}: per-key taint."""
        pairs = None
        if isinstance(v, ast.Call) and norm(v.func) == "dict" and not v.args:
            pairs = [(k.arg, k.value) for k in v.keywords if k.arg]
        elif isinstance(v, ast.Dict) and all(isinstance(k, ast.Constant) for k in v.keys):
            pairs = [(k.value, val) for k, val in zip(v.keys, v.values)]
        if pairs is None:
            return None
        out: Dict[str, Set[Optional[str]]] = {}
        for k, val in pairs:
            for o in self.expr_taint(f, val):
                out.setdefault(o, set()).add(k)
        return out

    def _collect_sinks(self):
        for f in self.funcs:
            for n in walk_no_nested(f.node):
                if not isinstance(n, ast.Call):
                    continue
                tgs = self.ctx.cg.resolve_call(f, f.module, n)
                lib = []
                for t in tgs:
                    if isinstance(t, ClassInfo):
                        inits = self.prog.lookup_method(t, "__init__")
                        if inits and t.module.relpath != CLI or (inits and t.name != "Cli"):
                            lib.append((inits[0], f"{t.name}.__init__", 1))
                    elif isinstance(t, FuncInfo) and t not in self.funcs:
                        off = 1 if (t.cls is not None and not t.is_static) else 0
                        lib.append((t, t.qualname, off))
                fn = norm(n.func)
                if fn in ("open", "io.open"):
                    for i, a in enumerate(n.args[:1]):
                        for o in self.expr_taint(f, a):
                            self._sink(o, "open", str(i), n)
                if isinstance(n.func, ast.Attribute) and n.func.attr in ("write_text", "write_bytes", "open"):
                    for o in self.expr_taint(f, n.func.value):
                        self._sink(o, "open", "0", n)
                # a tainted callable being called: `parser(real_path)`, `self.structure_fn(...)`
                ct = self.expr_taint(f, n.func) if isinstance(n.func, (ast.Name, ast.Attribute)) else {}
                if ct and not lib:
                    par = f.module.parents.get(n)
                    # where does the result go?
                    holder = None
                    if isinstance(par, ast.Assign) and isinstance(par.targets[0], ast.Name):
                        holder = par.targets[0].id
                        for o, ks in ct.items():
                            self._set((f.key, holder, id(par)), {o: ks}, f, par)
                    elif isinstance(par, ast.Call):
                        for t2 in self.ctx.cg.resolve_call(f, f.module, par):
                            if isinstance(t2, FuncInfo):
                                ps = param_names(t2.node)
                                idx = par.args.index(n) if n in par.args else None
                                if idx is not None and idx < len(ps):
                                    for o in ct:
                                        self._sink(o, t2.qualname, ps[idx], n)
                for callee, cname, off in lib:
                    ps = param_names(callee.node)
                    a_ = callee.node.args
                    pos = [p.arg for p in a_.posonlyargs + a_.args][off:]
                    for i, a in enumerate(n.args):
                        star = isinstance(a, ast.Starred)
                        e = a.value if star else a
                        tt = self.expr_taint(f, e)
                        if not tt:
                            continue
                        if star:
                            slot = "*" + (a_.vararg.arg if a_.vararg else "args")
                        else:
                            slot = pos[i] if i < len(pos) else ("*" + a_.vararg.arg if a_.vararg else str(i))
                        for o, ks in tt.items():
                            for k in ks:
                                self._sink(o, cname, slot + (f"[{k}]" if k is not None else ""), n)
                    for k in n.keywords:
                        if not k.arg:
                            continue
                        for o, ks in self.expr_taint(f, k.value).items():
                            for kk in ks:
                                self._sink(o, cname, k.arg + (f"[{kk}]" if kk is not None else ""), n)
                    # guards
                    p = f.module.parents.get(n)
                    while p is not None and p is not f.node:
                        if isinstance(p, ast.If):
                            for o in self.expr_taint(f, p.test):
                                self._sink(o, cname, "<guard>", n)
                        p = f.module.parents.get(p)
        # second pass: holders set in _collect_sinks may feed further sinks
        # (structure = self.structure_fn(...); generate_code(structure, ...))
        for f in self.funcs:
            for n in walk_no_nested(f.node):
                if isinstance(n, ast.Call):
                    for t in self.ctx.cg.resolve_call(f, f.module, n):
                        if isinstance(t, FuncInfo) and t not in self.funcs:
                            a_ = t.node.args
                            off = 1 if (t.cls is not None and not t.is_static) else 0
                            pos = [p.arg for p in a_.posonlyargs + a_.args][off:]
                            for i, a in enumerate(n.args):
                                if isinstance(a, ast.Name) and i < len(pos):
                                    for o, ks in self.expr_taint(f, a).items():
                                        for k in ks:
                                            self._sink(o, t.qualname, pos[i] + (f"[{k}]" if k is not None else ""), n)

    def _sink(self, opt: str, callee: str, slot: str, node: ast.AST):
        self.sinks.setdefault(opt, set()).add((callee, slot))
        self.sink_nodes.setdefault((opt, callee, slot), node)


# ---------------------------------------------------------------------------------------------------------------
def _op_chain(f: FuncInfo, leaf: ast.AST, stop: ast.AST) -> Optional[List[Tuple[str, ast.AST]]]:
    """Operations applied to the value read at ``leaf`` on its way up to ``stop`` (a statement or a call argument root).
    None when the value is only tested (comparison / condition), i.e. it is not what is delivered."""
    ops: List[Tuple[str, ast.AST]] = []
    cur = leaf
    par = f.module.parents.get(cur)
    while par is not None and cur is not stop:
        if isinstance(par, ast.Compare):
            return None
        if isinstance(par, (ast.If, ast.While, ast.IfExp)) and par.test is cur:
            return None
        if isinstance(par, ast.Attribute) and par.value is cur:
            gp = f.module.parents.get(par)
            if isinstance(gp, ast.Call) and gp.func is par:
                limited = par.attr in ("split", "rsplit") and (len(gp.args) > 1 or any(k.arg == "maxsplit" for k in gp.keywords))
                ops.append((f".{par.attr}({'.., n' if limited else ''})", gp))
                cur = gp
                par = f.module.parents.get(cur)
                continue
            ops.append((f".{par.attr}", par))
        elif isinstance(par, ast.Call):
            if cur is not par.func:
                ops.append((f"{norm(par.func)}(..)", par))
        elif isinstance(par, ast.keyword):
            pass
        elif isinstance(par, ast.UnaryOp):
            ops.append((type(par.op).__name__.lower(), par))
        elif isinstance(par, ast.BoolOp):
            others = [norm(v) for v in par.values if v is not cur]
            # `value or ()` / `value or None`: nothing given stays nothing - not an operation on the value
            empty = all(o in ("()", "[]", "{}", "None", "''", "set()", "tuple()", "list()", "dict()") for o in others)
            if not (isinstance(par.op, ast.Or) and empty):
                ops.append((f"{type(par.op).__name__.lower()} {'/'.join(others)[:30]}", par))
        elif isinstance(par, ast.BinOp):
            ops.append((f"binop {type(par.op).__name__}", par))
        elif isinstance(par, (ast.JoinedStr, ast.FormattedValue)):
            if isinstance(par, ast.JoinedStr):
                ops.append((f"f-string {norm(par)[:40]}", par))
        elif isinstance(par, ast.Subscript):
            if par.value is cur:
                ops.append(("[" + ("slice" if isinstance(par.slice, ast.Slice) else norm(par.slice)[:12]) + "]", par))
            else:
                ops.append((f"index into {norm(par.value)[:30]}", par))
        elif isinstance(par, (ast.ListComp, ast.GeneratorExp, ast.SetComp, ast.DictComp)):
            if isinstance(par, ast.SetComp):
                ops.append(("set-comprehension", par))
        elif isinstance(par, ast.comprehension):
            for c in par.ifs:
                if c is cur:
                    return None
        elif isinstance(par, ast.Set):
            ops.append(("set-display", par))
        if par is stop:
            break
        cur = par
        par = f.module.parents.get(cur)
    return ops


def value_ops(ctx: Ctx, fl: "Flow") -> Dict[str, Dict[str, Tuple[FuncInfo, ast.AST]]]:
    """option -> {operation descriptor: (function, node)} over every hop and sink of the option."""
    out: Dict[str, Dict[str, Tuple[FuncInfo, ast.AST]]] = {}
    for f in fl.funcs:
        for st in walk_no_nested(f.node):
            if not isinstance(st, ast.stmt):
                continue
            if isinstance(st, (ast.FunctionDef, ast.AsyncFunctionDef, ast.ClassDef)):
                continue
            roots: List[ast.AST] = []
            if isinstance(st, (ast.Assign, ast.AnnAssign, ast.AugAssign)) and getattr(st, "value", None) is not None:
                roots.append(st.value)
            elif isinstance(st, ast.For):
                roots.append(st.iter)
            elif isinstance(st, (ast.Expr, ast.Return)) and st.value is not None:
                roots.append(st.value)
            elif isinstance(st, ast.With):
                roots.extend(i.context_expr for i in st.items)
            for root in roots:
                for x in ast.walk(root):
                    if not (isinstance(x, (ast.Name, ast.Attribute)) and isinstance(getattr(x, "ctx", None), ast.Load)):
                        continue
                    # outermost attribute chain only (self.preamble, not `self`)
                    par = f.module.parents.get(x)
                    if isinstance(x, ast.Name) and isinstance(par, ast.Attribute) and par.value is x and x.id in ("self", "namespace"):
                        continue
                    t: Dict[str, Set[Optional[str]]] = {}
                    if isinstance(x, ast.Attribute) and isinstance(x.value, ast.Name) and x.value.id == "namespace":
                        t = {x.attr: {None}}
                    else:
                        for c in fl.read_cells(f, x):
                            for o, ks in fl.taint.get(c, {}).items():
                                t.setdefault(o, set()).update(ks)
                    if not t:
                        continue
                    chain = _op_chain(f, x, root)
                    if chain is None:
                        continue
                    # operations applied before the value enters the library count; the library call and whatever is
                    # done with its result do not
                    kept = []
                    for d, node in chain:
                        if isinstance(node, ast.Call) and not d.startswith("."):
                            tg = ctx.cg.resolve_call(f, f.module, node)
                            if any((isinstance(tt, FuncInfo) and tt not in fl.funcs and not tt.relpath.endswith("cli.py"))
                                   or (isinstance(tt, ClassInfo) and not tt.module.relpath.endswith("cli.py")) for tt in tg):
                                break
                        kept.append((d, node))
                    # a helper of the command-line module the value is handed to: what it does to its parameter counts too
                    extra = []
                    for d, node in kept:
                        if isinstance(node, ast.Call) and not d.startswith("."):
                            for tt in ctx.cg.resolve_call(f, f.module, node):
                                if isinstance(tt, FuncInfo) and tt.relpath.endswith("cli.py") and tt not in fl.funcs and tt.cls is None:
                                    extra += _helper_ops(tt)
                    for o in t:
                        for d, node in kept:
                            out.setdefault(o, {}).setdefault(d, (f, node))
                        for d, g, node in extra:
                            out.setdefault(o, {}).setdefault(d, (g, node))
    return out


def _helper_ops(h: FuncInfo) -> List[Tuple[str, FuncInfo, ast.AST]]:
    """Content operations a helper applies to (something taken from) its parameters."""
    tainted = set(h.params)
    changed = True
    while changed:
        changed = False
        for n in ast.walk(h.node):
            tgt, src = None, None
            if isinstance(n, ast.comprehension) or isinstance(n, ast.For):
                tgt, src = n.target, n.iter
            elif isinstance(n, ast.Assign) and len(n.targets) == 1:
                tgt, src = n.targets[0], n.value
            if tgt is None:
                continue
            if any(isinstance(x, ast.Name) and x.id in tainted for x in ast.walk(src)):
                for x in ast.walk(tgt):
                    if isinstance(x, ast.Name) and x.id not in tainted:
                        tainted.add(x.id)
                        changed = True
    out = []
    for n in ast.walk(h.node):
        if isinstance(n, ast.Call) and isinstance(n.func, ast.Attribute) and n.func.attr in CONTENT_METHODS and any(
                isinstance(x, ast.Name) and x.id in tainted for x in ast.walk(n.func.value)):
            out.append((f".{n.func.attr}()", h, n))
        elif isinstance(n, ast.Call) and norm(n.func) in CONTENT_FUNCS and any(
                isinstance(x, ast.Name) and x.id in tainted for a in n.args for x in ast.walk(a)):
            out.append((f"{norm(n.func)}(..)", h, n))
    return out


def rule_optflow2(ctx: Ctx) -> RuleResult:
    rr = RuleResult("OPTFLOW-2/5", "every option value reaches its library parameter, independently of other options",
                    floor=12)
    opts = argparse_options(ctx)
    fl = Flow(ctx)
    for dest in sorted(opts):
        exp = EXPECTED_SINKS.get(dest)
        rr.instances += 1
        got = fl.sinks.get(dest, set())
        if exp is None:
            rr.ob(CLI, "Cli", f"--{dest}", "option has a documented library destination", VIOLATED if not got else DISCHARGED,
                  f"new option; reaches {sorted(got)}" if got else "new option that reaches no library call", opts[dest]["node"].lineno)
            continue
        missing = [s for s in exp if not any(_slot_match(s, g) for g in got)]
        st = f"the value of --{dest.replace('_', '-')} reaches " + " and ".join(f"{c}({s})" for c, s in exp)
        rr.ob(CLI, "Cli", f"namespace.{dest}", st, VIOLATED if missing else DISCHARGED,
              (f"no flow to {missing}; reaches only {sorted(got)[:6]}" if missing else
               f"flows through {len(fl.hops.get(dest, []))} statements to {[g for g in sorted(got) if any(_slot_match(s, g) for s in exp)]}"),
              opts[dest]["node"].lineno)
        # cross-wiring: must not land in another option's exclusive keyword of the same callee
        for (c, s) in got:
            for other, oexp in EXPECTED_SINKS.items():
                if other == dest or other not in opts:
                    continue
                for (oc, os_) in oexp:
                    if oc == c and os_ == s and (c, s) not in exp and not s.startswith("*") and s not in (
                            "class_generator", "structure", "model_name") and c in ("MetadataGenerator.__init__", "generate_code"):
                        rr.instances += 1
                        rr.ob(CLI, "Cli", f"namespace.{dest} -> {c}({s})", f"--{dest} is not delivered into the slot of --{other}",
                              VIOLATED, f"value of --{dest} flows into {c}({s}), the destination of --{other}",
                              opts[dest]["node"].lineno)
    # OPTFLOW-5: hops are control-dependent only on the option itself
    own_value_tests: List[tuple] = []
    for dest in sorted(opts):
        for f, node in fl.hops.get(dest, []):
            st_node = node
            m = f.module
            while st_node is not None and not isinstance(st_node, ast.stmt):
                st_node = m.parents.get(st_node)
            p = m.parents.get(st_node)
            child = st_node
            foreign = []
            while p is not None and p is not f.node:
                if isinstance(p, (ast.If, ast.While)):
                    tt = fl.expr_taint(f, p.test)
                    others = {o for o in tt if o != dest and o in opts and o not in DEPENDS_OK.get(dest, set())}
                    own = dest in tt
                    if others and not own:
                        foreign.append((norm(p.test)[:50], sorted(others), "else-branch" if child in p.orelse else "then-branch"))
                    if own and opts[dest]["type"] == "int" and not _is_none_test(p.test):
                        own_value_tests.append((f, st_node, norm(p.test)[:50]))
                child, p = p, m.parents.get(p)
            if foreign:
                rr.instances += 1
                t, o, br = foreign[0]
                rr.ob(f.relpath, f.qualname, norm(st_node)[:80],
                      f"--{dest.replace('_', '-')} is forwarded whatever the other options are", VIOLATED,
                      f"this hop sits in the {br} of `if {t}`, which tests option(s) {o}: --{dest} is dropped for some "
                      f"combinations", st_node.lineno)
    seen_ov = set()
    for f, st_node, test in own_value_tests:
        k = (f.key, id(st_node))
        if k in seen_ov:
            continue
        seen_ov.add(k)
        rr.instances += 1
        rr.ob(f.relpath, f.qualname, norm(st_node)[:80], "an integer option is forwarded for every value, 0 included "
              "(`--max-strings-literals 0` is documented to disable literals)", VIOLATED,
              f"this hop is guarded by `{test}`, a truthiness / magnitude test of the option's own value: the value 0 (or "
              f"negatives) is silently replaced by the generator's default", st_node.lineno)
    return rr


def _is_none_test(test: ast.AST) -> bool:
    t = test
    while isinstance(t, ast.UnaryOp) and isinstance(t.op, ast.Not):
        t = t.operand
    return isinstance(t, ast.Compare) and len(t.ops) == 1 and isinstance(t.ops[0], (ast.Is, ast.IsNot)) and \
        isinstance(t.comparators[0], ast.Constant) and t.comparators[0].value is None


def _slot_match(exp: Tuple[str, str], got: Tuple[str, str]) -> bool:
    ec, es = exp
    gc, gs = got
    if ec != gc and not gc.endswith("." + ec) and not ec.endswith("." + gc):
        return False
    if es == gs:
        return True
    if es.endswith("[*]") and gs.startswith(es[:-3] + "["):
        return True
    return False


# ---------------------------------------------------------------------------------------------------------------
def rule_optflow3(ctx: Ctx) -> RuleResult:
    rr = RuleResult("OPTFLOW-3", "every accepted choice has a handler", floor=4)
    opts = argparse_options(ctx)
    cli = ctx.prog.cls(CLI, "Cli")
    mod = ctx.prog.module(CLI)
    loaders = ctx.prog.cls(CLI, "FileLoaders")

    def keys_of(table: str) -> Optional[List[str]]:
        v = cli.assigns.get(table)
        if isinstance(v, ast.Dict):
            return [k.value for k in v.keys if isinstance(k, ast.Constant)]
        return None

    def eval_choices(e: ast.AST) -> Optional[List[str]]:
        if e is None:
            return None
        if isinstance(e, (ast.List, ast.Tuple)):
            out = []
            for x in e.elts:
                if isinstance(x, ast.Constant):
                    out.append(x.value)
                else:
                    return None
            return out
        if isinstance(e, ast.BinOp) and isinstance(e.op, ast.Add):
            l, r = eval_choices(e.left), eval_choices(e.right)
            return None if l is None or r is None else l + r
        if isinstance(e, ast.Call) and norm(e.func) in ("list", "tuple", "sorted") and e.args:
            return eval_choices(e.args[0])
        if isinstance(e, ast.Call) and isinstance(e.func, ast.Attribute) and e.func.attr == "keys":
            ch = attr_chain(e.func.value)
            if ch and ch[0] in ("cls", "self", "Cli"):
                return keys_of(ch[-1])
        if isinstance(e, ast.Attribute):
            ch = attr_chain(e)
            if ch and ch[0] in ("cls", "self", "Cli"):
                return keys_of(ch[-1])
        return None

    checks = [("input_format", [m for m, fs in loaders.methods.items() if fs[0].is_static], "static methods of FileLoaders"),
              ("structure", keys_of("STRUCTURE_FN_MAPPING"), "keys of STRUCTURE_FN_MAPPING"),
              ("framework", (keys_of("MODEL_GENERATOR_MAPPING") or []) + ["custom"], "keys of MODEL_GENERATOR_MAPPING + custom")]
    for dest, handlers, what in checks:
        rr.instances += 1
        o = opts.get(dest)
        if o is None:
            raise AnalysisError(f"OPTFLOW-3: option {dest} vanished")
        ch = eval_choices(o["choices"])
        if ch is None or handlers is None:
            raise AnalysisError(f"OPTFLOW-3: cannot evaluate choices of --{dest}")
        extra = [c for c in ch if c not in handlers]
        rr.ob(CLI, "Cli._create_argparser", f"choices of --{dest} = {ch}", f"each choice is one of the {what}",
              VIOLATED if extra else DISCHARGED,
              f"{extra} accepted by the parser but unhandled (KeyError/AttributeError after loading)" if extra else
              "all handled", o["node"].lineno)
    # glob symbols: the characters process_path treats as pattern magic are the ones the --model help documents
    pp = ctx.prog.func(CLI, "process_path")
    tested = set()
    for c in ast.walk(pp.node):
        # `"*" in part` / `"?" not in part` on a path component, in a lambda, a comprehension or a plain statement
        if isinstance(c, ast.Compare) and isinstance(c.ops[0], (ast.In, ast.NotIn)) and isinstance(c.left, ast.Constant) \
                and isinstance(c.left.value, str) and 0 < len(c.left.value) <= 2 and isinstance(c.comparators[0], ast.Name):
            tested |= set(c.left.value)
        if isinstance(c, ast.Call) and norm(c.func) in ("any", "all", "set"):
            for k in ast.walk(c):
                if isinstance(k, ast.Constant) and isinstance(k.value, str) and 0 < len(k.value) <= 4:
                    tested |= set(k.value)
    helptext = ""
    mo = opts.get("model")
    if mo is not None:
        for k in mo["node"].keywords:
            if k.arg == "help":
                v = ctx.folder.try_fold(mod, k.value, cli)
                helptext = v if isinstance(v, str) else ""
    import re as _re
    documented = set("".join(_re.findall(r"'([*?\[\]]+)'", helptext)))
    if not tested or not documented:
        raise AnalysisError(f"OPTFLOW-3: pattern symbols of process_path ({sorted(tested)}) / of the --model help ({sorted(documented)}) "
                            f"could not be read")
    if tested and documented:
        rr.instances += 1
        extra = sorted(tested - documented)
        rr.ob(CLI, "process_path", f"pattern symbols tested: {sorted(tested)}", f"only the documented pattern symbols "
              f"{sorted(documented)} make a path component a glob pattern; any other character is a literal file name",
              VIOLATED if extra else DISCHARGED, f"{extra} also switch to pattern matching: a file whose name contains them "
              f"is silently skipped or another file is loaded" if extra else "code and help agree", pp.node.lineno)
    # custom is split off before the mapping is indexed, in validate and set_args
    sa = ctx.prog.func(CLI, "Cli.set_args")
    rr.instances += 1
    ok = False
    for n in walk_no_nested(sa.node):
        if isinstance(n, ast.If) and "framework" in norm(n.test) and "custom" in norm(n.test):
            idx_in = [x for s in (n.body if "!=" in norm(n.test) else n.orelse) for x in ast.walk(s)
                      if isinstance(x, ast.Subscript) and "MODEL_GENERATOR_MAPPING" in norm(x.value)]
            idx_all = [x for x in walk_no_nested(sa.node) if isinstance(x, ast.Subscript) and "MODEL_GENERATOR_MAPPING" in norm(x.value)]
            ok = bool(idx_in) and len(idx_in) == len(idx_all)
    rr.ob(sa.relpath, sa.qualname, "MODEL_GENERATOR_MAPPING[framework]", "the mapping is indexed only when the "
          "framework is not `custom`", DISCHARGED if ok else VIOLATED, "guarded by the custom split" if ok else
          "indexed without excluding `custom`", sa.node.lineno)
    # merge policy names validated against the table before they index it
    va = ctx.prog.func(CLI, "Cli.validate")
    pa = ctx.prog.func(CLI, "Cli.parse_args")
    rr.instances += 1
    tests = [n for n in walk_no_nested(va.node) if isinstance(n, ast.Compare) and isinstance(n.ops[0], ast.NotIn)
             and "MODEL_CMP_MAPPING" in norm(n.comparators[0])]
    # `TABLE.get(k) is None` asks the same when no entry of the table is None (a class-level dict display of comparator classes)
    cli_cls = ctx.prog.cls(CLI, "Cli")
    tbl = cli_cls.assigns.get("MODEL_CMP_MAPPING") if hasattr(cli_cls, "assigns") else None
    no_none = isinstance(tbl, ast.Dict) and not any(isinstance(v, ast.Constant) and v.value is None for v in tbl.values)
    if no_none:
        tests += [n for n in walk_no_nested(va.node) if isinstance(n, ast.Compare) and len(n.ops) == 1 and isinstance(n.ops[0], ast.Is)
                  and isinstance(n.comparators[0], ast.Constant) and n.comparators[0].value is None and isinstance(n.left, ast.Call)
                  and isinstance(n.left.func, ast.Attribute) and n.left.func.attr == "get" and len(n.left.args) == 1
                  and "MODEL_CMP_MAPPING" in norm(n.left.func.value)]
    raises = [n for n in walk_no_nested(va.node) if isinstance(n, ast.Raise)]
    order_ok = False
    calls = {}
    for n in walk_no_nested(pa.node):
        if isinstance(n, ast.Call):
            for t in ctx.cg.resolve_call(pa, pa.module, n):
                if isinstance(t, FuncInfo) and t in (va, sa):
                    calls[t.name] = n
    if "validate" in calls and "set_args" in calls:
        from ..util import follows_unconditionally
        order_ok = follows_unconditionally(pa.node.body, calls["validate"], calls["set_args"])
    ok = len(tests) >= 2 and len(raises) >= 2 and order_ok
    rr.ob(va.relpath, va.qualname, "m not in self.MODEL_CMP_MAPPING", "unknown merge policies are rejected by validate(), "
          "which runs before set_args() indexes the table", DISCHARGED if ok else VIOLATED,
          f"{len(tests)} membership tests, {len(raises)} raises, validate before set_args={order_ok}", va.node.lineno)
    return rr


# ---------------------------------------------------------------------------------------------------------------
def _converter_total(ctx: Ctx, mod: Module, conv: ast.AST, label: str) -> Tuple[bool, str]:
    """Does converter `conv`, applied to a value of static type `label`, return something that depends on it?"""
    cv = conv
    if isinstance(cv, ast.Name):
        r = ctx.prog.resolve_global(mod, cv.id)
        from ..model import ConstRef, External
        if isinstance(r, ConstRef) and r.value is not None:
            cv = r.value
        elif isinstance(r, External):
            nm = r.dotted.split(".")[-1]
            if nm in ("int", "float", "str", "bool"):
                return True, f"builtin constructor {nm} accepts {label}"
            return True, f"external callable {r.dotted} (assumed total)"
        elif isinstance(r, FuncInfo):
            cv = r.node
    if isinstance(cv, ast.Lambda):
        arg = cv.args.args[0].arg if cv.args.args else None
        return _expr_depends(cv.body, arg, label)
    if isinstance(cv, ast.FunctionDef):
        arg = cv.args.args[0].arg if cv.args.args else None
        rets = [n for n in ast.walk(cv) if isinstance(n, ast.Return) and n.value is not None]
        res = [_expr_depends(r.value, arg, label) for r in rets]
        if any(ok for ok, _ in res):
            return True, "; ".join(w for _, w in res)
        return False, "; ".join(w for _, w in res) or "no return"
    return True, f"converter `{norm(conv)[:40]}` not analysable (assumed total)"


def _expr_depends(e: ast.AST, arg: str, label: str) -> Tuple[bool, str]:
    if isinstance(e, ast.IfExp):
        t = e.test
        # isinstance(arg, T)
        if isinstance(t, ast.Call) and norm(t.func) == "isinstance" and len(t.args) == 2 and norm(t.args[0]) == arg:
            types = {norm(x) for x in (t.args[1].elts if isinstance(t.args[1], ast.Tuple) else [t.args[1]])}
            taken = e.body if label in types else e.orelse
            return _expr_depends(taken, arg, label)
        a, b = _expr_depends(e.body, arg, label), _expr_depends(e.orelse, arg, label)
        return (a[0] or b[0]), f"{a[1]} | {b[1]}"
    if isinstance(e, ast.Call) and isinstance(e.func, ast.Attribute) and e.func.attr == "get" and \
            isinstance(e.func.value, ast.Dict) and e.args and norm(e.args[0]) == arg:
        keys = e.func.value.keys
        if all(isinstance(k, ast.Constant) and isinstance(k.value, str) for k in keys) and label != "str":
            return False, (f"`{norm(e)[:60]}` looks a {label} up in a dict whose keys are all strings: it never matches, "
                           f"so the result is the default whatever the value")
        return True, "dict lookup on a matching key type"
    if isinstance(e, ast.Subscript) and isinstance(e.value, ast.Dict) and norm(e.slice) == arg:
        keys = e.value.keys
        if all(isinstance(k, ast.Constant) and isinstance(k.value, str) for k in keys) and label != "str":
            return False, f"`{norm(e)[:60]}` indexes a string-keyed dict with a {label}: KeyError"
        return True, "dict lookup"
    if arg in {x.id for x in ast.walk(e) if isinstance(x, ast.Name)}:
        return True, f"`{norm(e)[:50]}` uses the value"
    return False, f"`{norm(e)[:50]}` ignores the value"


def rule_optflow4(ctx: Ctx) -> RuleResult:
    rr = RuleResult("OPTFLOW-4", "converters on the delivery path are total on the values that reach them", floor=3)
    cli = ctx.prog.cls(CLI, "Cli")
    mod = cli.module
    opts = argparse_options(ctx)
    fl = Flow(ctx)
    # static type of each generator keyword as delivered by set_args' dict(...)
    key_types: Dict[str, Set[str]] = {}
    for dest, sinks in fl.sinks.items():
        for (c, s) in sinks:
            if c == "generate_code" and s.startswith("class_generator_kwargs[") and dest in opts:
                k = s[len("class_generator_kwargs["):-1]
                ty = opts[dest]["type"]
                if dest == "code_generator_kwargs":
                    continue
                key_types.setdefault(k, set()).add({"int": "int", "bool": "bool"}.get(ty, "str"))
    # negation keeps bool
    rr.notes.append(f"generator keyword types from the CLI: { {k: sorted(v) for k, v in key_types.items()} }")
    for table in ("MODEL_GENERATOR_MAPPING", "MODEL_CMP_MAPPING"):
        v = cli.assigns.get(table)
        if not isinstance(v, ast.Dict):
            raise AnalysisError(f"OPTFLOW-4: Cli.{table} is not a dict literal")
        for k, val in zip(v.keys, v.values):
            if not (isinstance(val, ast.Call) and norm(val.func).split(".")[-1] == "convert_args"):
                continue
            name = k.value if isinstance(k, ast.Constant) else "?"
            for kw in val.keywords:
                if not kw.arg:
                    continue
                labels = set(key_types.get(kw.arg, set())) | {"str"}  # --code-generator-kwargs always delivers str
                for lb in sorted(labels):
                    rr.instances += 1
                    ok, why = _converter_total(ctx, mod, kw.value, lb)
                    rr.ob(CLI, f"Cli.{table}[{name!r}]", f"{kw.arg}={norm(kw.value)} on {lb}",
                          f"the converter attached to `{kw.arg}` for `{name}` passes a {lb} value through (the option "
                          f"stays effective)", DISCHARGED if ok else VIOLATED, why, val.lineno)
            for i, a in enumerate(val.args[1:]):
                rr.instances += 1
                ok, why = _converter_total(ctx, mod, a, "str")
                rr.ob(CLI, f"Cli.{table}[{name!r}]", f"arg{i}={norm(a)[:40]} on str",
                      f"positional converter #{i} of `{name}` is total on the string parts of the option",
                      DISCHARGED if ok else VIOLATED, why, val.lineno)
    return rr


# ---------------------------------------------------------------------------------------------------------------
STAGES = ["MetadataGenerator.generate", "ModelRegistry.process_meta_data", "ModelRegistry.merge_models",
          "ModelRegistry.generate_names", "<structure>", "generate_code"]


def _stage_sequence(ctx: Ctx, f: FuncInfo) -> List[Tuple[str, ast.Call]]:
    out = []
    for n in walk_no_nested(f.node):
        if isinstance(n, ast.Call):
            for t in ctx.cg.resolve_call(f, f.module, n):
                q = None
                if isinstance(t, FuncInfo):
                    if t.qualname in STAGES:
                        q = t.qualname
                    elif t.qualname in ("compose_models", "compose_models_flat"):
                        q = "<structure>"
                if q and not any(x[1] is n for x in out):
                    out.append((q, n))
    out.sort(key=lambda x: (x[1].lineno, x[1].col_offset))
    return out


def rule_stage_same(ctx: Ctx) -> RuleResult:
    rr = RuleResult("STAGE-1/SAME-1", "run() executes the library pipeline in order, once, and writes what it would print",
                    floor=6)
    run = ctx.prog.func(CLI, "Cli.run")
    cfg = ctx.cfg(run)
    dom = cfg.dominators()
    seq = _stage_sequence(ctx, run)
    names = [q for q, _ in seq]
    rr.analysed.append(f"stage calls in run(): {names}")
    # each stage exactly once, in pipeline order, each dominating the next
    prev = None
    for stage in STAGES:
        rr.instances += 1
        calls = [n for q, n in seq if q == stage]
        st = f"stage `{stage}` is executed exactly once per run (per model for the first two), after the previous stage"
        if len(calls) != 1:
            rr.ob(run.relpath, run.qualname, stage, st, VIOLATED, f"{len(calls)} call sites", run.node.lineno)
            prev = calls[0] if calls else prev
            continue
        c = calls[0]
        cn = cfg.node_containing(c, run.module.parents)
        problems = []
        if prev is not None:
            plp = enclosing_loop(run.module, prev)
            pn = cfg.node_containing(prev, run.module.parents)
            if plp is not None and enclosing_loop(run.module, c) is not plp:
                pn = cfg.stmt_node(plp)  # the previous stage runs per model: the loop itself must come first
            if pn not in dom.get(cn, ()) and pn != cn:
                problems.append("not dominated by the previous stage (a path skips it)")
            if pn == cn and not (prev.lineno, prev.col_offset) < (c.lineno, c.col_offset):
                problems.append("evaluated before the previous stage")
        lp = enclosing_loop(run.module, c)
        in_model_loop = isinstance(lp, ast.For) and "models_data" in norm(lp.iter)
        if stage in STAGES[:2] and not in_model_loop:
            problems.append("not inside the loop over model names")
        if stage not in STAGES[:2] and lp is not None:
            problems.append("inside a loop: executed several times")
        # unconditional: no enclosing if
        p = run.module.parents.get(c)
        while p is not None and p is not run.node:
            if isinstance(p, ast.If) and not any(c is x for x in ast.walk(p.test)):
                problems.append(f"conditional on `{norm(p.test)[:40]}`")
            p = run.module.parents.get(p)
        rr.ob(run.relpath, run.qualname, norm(c)[:70], st, VIOLATED if problems else DISCHARGED,
              "; ".join(problems) if problems else "once, unconditional, dominated by the previous stage", c.lineno)
        prev = c
    # the structure function consumes the registry that was merged and named; generate_code consumes that structure
    gc_call = next((n for q, n in seq if q == "generate_code"), None)
    if gc_call is not None:
        rr.instances += 1
        a0 = gc_call.args[0] if gc_call.args else None
        d = None
        if isinstance(a0, ast.Name):
            defs = ctx.defs_reaching(run, a0, a0.id) or []
            d = defs[0] if len(defs) == 1 else None
        ok = isinstance(d, ast.Assign) and isinstance(d.value, ast.Call) and "structure_fn" in norm(d.value.func) and \
            d.value.args and norm(d.value.args[0]).endswith(".models_map")
        rr.ob(run.relpath, run.qualname, norm(gc_call)[:60], "generate_code renders the structure computed from the "
              "registry's models_map by the selected layout function", DISCHARGED if ok else VIOLATED,
              "structure = self.structure_fn(registry.models_map)" if ok else "structure argument has another origin",
              gc_call.lineno)
    # SAME-1
    writes = [n for n in walk_no_nested(run.node) if isinstance(n, ast.Call) and isinstance(n.func, ast.Attribute)
              and n.func.attr in ("write", "write_text") and n.args]
    rets = [n for n in walk_no_nested(run.node) if isinstance(n, ast.Return) and n.value is not None]
    rr.instances += 1
    if not writes:
        raise AnalysisError("SAME-1: run() no longer writes the output file")
    w = writes[0]
    wa = w.args[0]
    printed = [r for r in rets if isinstance(r.value, ast.Name)]
    ok = False
    why = "written value or printed value is not a plain local"
    if isinstance(wa, ast.Name) and printed and not all(r.value.id == wa.id for r in printed):
        # bytes written = <printed local>.encode(...)
        dw0 = ctx.defs_reaching(run, wa, wa.id) or []
        if len(dw0) == 1 and isinstance(dw0[0], ast.Assign) and isinstance(dw0[0].value, ast.Call) and \
                isinstance(dw0[0].value.func, ast.Attribute) and dw0[0].value.func.attr == "encode" and \
                isinstance(dw0[0].value.func.value, ast.Name):
            wa = dw0[0].value.func.value
    if isinstance(wa, ast.Name) and printed:
        same_name = all(r.value.id == wa.id for r in printed)
        dw = ctx.defs_reaching(run, wa, wa.id) or []
        dr = [d for r in printed for d in (ctx.defs_reaching(run, r.value, r.value.id) or [])]
        ok = same_name and len(dw) == 1 and all(d is dw[0] for d in dr)
        why = "" if ok else f"write uses `{wa.id}` from {len(dw)} definition(s); print path uses {[r.value.id for r in printed]}"
    rr.ob(run.relpath, run.qualname, norm(w)[:60], "with -o the very text that would be printed is written (one "
          "definition reaches both)", DISCHARGED if ok else VIOLATED,
          f"`{wa.id}` has a single definition reaching both the write and the return" if ok else why, w.lineno)
    return rr


def rule_seq1(ctx: Ctx) -> RuleResult:
    rr = RuleResult("SEQ-1", "samples reach generate() in argument order, none skipped", floor=3)
    sm = ctx.prog.func(CLI, "Cli.setup_models_data")
    cfg = ctx.cfg(sm)
    ORDER_CHANGING = {"sorted", "set", "frozenset", "reversed", "OrderedSet", "dict.fromkeys", "random.shuffle", "Counter",
                      "filter", "itertools.filterfalse", "filterfalse", "itertools.islice", "islice", "itertools.compress",
                      "itertools.dropwhile", "itertools.groupby", "unique"}
    # (a) no order-changing operation on the sample path
    for f in (sm, ctx.prog.func(CLI, "iter_json_file"), ctx.prog.func(CLI, "Cli.run")):
        for n in walk_no_nested(f.node):
            if isinstance(n, ast.Call) and (norm(n.func) in ORDER_CHANGING or (
                    isinstance(n.func, ast.Attribute) and n.func.attr in ("sort", "reverse"))):
                rr.instances += 1
                rr.ob(f.relpath, f.qualname, norm(n)[:60], "sample sequences are only concatenated and iterated", VIOLATED,
                      "order-changing / de-duplicating operation on the sample path", n.lineno)
    for f in (sm, ctx.prog.func(CLI, "iter_json_file")):
        for n in walk_no_nested(f.node):
            if isinstance(n, (ast.ListComp, ast.GeneratorExp)) and any(g.ifs for g in n.generators):
                rr.instances += 1
                rr.ob(f.relpath, f.qualname, norm(n)[:60], "sample sequences are only concatenated and iterated", VIOLATED,
                      "a filtering comprehension on the sample path drops samples (e.g. empty objects)", n.lineno)
    # (b) the accumulation is reached on every non-raising path of each loop iteration
    exts = [n for n in walk_no_nested(sm.node) if isinstance(n, ast.Call) and isinstance(n.func, ast.Attribute)
            and n.func.attr in ("extend", "append") and isinstance(n.func.value, ast.Subscript)]
    # `D[name] += samples` on a list is extend()
    exts += [n for n in walk_no_nested(sm.node) if isinstance(n, ast.AugAssign) and isinstance(n.op, ast.Add) and isinstance(n.target, ast.Subscript)]
    if not exts:
        raise AnalysisError("SEQ-1: setup_models_data no longer accumulates samples per model name")
    for e in exts:
        lp = enclosing_loop(sm.module, e)
        chain = []
        while lp is not None:
            chain.append(lp)
            lp = enclosing_loop(sm.module, lp)
        for lp in chain:
            rr.instances += 1
            hdr = cfg.stmt_node(lp)
            body_entry = next(b for b, l in cfg.succ[hdr] if l == "T")
            en = cfg.node_containing(e, sm.module.parents)
            # every path from the body entry back to the header passes through the accumulation (or an inner loop
            # that contains it)
            inner = [x for x in chain if x is not lp and any(x is y for y in ast.walk(lp))]
            via = {en} | {cfg.stmt_node(x) for x in inner}
            paths = cfg.paths(body_entry, {hdr}, follow_back=True)
            skipping = [p for p in paths if not any(nid in via for nid, _ in p)]
            rr.ob(sm.relpath, sm.qualname, f"for {norm(lp.target)} in {norm(lp.iter)[:40]}",
                  "each iteration adds its samples (no file or argument is skipped)", VIOLATED if skipping else DISCHARGED,
                  f"{len(skipping)} path(s) through the loop body bypass `{norm(e)[:40]}` (continue / conditional skip)"
                  if skipping else f"all {len(paths)} non-raising paths reach the accumulation", lp.lineno)
        # iterables are the arguments themselves
    # (c) argument lists are concatenated in order
    rr.instances += 1
    cat = [n for n in walk_no_nested(sm.node) if isinstance(n, ast.Assign) and isinstance(n.value, ast.BinOp)
           and isinstance(n.value.op, ast.Add) and "models" in norm(n.value)]
    ps = [p for p in sm.params if p != "self"]
    ok = (bool(cat) and norm(cat[0].value) in (f"list({ps[0]}) + list({ps[1]})", f"[*{ps[0]}, *{ps[1]}]")) or not cat
    rr.ob(sm.relpath, sm.qualname, norm(cat[0])[:70] if cat else "models", "the argument tuples are walked in the order given "
          "(the second parameter is only there for callers of the old signature)", DISCHARGED if ok else VIOLATED, "plain concatenation" if ok else "not a plain concatenation",
          sm.node.lineno)
    # (e) the options that name samples are collected in ONE list: argparse keeps one list per destination, and the order
    # between two destinations is lost
    ap = ctx.prog.func(CLI, "Cli._create_argparser")
    sample_opts = []
    for n in walk_no_nested(ap.node):
        if isinstance(n, ast.Call) and isinstance(n.func, ast.Attribute) and n.func.attr == "add_argument":
            flags = [a.value for a in n.args if isinstance(a, ast.Constant) and isinstance(a.value, str)]
            kw = {k.arg: k.value for k in n.keywords if k.arg}
            if any(fl_ in ("-m", "--model", "-l", "--list") for fl_ in flags):
                longs = [x for x in flags if x.startswith("--")]
                dest = kw["dest"].value if "dest" in kw and isinstance(kw["dest"], ast.Constant) else (longs[0] if longs else flags[0]).lstrip("-").replace("-", "_")
                act = kw["action"].value if "action" in kw and isinstance(kw["action"], ast.Constant) else "store"
                sample_opts.append((flags, dest, act, n))
    if not sample_opts:
        raise AnalysisError("SEQ-1: the --model option is not defined by the argument parser any more")
    rr.instances += 1
    dests = sorted({d for _, d, _, _ in sample_opts})
    acts = sorted({a for _, _, a, _ in sample_opts})
    ok_e = len(dests) == 1 and acts == ["append"]
    rr.ob(ap.relpath, ap.qualname, "; ".join(f"{'/'.join(fl_)} -> {d} ({a})" for fl_, d, a, _ in sample_opts)[:90],
          "the samples of a model are concatenated in the order of the command line, whichever of -m / -l names them: both options "
          "append to one destination", DISCHARGED if ok_e else VIOLATED,
          "one list, appended in command-line order" if ok_e else
          f"destinations {dests} / actions {acts}: `-l A - f1.json -m A f2.json` reads f2.json before f1.json (every -m before every -l)",
          sample_opts[0][3].lineno)
    # (d) run() passes each model's list to generate() as is
    run = ctx.prog.func(CLI, "Cli.run")
    rr.instances += 1
    ok = False
    for lp in walk_no_nested(run.node):
        dn = None
        if isinstance(lp, ast.For) and norm(lp.iter) == "self.models_data.items()" and isinstance(lp.target, ast.Tuple):
            dn = norm(lp.target.elts[1])
        elif isinstance(lp, ast.For) and norm(lp.iter) in ("self.models_data", "self.models_data.keys()") and isinstance(lp.target, ast.Name):
            # for name in self.models_data: data = self.models_data[name]
            first = lp.body[0] if lp.body else None
            if isinstance(first, ast.Assign) and norm(first.value) == f"self.models_data[{lp.target.id}]" and isinstance(first.targets[0], ast.Name):
                dn = first.targets[0].id
            else:
                dn = f"self.models_data[{lp.target.id}]"         # generate(*self.models_data[name])
        if dn is not None:
            for c in ast.walk(lp):
                if isinstance(c, ast.Call) and isinstance(c.func, ast.Attribute) and c.func.attr == "generate" and \
                        len(c.args) == 1 and isinstance(c.args[0], ast.Starred) and norm(c.args[0].value) == dn:
                    ok = True
    rr.ob(run.relpath, run.qualname, "generator.generate(*data)", "every model's samples are handed to generate() "
          "unchanged, models in first-seen order", DISCHARGED if ok else VIOLATED,
          "for name, data in self.models_data.items(): generate(*data)" if ok else "samples are transformed before generate()",
          run.node.lineno)
    return rr


def _optflow_subset(ctx: Ctx, rule_id: str, title: str, dests) -> RuleResult:
    full = rule_optflow2(ctx)
    rr = RuleResult(rule_id, title, floor=len(dests))
    keys = [d.replace("_", "-") for d in dests] + list(dests)
    for o in full.obligations:
        if any(k in o.text or k in o.statement for k in keys):
            o.rule = rule_id
            rr.obligations.append(o)
    rr.instances = len(rr.obligations)
    return rr


def rule_optflow_maxlit(ctx: Ctx) -> RuleResult:
    """LIT-2's CLI half: --max-strings-literals reaches the generators' max_literals for every value (0 included)."""
    return _optflow_subset(ctx, "OPTFLOW-lit", "--max-strings-literals reaches max_literals, for every value",
                           ["max_strings_literals"])


def rule_optflow_dictkeys(ctx: Ctx) -> RuleResult:
    """C13's CLI half: both dict-key options reach the generator, independently of each other."""
    return _optflow_subset(ctx, "OPTFLOW-dk", "--dict-keys-regex and --dict-keys-fields both reach the generator",
                           ["dict_keys_regex", "dict_keys_fields"])


# ---------------------------------------------------------------------------------------------------------------
CONTENT_METHODS = {"lower", "upper", "strip", "lstrip", "rstrip", "casefold", "title", "capitalize", "swapcase", "replace",
                   "translate", "encode", "decode", "format", "zfill", "center", "ljust", "rjust", "removeprefix",
                   "removesuffix", "expandtabs", "split", "rsplit", "splitlines", "partition", "rpartition", "join",
                   "sort", "reverse"}
CONTENT_FUNCS = {"max", "min", "abs", "round", "sorted", "reversed", "set", "frozenset", "str.lower", "str.upper", "str.strip", "re.escape", "repr", "ascii",
                 "os.path.normpath", "os.path.abspath", "os.path.basename", "unidecode", "unicodedata.normalize"}
# operations applied today, each confirmed by reading cli.py (option -> operation -> why it is part of the documented mapping)
VALUE_OPS_OK: Dict[str, Dict[str, str]] = {
    "code_generator": {".rsplit(.., n)": "dotted path of the generator class is split into module and attribute (at the last dot)",
                       ".rpartition()": "the same split, spelled with rpartition"},
    "code_generator_kwargs": {".split(.., n)": "NAME=VALUE pairs (at the first =)", ".partition()": "NAME=VALUE pairs, spelled with partition",
                              "[slice]": "quotes around a quoted value are removed"},
    "dict_keys_regex": {"string-building": "documented anchoring of command-line patterns (RX-1 decides its shape)"},
    "merge": {".split()": "policy_argument syntax", ".partition()": "policy_argument syntax, spelled with partition",
              "[0]": "policy name", "[slice]": "policy arguments"},
    "preamble": {".strip()": "documented trimming of the preamble (SHAPE rules decide it)"},
    "output": {"string-building": "message naming the output file"},
    "model": {"string-building": "-m entries get an empty lookup prepended (list concatenation)"},
    "list": {"string-building": "shared with -m in the same expression"},
}
ARGPARSE_TYPES_OK = {None, "str", "int", "float", "Path", "pathlib.Path"}


def _content_op(d: str) -> Optional[str]:
    if d.startswith("or "):
        return "or-fallback"        # `value or default`: a value that is false (0, "", an empty list) is replaced
    if d == ".format()":
        return "string-building"
    if d.startswith(".") and d.endswith(")") and "(" in d:
        return d if d[1:d.index("(")] in CONTENT_METHODS else None
    if d.endswith(".join(..)"):
        return ".join()"
    if d.endswith("(..)"):
        return d if d[:-4] in CONTENT_FUNCS else None
    if d.startswith("f-string") or d in ("binop Mod", "binop Add", ".format()"):
        return "string-building"
    if d.startswith("binop"):
        return d
    if d in ("[slice]",) or (d.startswith("[") and d[1:-1].lstrip("-").isdigit()):
        return d
    if d in ("set-comprehension", "set-display"):
        return d
    return None


def rule_optflow6(ctx: Ctx, only=None, rule_id: str = "OPTFLOW-6") -> RuleResult:
    """Option values reach the library as typed, apart from the documented rewrites."""
    rr = RuleResult(rule_id, "option values are delivered verbatim apart from the documented rewrites",
                    floor=10 if only is None else 2 * len(only))
    fl = Flow(ctx)
    ops = value_ops(ctx, fl)
    opts = argparse_options(ctx)
    if only is not None:
        missing = [d for d in only if d not in opts]
        if missing:
            raise AnalysisError(f"{rule_id}: option(s) {missing} no longer defined by the argument parser")
        opts = {d: o for d, o in opts.items() if d in only}
    st_t = "argparse converts the option with a plain constructor only (no normalising callable)"
    for dest, o in sorted(opts.items()):
        rr.instances += 1
        node = o["node"]
        kw = {k.arg: k.value for k in node.keywords if k.arg}
        tv = norm(kw["type"]) if "type" in kw else None
        ok = tv in ARGPARSE_TYPES_OK
        rr.ob(CLI, "Cli._create_argparser", f"--{dest}: type={tv}", st_t, DISCHARGED if ok else VIOLATED,
              "plain" if ok else f"`type={tv}` rewrites what the user typed before the library sees it", node.lineno)
        # collecting actions start from the default: with a non-empty default list the defaults stay next to what the user gave
        act = norm(kw["action"]).strip("'\"") if "action" in kw else "store"
        dflt = kw.get("default")
        if act in ("extend", "append", "append_const"):
            rr.instances += 1
            nonempty = dflt is not None and not (isinstance(dflt, ast.Constant) and dflt.value is None) and not (
                isinstance(dflt, (ast.List, ast.Tuple)) and not dflt.elts)
            rr.ob(CLI, "Cli._create_argparser", f"--{dest}: action={act}, default={norm(dflt) if dflt is not None else None}",
                  "what the user gives for an option replaces the option's default", VIOLATED if nonempty else DISCHARGED,
                  f"argparse `{act}` adds to the default {norm(dflt)[:40]}: the default values stay in effect next to the given ones"
                  if nonempty else "no default to add to", node.lineno)
    st = ("between the parsed command line and the library call, the option's value is only taken apart or wrapped in "
          "the documented way; it is not re-spelled, re-ordered or merged")
    for dest in sorted(opts):
        seen: Dict[str, Tuple[FuncInfo, ast.AST]] = {}
        for d, (f, node) in ops.get(dest, {}).items():
            c = _content_op(d)
            if c is not None:
                seen.setdefault(c, (f, node))
        rr.instances += 1
        extra = {c: v for c, v in seen.items() if c not in VALUE_OPS_OK.get(dest, {})}
        if not extra:
            rr.ob(CLI, "Cli", f"--{dest}", st, DISCHARGED,
                  "operations on the value: " + (", ".join(sorted(seen)) or "none"), opts[dest]["node"].lineno)
        for c, (f, node) in sorted(extra.items()):
            rr.ob(f.relpath, f.qualname, norm(node)[:90], st, VIOLATED,
                  f"`{c}` is applied to the value of --{dest.replace('_', '-')} on its way to the library; the library "
                  f"called directly with what the user typed would see a different value", node.lineno)
    return rr


def rule_path1(ctx: Ctx) -> RuleResult:
    """process_path: literal *prefix* = directory, the remaining *suffix* = glob pattern; components keep their order."""
    rr = RuleResult("PATH-1", "a path pattern is split into a literal prefix and a pattern suffix", floor=1)
    f = ctx.prog.func(CLI, "process_path")
    mod = f.module
    rr.instances += 1
    st = ("the directory searched is the longest wildcard-free prefix of the pattern and the glob is what follows it, "
          "component order preserved (so `a/*/b.json` searches `a` for `*/b.json`)")
    # the list of components
    comps = None
    for n in walk_no_nested(f.node):
        if isinstance(n, ast.Assign) and isinstance(n.value, ast.Call) and norm(n.value.func).endswith("path_split") \
                and isinstance(n.targets[0], ast.Name):
            comps = n.targets[0].id
    if comps is None:
        raise AnalysisError("PATH-1: process_path no longer splits its argument with path_split")
    problems = []
    prefix_ok = False
    for n in ast.walk(f.node):
        if isinstance(n, (ast.ListComp, ast.GeneratorExp, ast.SetComp)):
            par_ = mod.parents.get(n)
            if isinstance(par_, ast.Call) and norm(par_.func) in ("next", "any", "all") and par_.args and par_.args[0] is n:
                continue        # a search for the first wildcard / a yes-no question, not a selection of components
            for g in n.generators:
                if comps in names_in(g.iter) and g.ifs:
                    problems.append((n, f"`{norm(n)[:60]}` picks components by a predicate, wherever they stand: literal parts "
                                       f"behind a wildcard are moved in front of it"))
        if isinstance(n, ast.Call) and norm(n.func) in ("filter", "itertools.filterfalse", "filterfalse") and \
                any(comps in names_in(a) for a in n.args):
            problems.append((n, f"`{norm(n)[:60]}` filters the components instead of cutting the list once"))
        if isinstance(n, ast.Call) and norm(n.func) in ("sorted", "reversed", "set") and any(comps in names_in(a) for a in n.args):
            problems.append((n, f"`{norm(n)[:60]}` re-orders the components"))
        if isinstance(n, ast.Call) and norm(n.func).split(".")[-1] in ("takewhile", "dropwhile") and \
                any(comps in names_in(a) for a in n.args):
            prefix_ok = True
        if isinstance(n, ast.Subscript) and isinstance(n.value, ast.Name) and n.value.id == comps and isinstance(n.slice, ast.Slice):
            prefix_ok = True
    if problems:
        for n, why in problems:
            rr.ob(f.relpath, f.qualname, norm(n)[:80], st, VIOLATED, why, n.lineno)
    elif prefix_ok:
        rr.ob(f.relpath, f.qualname, "process_path", st, DISCHARGED, "the component list is cut once (takewhile / slice)", f.node.lineno)
    else:
        raise AnalysisError("PATH-1: cannot see how process_path divides the components (no takewhile, slice or comprehension)")
    return rr


def rule_optflow6_disable(ctx: Ctx) -> RuleResult:
    """C09's CLI half: the names given to --disable-str-serializable-types reach remove_by_name as typed."""
    return rule_optflow6(ctx, only=["disable_str_serializable_types"], rule_id="OPTFLOW-6d")


def rule_optflow6_dictkeys(ctx: Ctx) -> RuleResult:
    return rule_optflow6(ctx, only=["dict_keys_regex", "dict_keys_fields"], rule_id="OPTFLOW-6k")


# ---------------------------------------------------------------------------------------------------------------
def rule_reset1(ctx: Ctx, only_attrs=None, rule_id: str = "RESET-1") -> RuleResult:
    """Every option cell of the Cli object is re-initialised by each parse: nothing survives from an earlier command line."""
    rr = RuleResult(rule_id, "each parse of a command line rewrites every option stored on the Cli object",
                    floor=4 if only_attrs is None else len(only_attrs))
    fl = Flow(ctx)
    cells = sorted({c[1] for c in fl.taint if c[0] == "attr" and fl.taint[c]})
    if only_attrs is not None:
        cells = [c for c in cells if c in only_attrs]
    if len(cells) < (4 if only_attrs is None else 1):
        raise AnalysisError(f"{rule_id}: only {len(cells)} option attributes found on Cli")
    MUT = ("append", "extend", "add", "update", "insert", "setdefault")
    for attr in cells:
        for f in fl.funcs:
            if f.name == "__init__":
                continue
            stores, muts, resets = [], [], []
            for n in walk_no_nested(f.node):
                if isinstance(n, (ast.Assign, ast.AnnAssign)) and getattr(n, "value", None) is not None:
                    tgs = n.targets if isinstance(n, ast.Assign) else [n.target]
                    for t in tgs:
                        for t1 in (t.elts if isinstance(t, (ast.Tuple, ast.List)) else [t]):
                            if norm(t1) == f"self.{attr}":
                                stores.append(n)
                            elif isinstance(t1, ast.Subscript) and norm(t1.value) == f"self.{attr}":
                                muts.append(n)
                elif isinstance(n, ast.AugAssign) and norm(n.target) == f"self.{attr}":
                    muts.append(n)
                elif isinstance(n, ast.Call) and isinstance(n.func, ast.Attribute) and norm(n.func.value) == f"self.{attr}":
                    if n.func.attr in MUT:
                        muts.append(n)
                    elif n.func.attr == "clear":
                        resets.append(n)
            if not stores and not muts:
                continue
            cfg = ctx.cfg(f)
            rr.instances += 1
            st = (f"`self.{attr}` holds what this command line says after {f.qualname} returns, whatever an earlier call "
                  f"on the same object stored there")
            if muts:
                dom = cfg.dominators()
                init_nodes = {cfg.node_containing(x, f.module.parents) for x in stores + resets}
                bad = [m for m in muts if not (dom.get(cfg.node_containing(m, f.module.parents), set()) & init_nodes)]
                if bad:
                    rr.ob(f.relpath, f.qualname, norm(bad[0])[:80], st, VIOLATED,
                          f"`{norm(bad[0])[:60]}` adds to `self.{attr}` without an assignment or clear() before it on every "
                          f"path: entries from an earlier parse stay in effect", bad[0].lineno)
                    continue
                rr.ob(f.relpath, f.qualname, norm(muts[0])[:80], st, DISCHARGED,
                      "the container is reset before it is filled", muts[0].lineno)
                continue
            # plain stores only: some store lies on every non-exceptional path to the exit
            blocked = {cfg.node_containing(x, f.module.parents) for x in stores}
            seen, stack = set(), [cfg.entry]
            leak = False
            while stack:
                a = stack.pop()
                if a in seen or a in blocked:
                    continue
                seen.add(a)
                if a == cfg.exit:
                    leak = True
                    break
                for b, lab in cfg.succ[a]:
                    if lab != "exc":
                        stack.append(b)
            if leak:
                rr.ob(f.relpath, f.qualname, norm(stores[0])[:80], st, VIOLATED,
                      f"`self.{attr}` is assigned only on some paths through {f.name}: when the option is absent the value of "
                      f"an earlier parse on the same object stays in effect", stores[0].lineno)
            else:
                rr.ob(f.relpath, f.qualname, norm(stores[0])[:80], st, DISCHARGED, "assigned on every path", stores[0].lineno)
    return rr


def rule_reset1_dictkeys(ctx: Ctx) -> RuleResult:
    return rule_reset1(ctx, only_attrs=["dict_keys_regex", "dict_keys_fields"], rule_id="RESET-1k")


def rule_reset1_merge(ctx: Ctx) -> RuleResult:
    return rule_reset1(ctx, only_attrs=["merge_policy"], rule_id="RESET-1m")


def rule_optflow_structure(ctx: Ctx) -> RuleResult:
    """C12's CLI half: -s/--structure selects the layout function for every framework."""
    return _optflow_subset(ctx, "OPTFLOW-s", "--structure reaches generate_code's structure, whatever the framework", ["structure"])


# ---------------------------------------------------------------------------------------------------------------
def rule_regdeliv1(ctx: Ctx) -> RuleResult:
    """The string-type registry that --datetime / --disable-str-serializable-types configure is a private, fresh object,
    and it is the one the metadata generator receives."""
    rr = RuleResult("REGDELIV-1", "the registry configured by the command line is private and reaches the generator", floor=3)
    prog = ctx.prog
    cli = prog.cls(CLI, "Cli")
    funcs = [f for ms in cli.methods.values() for f in ms]
    muts = []   # (function, call node, receiver text)
    for f in funcs:
        for n in walk_no_nested(f.node):
            if isinstance(n, ast.Call):
                fn = norm(n.func)
                if fn.endswith("register_datetime_classes"):
                    arg = n.args[0] if n.args else next((k.value for k in n.keywords if k.arg == "registry"), None)
                    muts.append((f, n, norm(arg) if arg is not None else "<default: the module-level registry>"))
                elif isinstance(n.func, ast.Attribute) and n.func.attr in ("remove_by_name", "remove", "add") and \
                        "registry" in norm(n.func.value).lower() and "ModelRegistry" not in norm(n.func.value):
                    muts.append((f, n, norm(n.func.value)))
    if len(muts) < 2:
        raise AnalysisError(f"REGDELIV-1: expected the registration and the removal call in Cli, found {len(muts)}")
    st = ("the string types enabled / disabled by this command line live in a registry of this Cli object that was freshly "
          "built for it, and the metadata generator of run() is given exactly that registry")
    recvs = {r for _, _, r in muts}
    for f, n, r in muts:
        rr.instances += 1
        if not r.startswith("self."):
            rr.ob(f.relpath, f.qualname, norm(n)[:80], st, VIOLATED,
                  f"`{norm(n)[:50]}` configures `{r}`, which is not an attribute of this Cli object: the setting is shared with "
                  f"every other run of the process", n.lineno)
            continue
        attr = r[5:]
        # a fresh object is stored into the attribute before the call, on every path, in the same function
        stores = [x for x in walk_no_nested(f.node) if isinstance(x, (ast.Assign, ast.AnnAssign)) and getattr(x, "value", None) is not None
                  and any(norm(t) == r for t in (x.targets if isinstance(x, ast.Assign) else [x.target]))]
        fresh = [x for x in stores if isinstance(x.value, ast.Call) and any(
            isinstance(t, ClassInfo) and t.name == "StringSerializableRegistry" for t in ctx.cg.resolve_call(f, f.module, x.value))
            or (isinstance(x.value, ast.Call) and norm(x.value.func) in ("copy.deepcopy", "deepcopy"))]
        cfg = ctx.cfg(f)
        dom = cfg.dominators()
        ok = bool(fresh) and len(fresh) == len(stores) and any(
            cfg.node_containing(x, f.module.parents) in dom.get(cfg.node_containing(n, f.module.parents), set()) for x in fresh)
        rr.ob(f.relpath, f.qualname, norm(n)[:80], st, DISCHARGED if ok else VIOLATED,
              f"`{r}` is rebuilt (`{norm(fresh[0].value)[:50]}`) before it is configured" if ok else
              f"`{r}` is not freshly built on every path before `{norm(n)[:40]}`: it can still be the default registry or the "
              f"one configured by an earlier parse", n.lineno)
    # the private registry shares no container with the default one: whatever is taken over from it is copied
    for f in funcs:
        for n in walk_no_nested(f.node):
            if isinstance(n, (ast.Assign, ast.AnnAssign)) and getattr(n, "value", None) is not None:
                tg = n.targets[0] if isinstance(n, ast.Assign) else n.target
                if isinstance(tg, ast.Attribute) and isinstance(tg.value, ast.Attribute) and norm(tg.value) in recvs:
                    rr.instances += 1
                    v = n.value
                    copies = isinstance(v, ast.Call) and norm(v.func) in ("set", "list", "dict", "tuple", "frozenset", "copy.copy",
                                                                          "copy.deepcopy", "deepcopy", "sorted")
                    from_default = any(isinstance(x, ast.Name) and x.id == "registry" for x in ast.walk(v))
                    ok = copies or not from_default
                    rr.ob(f.relpath, f.qualname, norm(n)[:80], "containers of the default registry are copied, not shared, when "
                          "the private registry is set up", DISCHARGED if ok else VIOLATED,
                          "copied" if ok else
                          f"`{norm(v)[:40]}` is the default registry's own container: removing a type for this command line removes "
                          f"it (and its replace pairs) from the process-wide registry", n.lineno)
    # delivery
    rr.instances += 1
    run = prog.func(CLI, "Cli.run")
    gens = [n for n in walk_no_nested(run.node) if isinstance(n, ast.Call) and any(
        isinstance(t, ClassInfo) and t.name == "MetadataGenerator" for t in ctx.cg.resolve_call(run, run.module, n))]
    if len(gens) != 1:
        raise AnalysisError(f"REGDELIV-1: expected one MetadataGenerator(...) in Cli.run, found {len(gens)}")
    g = gens[0]
    given = next((norm(k.value) for k in g.keywords if k.arg == "str_types_registry"), norm(g.args[0]) if g.args else None)
    ok = given is not None and recvs == {given}
    rr.ob(run.relpath, run.qualname, norm(g)[:90], st, DISCHARGED if ok else VIOLATED,
          f"str_types_registry={given}" if ok else
          f"the generator receives `{given}` while the command line configures {sorted(recvs)}: --datetime and "
          f"--disable-str-serializable-types have no effect on this run (or act on another registry)", g.lineno)
    return rr


# ---------------------------------------------------------------------------------------------------------------
def rule_argfwd1(ctx: Ctx) -> RuleResult:
    """convert_args (the wrapper behind Cli's generator and comparator tables) hands every argument on."""
    rr = RuleResult("ARGFWD-1", "the converting wrapper passes every positional and keyword argument to the wrapped callable", floor=3)
    f = ctx.prog.func("json_to_models/utils.py", "convert_args")
    inner = [g for g in ctx.prog.all_funcs() if g.parent is f]
    if len(inner) != 1:
        raise AnalysisError(f"ARGFWD-1: expected one wrapper inside convert_args, found {len(inner)}")
    w = inner[0]
    va = w.node.args.vararg.arg if w.node.args.vararg else None
    kw = w.node.args.kwarg.arg if w.node.args.kwarg else None
    if not va or not kw:
        raise AnalysisError("ARGFWD-1: the wrapper does not take *args and **kwargs")
    fn = f.params[0]
    calls = [n for n in walk_no_nested(w.node) if isinstance(n, ast.Call) and norm(n.func) == fn]
    if len(calls) != 1:
        raise AnalysisError(f"ARGFWD-1: expected one call of `{fn}` in the wrapper, found {len(calls)}")
    c = calls[0]

    def origin(e, seen=()):
        """names of the wrapper's parameters an expression is built from (through single-definition locals)"""
        out = set()
        for x in ast.walk(e):
            if isinstance(x, ast.Name):
                if x.id in (va, kw):
                    out.add(x.id)
                elif x.id not in seen:
                    for n in walk_no_nested(w.node):
                        if isinstance(n, ast.Assign) and any(isinstance(t, ast.Name) and t.id == x.id for t in n.targets):
                            out |= origin(n.value, seen + (x.id,))
        return out

    stars = [a.value for a in c.args if isinstance(a, ast.Starred)]
    dstars = [k.value for k in c.keywords if k.arg is None]
    # positional: a converted prefix and the unconverted rest
    rr.instances += 1
    pos_from_args = [s_ for s_ in stars if va in origin(s_)]
    has_rest = any(any(isinstance(x, ast.Subscript) and isinstance(x.slice, ast.Slice) and x.slice.lower is not None and
                       norm(x.value) == va for x in ast.walk(d)) or norm(d) == va
                   for s_ in stars for d in ([s_] + [n.value for n in walk_no_nested(w.node) if isinstance(n, ast.Assign)
                                                        and isinstance(s_, ast.Name) and norm(n.targets[0]) == s_.id]))
    ok = len(pos_from_args) >= 1 and has_rest
    rr.ob(w.relpath, w.qualname, norm(c)[:80], "positional arguments beyond the configured converters are passed on unconverted",
          DISCHARGED if ok else VIOLATED, "converted prefix + rest" if ok else
          "the positional arguments that have no converter are not forwarded", c.lineno)
    # keywords: all of them
    rr.instances += 1
    okk = False
    whyk = "no ** forwarding of the keyword arguments"
    for d in dstars:
        e = d
        if isinstance(d, ast.Name) and d.id != kw:
            defs = [n for n in walk_no_nested(w.node) if isinstance(n, ast.Assign) and norm(n.targets[0]) == d.id]
            if len(defs) == 1:
                e = defs[0].value
        if isinstance(e, ast.Name) and e.id == kw:
            okk = True
        elif isinstance(e, ast.DictComp) and len(e.generators) == 1:
            g0 = e.generators[0]
            okk = norm(g0.iter) in (kw, f"{kw}.keys()", f"{kw}.items()", f"list({kw})", f"list({kw}.items())") and not g0.ifs
            whyk = "" if okk else f"the comprehension iterates `{norm(g0.iter)}` with a filter: some keyword arguments are dropped"
        elif isinstance(e, ast.Dict) and any(k is None and norm(v) == kw for k, v in zip(e.keys, e.values)):
            okk = True
    rr.ob(w.relpath, w.qualname, norm(c)[:80], "every keyword argument reaches the wrapped callable (converted when a converter is "
          "configured for it, as it is otherwise)", DISCHARGED if okk else VIOLATED, "all keywords" if okk else whyk, c.lineno)
    # the value passed for a keyword without converter is the original
    rr.instances += 1
    ok3 = True
    why3 = "as given"
    for d in dstars:
        e = d
        if isinstance(d, ast.Name) and d.id != kw:
            defs = [n for n in walk_no_nested(w.node) if isinstance(n, ast.Assign) and norm(n.targets[0]) == d.id]
            if len(defs) == 1:
                e = defs[0].value
        if isinstance(e, ast.DictComp):
            v = e.value
            if isinstance(v, ast.IfExp):
                orig = norm(v.orelse)
                tgt = norm(e.generators[0].target)
                ok3 = orig in (f"{kw}[{norm(e.key)}]", tgt.split(", ")[-1].strip("()")) and norm(e.key) in tgt.replace("(", "").replace(")", "").split(", ")
                why3 = "as given" if ok3 else f"a keyword without converter is passed as `{orig}`"
    rr.ob(w.relpath, w.qualname, norm(c)[:80], "a keyword without a converter keeps its name and value", DISCHARGED if ok3 else VIOLATED,
          why3, c.lineno)
    return rr


def rule_argval1(ctx: Ctx) -> RuleResult:
    """ARGVAL-1: NAME=VALUE items of --code-generator-kwargs without `=` are rejected."""
    rr = RuleResult("ARGVAL-1", "a --code-generator-kwargs item that is not NAME=VALUE is an error", floor=1)
    f = ctx.prog.func(CLI, "Cli.set_args")
    rr.instances += 1
    st = ("an item without `=` raises (unpacking the two parts of split('=', 1) fails): an invalid argument must fail the run "
          "instead of being passed on as NAME with an empty value")
    sites = []
    for n in walk_no_nested(f.node):
        if isinstance(n, ast.Assign) and isinstance(n.value, ast.Call) and isinstance(n.value.func, ast.Attribute) and \
                n.value.func.attr in ("split", "partition", "rsplit", "rpartition") and n.value.args and \
                isinstance(n.value.args[0], ast.Constant) and n.value.args[0].value == "=":
            sites.append(n)
    if not sites:
        raise AnalysisError("ARGVAL-1: no `item.split('=', ...)` in Cli.set_args")
    n = sites[0]
    meth = n.value.func.attr
    two = isinstance(n.targets[0], (ast.Tuple, ast.List)) and len(n.targets[0].elts) == 2 and not any(
        isinstance(e, ast.Starred) for e in n.targets[0].elts)
    checked = any(isinstance(x, ast.If) and "'='" in norm(x.test) and any(isinstance(y, ast.Raise) for y in ast.walk(x))
                  for x in walk_no_nested(f.node))
    ok = (meth in ("split", "rsplit") and two) or checked
    rr.ob(f.relpath, f.qualname, norm(n)[:70], st, DISCHARGED if ok else VIOLATED,
          "two-name unpacking of split: raises ValueError without `=`" if ok else
          f"`{meth}` never fails: an item without `=` becomes NAME with an empty value and is handed to the generator", n.lineno)
    return rr


def rule_optflow7(ctx: Ctx) -> RuleResult:
    """OPTFLOW-7: what the user gave for an option is never replaced by a constant because of what it contains."""
    rr = RuleResult("OPTFLOW-7", "an option's value is not replaced by a constant depending on its own content", floor=1)
    fl = Flow(ctx)
    st = ("every value the user gives for an option takes effect: no branch on the option's own content throws the given list away "
          "and puts a fixed value in its place")
    n_checked = 0
    for f in fl.funcs:
        for n in walk_no_nested(f.node):
            if not isinstance(n, ast.Assign) or len(n.targets) != 1:
                continue
            tg = n.targets[0]
            if not isinstance(tg, (ast.Name, ast.Attribute)):
                continue
            # the variable carried an option before this statement?
            before = {}
            if isinstance(tg, ast.Name):
                for d in (ctx.defs_reaching(f, n, tg.id) or []):
                    cell = (f.key, tg.id, 0 if d is f.node else id(d))
                    for o, ks in fl.taint.get(cell, {}).items():
                        before.setdefault(o, set()).update(ks)
            else:
                for cell in fl.read_cells(f, tg):
                    for o, ks in fl.taint.get(cell, {}).items():
                        before.setdefault(o, set()).update(ks)
            if not before:
                continue
            n_checked += 1
            v = n.value
            has_taint = bool(fl.expr_taint(f, v))
            nonempty_const = (isinstance(v, (ast.List, ast.Tuple, ast.Set)) and v.elts) or (isinstance(v, ast.Dict) and v.keys) or \
                (isinstance(v, ast.Constant) and v.value not in (None, "", 0, False))
            if has_taint or not nonempty_const:
                continue
            # under a test on the same option?
            p = f.module.parents.get(n)
            cond = None
            while p is not None and p is not f.node:
                if isinstance(p, ast.If) and set(fl.expr_taint(f, p.test)) & set(before) and \
                        norm(tg) in {norm(x) for x in ast.walk(p.test) if isinstance(x, (ast.Name, ast.Attribute))}:
                    cond = p      # the test looks at the very variable that is then overwritten
                    break
                p = f.module.parents.get(p)
            if cond is None:
                continue
            rr.instances += 1
            o = sorted(set(before))[0]
            rr.ob(f.relpath, f.qualname, norm(n)[:70], st, VIOLATED,
                  f"under `{norm(cond.test)[:40]}` the value of --{o.replace('_', '-')} is replaced by the constant `{norm(v)[:30]}`: the "
                  f"other values the user gave are dropped (e.g. `--merge exact number_3` behaves like `--merge exact`)", n.lineno)
    rr.instances += 1
    rr.ob(CLI, "Cli", f"{n_checked} re-assignments of option variables", st, DISCHARGED, "no option is overwritten by a constant", 1)
    return rr


def rule_sibconv1(ctx: Ctx) -> RuleResult:
    """SIBCONV-1: a generator keyword that gets a converter for one framework gets it for every framework that accepts it."""
    rr = RuleResult("SIBCONV-1", "the frameworks agree on how a generator keyword given on the command line is converted", floor=1)
    prog = ctx.prog
    cli = prog.cls(CLI, "Cli")
    table = cli.assigns.get("MODEL_GENERATOR_MAPPING")
    if not isinstance(table, ast.Dict):
        raise AnalysisError("SIBCONV-1: Cli.MODEL_GENERATOR_MAPPING is not a dict literal")
    entries = {}
    for k, v in zip(table.keys, table.values):
        if isinstance(k, ast.Constant) and isinstance(v, ast.Call) and v.args:
            tg = [t for t in ctx.cg.callable_values(None, cli.module, v.args[0]) if isinstance(t, ClassInfo)]
            entries[k.value] = (tg[0] if tg else None, {kw.arg: norm(kw.value) for kw in v.keywords if kw.arg}, v)
    convs = {}
    for name, (cls_, kws, node) in entries.items():
        for kname, conv in kws.items():
            convs.setdefault(kname, {})[name] = conv
    if not convs:
        raise AnalysisError("SIBCONV-1: no keyword converter in MODEL_GENERATOR_MAPPING")

    def accepts(cls_, kname) -> Optional[bool]:
        """does the constructor chain of cls_ take `kname` as a parameter (and not force it)?"""
        if cls_ is None:
            return None
        for k in prog.mro(cls_):
            for init in k.methods.get("__init__", []):
                forced = any(isinstance(n, ast.Assign) and isinstance(n.targets[0], ast.Subscript) and isinstance(n.targets[0].slice, ast.Constant)
                             and n.targets[0].slice.value == kname for n in walk_no_nested(init.node)) or any(
                    isinstance(n, ast.Dict) and any(isinstance(k_, ast.Constant) and k_.value == kname for k_ in n.keys if k_ is not None)
                    for n in walk_no_nested(init.node)) or any(
                    isinstance(n, ast.Call) and isinstance(n.func, ast.Attribute) and n.func.attr in ("update", "setdefault") and any(
                        kw.arg == kname for kw in n.keywords) for n in walk_no_nested(init.node)) or any(
                    isinstance(n, ast.Call) and norm(n.func).endswith("__init__") and any(kw.arg == kname and isinstance(kw.value, ast.Constant)
                                                                                            for kw in n.keywords)
                    for n in walk_no_nested(init.node))
                if forced:
                    return False
                if kname in init.params:
                    return True
                if not init.node.args.kwarg:
                    return False
        return False

    for kname, by_fw in sorted(convs.items()):
        want = sorted(set(by_fw.values()))[0]
        for name, (cls_, kws, node) in sorted(entries.items()):
            if name in by_fw:
                continue
            acc = accepts(cls_, kname)
            if not acc:
                continue
            rr.instances += 1
            rr.ob(CLI, f"Cli.MODEL_GENERATOR_MAPPING[{name!r}]", f"{kname}=<no converter>",
                  f"`--code-generator-kwargs {kname}=false` means the same for every framework whose generator takes `{kname}`",
                  VIOLATED, f"`{kname}` is converted with {want} for {sorted(by_fw)} but passed as the raw string for `{name}`: the "
                            f"non-empty string \"false\" is truthy there", node.lineno)
    # every on/off keyword (a constructor parameter whose default is True / False) of a framework's generator is converted:
    # on the command line its value is text, and any non-empty text is true
    for name, (cls_, kws, node) in sorted(entries.items()):
        if cls_ is None:
            continue
        flags = {}
        for k in prog.mro(cls_):
            for init in k.methods.get("__init__", []):
                a = init.node.args
                pos = a.posonlyargs + a.args
                for p_, d_ in zip(pos[len(pos) - len(a.defaults):], a.defaults):
                    if isinstance(d_, ast.Constant) and isinstance(d_.value, bool):
                        flags.setdefault(p_.arg, k.name)
                for p_, d_ in zip(a.kwonlyargs, a.kw_defaults):
                    if d_ is not None and isinstance(d_, ast.Constant) and isinstance(d_.value, bool):
                        flags.setdefault(p_.arg, k.name)
        for kname, owner in sorted(flags.items()):
            if not accepts(cls_, kname):
                continue
            rr.instances += 1
            ok = kname in kws
            rr.ob(CLI, f"Cli.MODEL_GENERATOR_MAPPING[{name!r}]", f"{kname}=" + (kws.get(kname) or "<no converter>"),
                  f"`--code-generator-kwargs {kname}=false` switches `{kname}` (an on/off parameter of {owner}) off",
                  DISCHARGED if ok else VIOLATED, "converted" if ok else
                  f"`{kname}` reaches {cls_.name} as the text given on the command line: \"false\" is a non-empty string and therefore true",
                  node.lineno)
    rr.instances += 1
    rr.ob(CLI, "Cli.MODEL_GENERATOR_MAPPING", f"{len(entries)} frameworks, converters for {sorted(convs)}",
          "converters are attached consistently", DISCHARGED, "checked", table.lineno)
    return rr


def rule_reset1_structure(ctx: Ctx) -> RuleResult:
    return rule_reset1(ctx, only_attrs=["structure_fn"], rule_id="RESET-1s")


def rule_optflow6_lit(ctx: Ctx) -> RuleResult:
    return rule_optflow6(ctx, only=["max_strings_literals"], rule_id="OPTFLOW-6l")


def rule_optflow6_merge(ctx: Ctx) -> RuleResult:
    return rule_optflow6(ctx, only=["merge"], rule_id="OPTFLOW-6m")


def rule_optflow_strconv(ctx: Ctx) -> RuleResult:
    return _optflow_subset(ctx, "OPTFLOW-sc", "--strings-converters reaches post_init_converters, whatever the framework",
                           ["strings_converters"])
