"""IMP-1 (emitted imports resolve), IMP-2/3 (names used by emitted fragments are imported), SHADOW-1 (importable
names are black-listed as labels)."""
from __future__ import annotations

import ast
import builtins
import keyword
import os
import sys
from typing import Dict, List, Optional, Set, Tuple

from ..consts import Template, fragment_identifiers, template_code_text
from ..ctx import Ctx
from ..model import AnalysisError, ClassInfo, ConstRef, External, FuncInfo, Module, norm, walk_no_nested
from ..report import ALLOWED, DISCHARGED, VIOLATED, RuleResult

BASE = "json_to_models/models/base.py"


# ---------------------------------------------------------------------------------------------------------------
# third-party / stdlib source lookup (never imports anything)
# ---------------------------------------------------------------------------------------------------------------
def _search_paths() -> List[str]:
    out = []
    for p in sys.path:
        if p and os.path.isdir(p) and p not in out:
            out.append(p)
    return out


def find_module_file(dotted: str) -> Optional[str]:
    parts = dotted.split(".")
    for base in _search_paths():
        p = os.path.join(base, *parts)
        if os.path.isfile(p + ".py"):
            return p + ".py"
        if os.path.isfile(os.path.join(p, "__init__.py")):
            return os.path.join(p, "__init__.py")
        if os.path.isdir(p) and len(parts) == 1 and any(f.endswith((".so", ".py")) for f in os.listdir(p)):
            return p
    if dotted in sys.builtin_module_names:
        return "<builtin>"
    return None


_BOUND_CACHE: Dict[str, Optional[Set[str]]] = {}


def module_bound_names(dotted: str) -> Optional[Set[str]]:
    """Names bound at the top level of a module's source (defs, classes, assignments, imports, __all__)."""
    if dotted in _BOUND_CACHE:
        return _BOUND_CACHE[dotted]
    f = find_module_file(dotted)
    res: Optional[Set[str]] = None
    if f and f.endswith(".py"):
        try:
            tree = ast.parse(open(f, encoding="utf-8").read())
            res = set()

            def visit(body):
                for st in body:
                    if isinstance(st, (ast.FunctionDef, ast.AsyncFunctionDef, ast.ClassDef)):
                        res.add(st.name)
                    elif isinstance(st, (ast.Assign, ast.AnnAssign, ast.AugAssign)):
                        tg = st.targets if isinstance(st, ast.Assign) else [st.target]
                        for t in tg:
                            for x in ast.walk(t):
                                if isinstance(x, ast.Name):
                                    res.add(x.id)
                    elif isinstance(st, ast.Import):
                        for a in st.names:
                            res.add((a.asname or a.name).split(".")[0])
                    elif isinstance(st, ast.ImportFrom):
                        for a in st.names:
                            if a.name == "*":
                                sub = module_bound_names(_abs(dotted, f, st))
                                if sub:
                                    res.update(n for n in sub if not n.startswith("_"))
                            else:
                                res.add(a.asname or a.name)
                    elif isinstance(st, (ast.If, ast.Try)):
                        visit(st.body)
                        visit(getattr(st, "orelse", []))
                        for h in getattr(st, "handlers", []):
                            visit(h.body)
                        visit(getattr(st, "finalbody", []))
                    elif isinstance(st, (ast.With,)):
                        visit(st.body)
            visit(tree.body)
        except (SyntaxError, OSError):
            res = None
    _BOUND_CACHE[dotted] = res
    return res


def _abs(dotted: str, file: str, st: ast.ImportFrom) -> str:
    if st.level == 0:
        return st.module or ""
    parts = dotted.split(".")
    if not file.endswith("__init__.py"):
        parts = parts[:-1]
    if st.level > 1:
        parts = parts[: len(parts) - (st.level - 1)]
    return ".".join(parts + (st.module.split(".") if st.module else []))


# ---------------------------------------------------------------------------------------------------------------
# collection of import tuples the generators can emit
# ---------------------------------------------------------------------------------------------------------------
class EmittedImport:
    def __init__(self, module: str, names: Optional[List[str]], fi: FuncInfo, node: ast.AST, owner: Optional[ClassInfo]):
        self.module, self.names, self.fi, self.node, self.owner = module, names, fi, node, owner


def _expand(ctx: Ctx, fi: FuncInfo, e: ast.AST) -> List[str]:
    """Possible string values of a component of an import tuple."""
    prog = ctx.prog
    c = ctx.folder.try_fold(fi.module, e, fi.cls)
    if isinstance(c, str):
        return [c]
    if isinstance(c, (list, tuple)) and all(isinstance(x, str) for x in c):
        return list(c)
    t = norm(e)
    cls = fi.cls
    out: List[str] = []
    if t in ("self._typing_cls.__module__", "self._typing_cls._name"):
        for k in prog.subclasses(cls):
            v = k.assigns.get("_typing_cls")
            if v is not None and norm(v) != "None":
                out.append("typing" if t.endswith("__module__") else norm(v))
        return sorted(set(out))
    if t in ("cls.actual_type.__module__", "cls.actual_type.__name__"):
        for k in prog.subclasses(cls):
            v = k.assigns.get("actual_type")
            if v is None:
                continue
            r = prog.resolve_class_expr(k.module, v, k)
            dotted = r.dotted if isinstance(r, External) else None
            if dotted is None:
                continue
            mod, name = dotted.rsplit(".", 1)
            if mod == "builtins":
                continue
            out.append(mod if t.endswith("__module__") else name)
        return sorted(set(out))
    if t in ("cls_name", "cls.__name__") and cls is not None:
        return sorted(k.name for k in prog.subclasses(cls, strict=True))
    if t == "Literal.__module__":
        return ["typing", "typing_extensions"]
    if t in ("t.__module__", "t.__name__", "[t.__name__]"):
        # metadata_to_typing: issubclass(t, (date, datetime, time))
        return ["datetime"] if "__module__" in t else ["date", "datetime", "time"]
    if isinstance(e, (ast.List, ast.Tuple)):
        for x in e.elts:
            out += _expand(ctx, fi, x)
        return out
    raise AnalysisError(f"IMP-1: cannot resolve import component `{t}` in {fi.qualname}")


def collect_emitted_imports(ctx: Ctx) -> List[EmittedImport]:
    out: List[EmittedImport] = []
    prog = ctx.prog
    for fi in prog.all_funcs():
        if fi not in ctx.lib_cone:
            continue
        for n in walk_no_nested(fi.node):
            if not (isinstance(n, ast.Tuple) and len(n.elts) == 2):
                continue
            par = fi.module.parents.get(n)
            in_ctx = False
            # (a) element of a list display / (b) argument of append/extend on something called *imports*
            if isinstance(par, ast.List):
                gp = fi.module.parents.get(par)
                in_ctx = True
            if isinstance(par, ast.Call) and isinstance(par.func, ast.Attribute) and par.func.attr in ("append",) and \
                    "import" in norm(par.func.value):
                in_ctx = True
            if isinstance(par, ast.Starred):
                in_ctx = False
            first = n.elts[0]
            looks_module = (isinstance(first, ast.Constant) and isinstance(first.value, str)) or "__module__" in norm(first)
            if not (in_ctx and looks_module):
                continue
            mods = _expand(ctx, fi, first)
            second = n.elts[1]
            if isinstance(second, ast.Constant) and second.value is None:
                names = None
            else:
                names = _expand(ctx, fi, second)
            for m in mods:
                if names is not None and norm(first).endswith("__module__") and len(mods) > 1 and "actual_type" in norm(first):
                    pass
                out.append(EmittedImport(m, names, fi, n, fi.cls))
    return out


def rule_imp1(ctx: Ctx) -> RuleResult:
    rr = RuleResult("IMP-1", "every import a generator can emit names an existing module and a name bound in it", floor=10)
    imps = collect_emitted_imports(ctx)
    seen = set()
    for im in imps:
        key = (im.module, tuple(im.names) if im.names is not None else None, im.fi.key)
        if key in seen:
            continue
        seen.add(key)
        rr.instances += 1
        text = f"({im.module!r}, {im.names!r})"
        st = "the generated module's own import statement succeeds"
        # repository module?
        m = ctx.prog.by_modname.get(im.module)
        if m is not None:
            missing = []
            for nm in im.names or []:
                if ctx.prog.resolve_global(m, nm) is None:
                    missing.append(nm)
            rr.ob(im.fi.relpath, im.fi.qualname, text, st, VIOLATED if missing else DISCHARGED,
                  f"{missing} not bound/re-exported by {im.module}" if missing else f"bound in {m.relpath}",
                  im.node.lineno)
            continue
        f = find_module_file(im.module)
        top = im.module.split(".")[0]
        if f is None:
            if find_module_file(top) is None:
                rr.ob(im.fi.relpath, im.fi.qualname, text, st, ALLOWED,
                      f"distribution `{top}` is not installed here: unverifiable (counted, not failed)", im.node.lineno)
            else:
                rr.ob(im.fi.relpath, im.fi.qualname, text, st, VIOLATED,
                      f"package `{top}` is installed but has no module `{im.module}` (ModuleNotFoundError when the "
                      f"generated code is imported)", im.node.lineno)
            continue
        if im.names is None:
            rr.ob(im.fi.relpath, im.fi.qualname, text, st, DISCHARGED, f"module found at {f}", im.node.lineno)
            continue
        bound = module_bound_names(im.module)
        if bound is None:
            rr.ob(im.fi.relpath, im.fi.qualname, text, st, DISCHARGED, "module exists (binary / not parseable): names not "
                  "checked", im.node.lineno, trivial=True)
            continue
        # datetime pairs are generated per class: only the matching name is imported
        names = im.names
        missing = [nm for nm in names if nm not in bound]
        rr.ob(im.fi.relpath, im.fi.qualname, text, st, VIOLATED if missing else DISCHARGED,
              f"{missing} not bound at the top level of {im.module}" if missing else f"all bound in {os.path.basename(f)}",
              im.node.lineno)
    return rr


# ---------------------------------------------------------------------------------------------------------------
def _generator_classes(ctx: Ctx) -> List[ClassInfo]:
    base = ctx.prog.cls(BASE, "GenericModelCodeGenerator")
    return ctx.prog.subclasses(base)


def _emitting_functions(ctx: Ctx, g: ClassInfo) -> List[FuncInfo]:
    """Methods that run when generator class g renders a model (own + inherited, most derived first)."""
    out = []
    seen = set()
    for k in ctx.prog.mro(g):
        for name, ms in k.methods.items():
            if name in seen:
                # overridden: the base version still runs when reached through super()
                for f in ms:
                    out.append(f)
                continue
            seen.add(name)
            out += ms
    return out


def _active_functions(ctx: Ctx, g: ClassInfo) -> List[FuncInfo]:
    """Emitting functions of g minus inherited `generate` implementations that g's own generate() bypasses."""
    prog = ctx.prog
    funcs = _emitting_functions(ctx, g)
    skipped = set()
    gen = prog.lookup_method(g, "generate")
    if gen:
        calls = [norm(c.func) for c in walk_no_nested(gen[0].node) if isinstance(c, ast.Call)]
        if not any("super()" in c for c in calls):
            for k in prog.mro(g):
                if k is gen[0].cls:
                    continue
                for f in k.methods.get("generate", []):
                    if f"{k.name}.generate" not in calls:
                        skipped.add(f)
    return [f for f in funcs if f not in skipped]


def _fragments(ctx: Ctx, g: ClassInfo) -> List[Tuple[str, FuncInfo, ast.AST]]:
    """Code fragments (text) that generator g can paste into the emitted module."""
    prog = ctx.prog
    frags: List[Tuple[str, Optional[FuncInfo], ast.AST]] = []
    for k in prog.mro(g):
        for name, v in k.assigns.items():
            t = ctx.folder.try_fold(k.module, v, k)
            if isinstance(t, Template):
                frags.append((template_code_text(str(t)), None, v))
    for f in _active_functions(ctx, g):
        for n in walk_no_nested(f.node):
            # values stored into *kwargs dicts / data['body'] / passed as bases=
            val = None
            if isinstance(n, ast.Assign) and isinstance(n.targets[0], ast.Subscript) and (
                    "kwargs" in norm(n.targets[0].value) or norm(n.targets[0]) == "data['body']"):
                val = n.value
            if isinstance(n, ast.keyword) and n.arg == "bases":
                val = n.value
            if val is None:
                continue
            slices = {id(y.slice) for y in ast.walk(val) if isinstance(y, ast.Subscript)}
            dict_keys = {id(k) for y in ast.walk(val) if isinstance(y, ast.Dict) for k in y.keys}
            for x in ast.walk(val):
                if id(x) in slices or id(x) in dict_keys:
                    continue
                if isinstance(x, ast.Constant) and isinstance(x.value, str):
                    frags.append((x.value, f, x))
                elif isinstance(x, ast.JoinedStr):
                    txt = "".join(str(v.value) if isinstance(v, ast.Constant) else "HOLE_" for v in x.values)
                    frags.append((txt, f, x))
    return frags


def _imports_of(ctx: Ctx, g: ClassInfo, all_imps: List[EmittedImport]) -> Set[str]:
    funcs = set(_emitting_functions(ctx, g))
    names: Set[str] = set()
    for im in all_imps:
        if im.fi in funcs or im.fi.cls is None or im.fi.cls not in ctx.prog.subclasses(ctx.prog.cls(BASE, "GenericModelCodeGenerator")):
            if im.names is None:
                names.add(im.module.split(".")[0])
            else:
                names.update(im.names)
    return names


def rule_imp2(ctx: Ctx) -> RuleResult:
    rr = RuleResult("IMP-2/3", "every name used by an emitted code fragment is a builtin or imported by the same generator", floor=15)
    prog = ctx.prog
    all_imps = collect_emitted_imports(ctx)
    builtin_names = set(dir(builtins))
    for g in _generator_classes(ctx):
        own_funcs = set(_active_functions(ctx, g))
        provided = set()
        for im in all_imps:
            if im.fi in own_funcs:
                provided.update([im.module.split(".")[0]] if im.names is None else im.names)
        seen = set()
        for text, f, node in _fragments(ctx, g):
            for ident, is_call in fragment_identifiers(text):
                head = ident.split(".")[0]
                if head.startswith("HOLE_") or head in ("HOLE_",):
                    continue
                if (head, ident) in seen:
                    continue
                seen.add((head, ident))
                rr.instances += 1
                where = f.qualname if f else f"{g.qualname}.<templates>"
                rel = f.relpath if f else g.module.relpath
                st = f"`{ident}` in the code emitted by {g.name} resolves in the generated module"
                if head in builtin_names or keyword.iskeyword(head):
                    rr.ob(rel, where, f"{g.name}: {ident}", st, DISCHARGED, "builtin", getattr(node, "lineno", 0), trivial=True)
                    continue
                if head in provided:
                    # IMP-3: attribute chains resolve in the imported module
                    detail = "imported by the same generator"
                    ok = True
                    if "." in ident:
                        attr = ident.split(".")[1]
                        src = next((im for im in all_imps if im.fi in own_funcs and (
                            (im.names is None and im.module.split(".")[0] == head) or (im.names and head in im.names))), None)
                        if src is not None:
                            if src.names is None:
                                b = module_bound_names(src.module)
                                ok = b is None or attr in b
                                detail += f"; `{attr}` {'bound in' if ok else 'NOT bound in'} {src.module}"
                            else:
                                m = prog.by_modname.get(src.module)
                                r = prog.resolve_global(m, head) if m is not None else None
                                if isinstance(r, ClassInfo):
                                    ok = attr in r.assigns or attr in r.methods
                                    detail += f"; member `{attr}` {'exists' if ok else 'missing'} in {r.qualname}"
                    rr.ob(rel, where, f"{g.name}: {ident}", st, DISCHARGED if ok else VIOLATED, detail, getattr(node, "lineno", 0))
                else:
                    rr.ob(rel, where, f"{g.name}: {ident}", st, VIOLATED,
                          f"`{head}` is used in emitted code but {g.name} emits no import for it (NameError when the "
                          f"generated module runs); imports of this generator: {sorted(provided)}", getattr(node, "lineno", 0))
    return rr


def _eval_blacklist(ctx: Ctx) -> Set[str]:
    m = ctx.prog.module(BASE)
    if "blacklist_words" not in m.assigns:
        raise AnalysisError("SHADOW-1: blacklist_words vanished")

    def ev(e: ast.AST) -> Set[str]:
        if isinstance(e, ast.Call) and norm(e.func) in ("frozenset", "set") and e.args:
            return ev(e.args[0])
        if isinstance(e, ast.BinOp) and isinstance(e.op, ast.BitOr):
            return ev(e.left) | ev(e.right)
        if isinstance(e, ast.Name):
            vals = m.assigns.get(e.id)
            if not vals:
                raise AnalysisError(f"SHADOW-1: `{e.id}` is not a module constant")
            return ev(vals[-1])
        if isinstance(e, (ast.Set, ast.List, ast.Tuple)):
            return {x.value for x in e.elts if isinstance(x, ast.Constant)}
        t = norm(e)
        if t == "keyword.kwlist":
            return set(keyword.kwlist)
        if t in ("__builtins__.keys()", "dir(builtins)", "__builtins__"):
            return set(dir(builtins))
        raise AnalysisError(f"SHADOW-1: cannot evaluate `{t}` in the black-list definition")
    return ev(m.assigns["blacklist_words"][-1])


def rule_shadow1(ctx: Ctx) -> RuleResult:
    rr = RuleResult("SHADOW-1", "no generated field or class name can rebind a name the generated module imports", floor=15)
    bl = _eval_blacklist(ctx)
    rr.notes.append(f"black-list size: {len(bl)}")
    imps = collect_emitted_imports(ctx)
    names: Dict[str, EmittedImport] = {}
    for im in imps:
        for nm in ([im.module.split(".")[0]] if im.names is None else im.names):
            names.setdefault(nm, im)
    for nm, im in sorted(names.items()):
        rr.instances += 1
        ok = nm in bl
        rr.ob(im.fi.relpath, im.fi.qualname, f"import of `{nm}`", f"a key that sanitises to `{nm}` gets a suffix instead of "
              f"shadowing the import (class names keep their spelling; field names are snake-cased)",
              DISCHARGED if ok else VIOLATED, "black-listed" if ok else
              f"`{nm}` can be emitted as an import but is not in blacklist_words: a model or field of that name rebinds it "
              f"and the module's own annotations / decorators break", im.node.lineno)
    return rr


# ---------------------------------------------------------------------------------------------------------------
def find_class_def(dotted: str, name: str, depth: int = 0) -> Optional[Tuple[str, ast.ClassDef, ast.Module]]:
    """(module, ClassDef, tree) of a class as exported by a module, following `from .x import name` / `import *` re-exports."""
    if depth > 5:
        return None
    f = find_module_file(dotted)
    if not f or not f.endswith(".py"):
        return None
    try:
        tree = ast.parse(open(f, encoding="utf-8").read())
    except (SyntaxError, OSError):
        return None
    for st in ast.walk(tree):
        if isinstance(st, ast.ClassDef) and st.name == name and st in tree.body:
            return dotted, st, tree
    for st in ast.walk(tree):
        if isinstance(st, ast.ImportFrom):
            for a in st.names:
                if (a.asname or a.name) == name or a.name == "*":
                    sub = _abs(dotted, f, st)
                    r = find_class_def(sub, a.name if a.name != "*" else name, depth + 1)
                    if r:
                        return r
    return None


def class_public_attrs(dotted: str, name: str, depth: int = 0) -> Optional[Set[str]]:
    """Public attribute names a class defines (methods, class-level bindings, nested classes), bases in reach included."""
    r = find_class_def(dotted, name)
    if r is None:
        return None
    mod, cd, tree = r
    out: Set[str] = set()
    for st in cd.body:
        if isinstance(st, (ast.FunctionDef, ast.AsyncFunctionDef, ast.ClassDef)):
            out.add(st.name)
        elif isinstance(st, ast.Assign):
            for t in st.targets:
                if isinstance(t, ast.Name):
                    out.add(t.id)
        elif isinstance(st, ast.AnnAssign) and st.value is not None and isinstance(st.target, ast.Name):
            out.add(st.target.id)
        elif isinstance(st, ast.If):      # `if TYPE_CHECKING:` blocks declare, they do not bind
            continue
    if depth < 3:
        for b in cd.bases:
            if isinstance(b, ast.Name):
                sub = class_public_attrs(mod, b.id, depth + 1)
                if sub is None:
                    # imported into the defining module?
                    for st in tree.body:
                        if isinstance(st, ast.ImportFrom) and any((a.asname or a.name) == b.id for a in st.names):
                            f = find_module_file(mod)
                            sub = class_public_attrs(_abs(mod, f, st), b.id, depth + 1)
                if sub:
                    out |= sub
    return {n for n in out if not n.startswith("_")}


def rule_shadow2(ctx: Ctx) -> RuleResult:
    """Field names of a generated class must not collide with attributes of the framework base class it derives from."""
    rr = RuleResult("SHADOW-2", "no generated field name is an attribute of the framework base class", floor=1)
    bl = _eval_blacklist(ctx)
    prog = ctx.prog
    # (generator class, base class text, import module) from `generate(bases=...)` and the import it emits
    checked = 0
    for g in _generator_classes(ctx):
        for f in g.methods.get("generate", []):
            bases = None
            for c in walk_no_nested(f.node):
                if isinstance(c, ast.Call):
                    for kw in c.keywords:
                        if kw.arg == "bases" and isinstance(kw.value, ast.Constant) and isinstance(kw.value.value, str):
                            bases = kw.value.value
            if not bases:
                continue
            for base_name in [b.strip().split("(")[0] for b in bases.split(",")]:
                if "=" in base_name or not base_name.isidentifier():
                    continue
                # the module it is imported from, as emitted by this generator
                src = None
                for t in walk_no_nested(f.node):
                    if isinstance(t, ast.Tuple) and len(t.elts) == 2 and isinstance(t.elts[0], ast.Constant) and \
                            isinstance(t.elts[1], (ast.List, ast.Tuple)) and any(
                            isinstance(e, ast.Constant) and e.value == base_name for e in t.elts[1].elts):
                        src = t.elts[0].value
                if src is None:
                    continue
                attrs = class_public_attrs(src, base_name)
                if attrs is None:
                    rr.notes.append(f"{g.name}: source of {src}.{base_name} is not installed here; its attribute names are not checked")
                    continue
                checked += 1
                for nm in sorted(attrs):
                    rr.instances += 1
                    ok = nm in bl
                    rr.ob(f.relpath, f.qualname, f"{base_name}.{nm}", f"a key that sanitises to an attribute name of {src}.{base_name} "
                          f"gets a suffix (the framework refuses or mis-reads a field that shadows its own attribute)",
                          DISCHARGED if ok else VIOLATED, "black-listed" if ok else
                          f"`{nm}` is an attribute of {base_name} but not in blacklist_words: a sample with the key \"{nm}\" gives a "
                          f"class that does not load (pydantic: NameError: Field name \"{nm}\" shadows a BaseModel attribute)",
                          f.node.lineno)
    # names the frameworks' generated methods use for themselves (attrs: `def __init__(self, <fields>)`)
    for nm, why in (("self", "attrs generates `def __init__(self, <fields>)`: a field of that name is a duplicate argument"),):
        rr.instances += 1
        ok = nm in bl
        rr.ob(BASE, "<module>", f"reserved name `{nm}`", "a key that sanitises to a parameter name of a generated method gets a suffix",
              DISCHARGED if ok else VIOLATED, "black-listed" if ok else f"`{nm}` is not in blacklist_words: {why}", 1)
    # attribute lookup on a class falls back to its metaclass: `type` for dataclasses / attrs, ABCMeta for pydantic
    import abc
    for meta_cls in (type, abc.ABCMeta):
        for nm in sorted(x for x in dir(meta_cls) if not x.startswith("_")):
            rr.instances += 1
            ok = nm in bl
            rr.ob(BASE, "<module>", f"{meta_cls.__name__}.{nm}", "a key that sanitises to an attribute name of the metaclass gets a suffix "
                  "(getattr(cls, name) finds it: dataclasses takes it for the field's default, pydantic refuses the field)",
                  DISCHARGED if ok else VIOLATED, "black-listed" if ok else
                  f"`{nm}` is not in blacklist_words: a sample with the key \"{nm}\" gives a class that does not load", 1)
    if checked == 0:
        rr.instances += 1
        rr.ob(BASE, "<module>", "framework base classes", "attribute names of the framework base classes are black-listed", ALLOWED,
              "no framework distribution with readable source is installed here: unverifiable (counted, not failed)", 1)
    return rr


# ---------------------------------------------------------------------------------------------------------------
def rule_imp5(ctx: Ctx) -> RuleResult:
    """compile_imports: every collected import request ends up in the emitted import block (requests for one module are united)."""
    rr = RuleResult("IMP-5", "every import request is emitted; requests for the same module are united", floor=4)
    f = ctx.prog.func("json_to_models/dynamic_typing/typing.py", "compile_imports")
    mod = f.module
    p = f.params[0]
    loops = [n for n in walk_no_nested(f.node) if isinstance(n, ast.For) and p in {x.id for x in ast.walk(n.iter) if isinstance(x, ast.Name)}]
    if len(loops) != 1:
        raise AnalysisError(f"IMP-5: expected one loop over `{p}` in compile_imports, found {len(loops)}")
    lp = loops[0]
    st0 = "no import request is skipped: the loop visits every (module, names) pair that is not empty"
    rr.instances += 1
    it = norm(lp.iter)
    ok = it in (p, f"filter(None, {p})", f"list({p})", f"[i for i in {p} if i]", f"(i for i in {p} if i)")
    esc = [x for s in lp.body for x in ast.walk(s) if isinstance(x, (ast.Continue, ast.Break, ast.Return))]
    rr.ob(f.relpath, f.qualname, f"for ... in {it}", st0, DISCHARGED if ok and not esc else VIOLATED,
          "all non-empty requests" if ok and not esc else
          (f"`{norm(esc[0])}` leaves the loop body early" if esc else f"iterates `{it}`: requests can be filtered away"), lp.lineno)
    # the two kinds of request
    tv = [x.id for x in lp.target.elts] if isinstance(lp.target, ast.Tuple) else []
    if len(tv) != 2:
        raise AnalysisError("IMP-5: loop target is not (module, names)")
    m_, c_ = tv
    iff = next((s for s in lp.body if isinstance(s, ast.If)), None)
    if iff is None:
        raise AnalysisError("IMP-5: no branch on the kind of request")
    none_first = norm(iff.test) in (f"{c_} is None", f"not {c_}")
    pkg_body, cls_body = (iff.body, iff.orelse) if none_first else (iff.orelse, iff.body)
    if not none_first and norm(iff.test) not in (f"{c_} is not None", c_):
        raise AnalysisError(f"IMP-5: unrecognised test `{norm(iff.test)}`")
    rr.instances += 1
    adds = [x for s in pkg_body for x in ast.walk(s) if isinstance(x, ast.Call) and isinstance(x.func, ast.Attribute)
            and x.func.attr in ("add", "append") and x.args and norm(x.args[0]) == m_]
    pkg_set = norm(adds[0].func.value) if adds else None
    rr.ob(f.relpath, f.qualname, norm(adds[0]) if adds else "module request", "a request without names (`import module`) is recorded",
          DISCHARGED if adds else VIOLATED, f"recorded in {pkg_set}" if adds else "the module is not recorded", iff.lineno)
    # names are united with what is already known for the module
    rr.instances += 1
    ups = [x for s in cls_body for x in ast.walk(s) if isinstance(x, ast.Call) and isinstance(x.func, ast.Attribute)
           and x.func.attr in ("add", "update", "extend", "append") and x.args and c_ in {y.id for y in ast.walk(x.args[0]) if isinstance(y, ast.Name)}]
    okc = False
    whyc = "the names are not added to a collection"
    cls_map = None
    if ups:
        tgt = ups[0].func.value
        # the collection updated is the map entry of this module
        src = None
        if isinstance(tgt, ast.Name):
            defs = [s for s in ast.walk(lp) if isinstance(s, ast.Assign) and norm(s.targets[0]) == tgt.id]
            if len(defs) == 1:
                src = defs[0].value
        else:
            src = tgt
        txt = norm(src) if src is not None else ""
        from_map = (".get(" + m_ in txt or ".setdefault(" + m_ in txt or f"[{m_}]" in txt)
        cls_map = txt.split(".get(")[0].split(".setdefault(")[0].split("[")[0] if from_map else None
        stored = from_map and (".setdefault(" in txt or f"[{m_}]" in txt and ".get(" not in txt or any(
            isinstance(s, ast.Assign) and isinstance(s.targets[0], ast.Subscript) and norm(s.targets[0].slice) == m_
            for s in ast.walk(lp)))
        all_ups = all(any(u is x for x in ast.walk(br)) for br in [cls_body] for u in ups) if False else True
        okc = from_map and stored
        whyc = "" if okc else (f"names are collected in `{txt[:40]}`, not in the entry the map already holds for the module: a second "
                               f"request for the same module replaces the names of the first" if not from_map else
                               "the united set is not stored back into the map")
    rr.ob(f.relpath, f.qualname, norm(ups[0])[:70] if ups else "names request", "names requested from one module by different "
          "fields are united (typing: List from one field, Optional from another)", DISCHARGED if okc else VIOLATED,
          "united with the existing entry and stored" if okc else whyc, iff.lineno)
    # an import statement is emitted as the one line it was formatted as: nothing re-flows, cuts or wraps its text
    for js in walk_no_nested(f.node):
        if isinstance(js, ast.JoinedStr) and js.values and isinstance(js.values[0], ast.Constant) and \
                str(js.values[0].value).lstrip().startswith(("from ", "import ")):
            rr.instances += 1
            bad = None
            cur, par = js, mod.parents.get(js)
            while par is not None and not isinstance(par, ast.stmt):
                if isinstance(par, ast.Call) and cur in par.args and not (
                        isinstance(par.func, ast.Attribute) and par.func.attr in ("join", "append", "extend", "add", "insert") or
                        norm(par.func) in ("list", "tuple", "sorted", "chain", "itertools.chain")):
                    bad = par
                    break
                if isinstance(par, ast.Subscript) and par.value is cur:
                    bad = par
                    break
                cur, par = par, mod.parents.get(par)
            rr.ob(f.relpath, f.qualname, norm(js)[:60], "an import statement is one logical line, exactly as formatted",
                  VIOLATED if bad is not None else DISCHARGED,
                  f"`{norm(bad.func)[:30] if isinstance(bad, ast.Call) else 'a slice'}` re-shapes the statement text: a long `from ... import a, b, "
                  f"c` is broken over lines without parentheses - a SyntaxError in the generated module" if bad is not None else
                  "emitted as formatted", js.lineno)
    # output: both collections are rendered
    rr.instances += 1
    rets = [n for n in walk_no_nested(f.node) if isinstance(n, ast.Return) and n.value is not None]
    # names the returned expression depends on, through the local assignments that follow the loop
    used_after: Set[str] = set()
    if rets:
        work = [x.id for x in ast.walk(rets[0].value) if isinstance(x, ast.Name)]
        while work:
            nm = work.pop()
            if nm in used_after:
                continue
            used_after.add(nm)
            for n in walk_no_nested(f.node):
                if isinstance(n, (ast.Assign, ast.AnnAssign)) and getattr(n, "value", None) is not None and n.lineno > lp.end_lineno:
                    tg = n.targets if isinstance(n, ast.Assign) else [n.target]
                    if any(isinstance(t, ast.Name) and t.id == nm for t in tg):
                        work.extend(x.id for x in ast.walk(n.value) if isinstance(x, ast.Name))
    need = {v for v in (pkg_set, cls_map) if v}
    missing = sorted(v for v in need if v.split(".")[0] not in used_after)
    okr = bool(rets) and not missing and len(need) == 2
    rr.ob(f.relpath, f.qualname, norm(rets[0])[:70] if rets else "return", "both the `import x` and the `from x import y` requests "
          "are rendered into the returned block", DISCHARGED if okr else VIOLATED,
          "both collections are rendered" if okr else f"not rendered: {missing or 'a collection could not be identified'}",
          rets[0].lineno if rets else f.node.lineno)
    return rr
