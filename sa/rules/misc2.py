"""Rules written against the sixth batch of seeded changes: ENCERR-1, DATE-1, DSU-1, KEYTRUTH-1, PROC-1, ITERSELF-1, LOAD-5,
RUNLOOP-1, LOOKUP-2, SIG-1, LAY-4.  Most are zero-expected rules with an embedded positive control."""
from __future__ import annotations

import ast
from typing import Dict, List, Optional, Tuple

from ..ctx import Ctx
from ..model import AnalysisError, FuncInfo, norm, walk_no_nested
from ..report import DISCHARGED, VIOLATED, RuleResult
from ..util import has_escape

CLI = "json_to_models/cli.py"
BASE = "json_to_models/models/base.py"
GEN = "json_to_models/generator.py"
REG = "json_to_models/registry.py"
STRUCT = "json_to_models/models/structure.py"
DT = "json_to_models/dynamic_typing/string_datetime.py"


# ---------------------------------------------------------------------------------------------------------------
def lenient_codec_uses(tree: ast.AST) -> List[Tuple[ast.Call, str]]:
    """Calls that read / write / encode / decode text with an error policy other than strict."""
    out = []
    for n in ast.walk(tree):
        if not isinstance(n, ast.Call):
            continue
        fn = norm(n.func)
        last = fn.rsplit(".", 1)[-1]
        if last not in ("open", "encode", "decode", "TextIOWrapper", "read_text", "write_text", "reconfigure", "getreader", "getwriter",
                        "str", "bytes"):
            continue
        for k in n.keywords:
            if k.arg == "errors" and not (isinstance(k.value, ast.Constant) and k.value.value in ("strict", None)):
                out.append((n, norm(k.value)))
        # positional form: s.encode(enc, errors) / b.decode(enc, errors) / open(f, mode, buffering, encoding, errors)
        if last in ("encode", "decode") and len(n.args) >= 2 and not (isinstance(n.args[1], ast.Constant) and n.args[1].value == "strict"):
            out.append((n, norm(n.args[1])))
        if last == "open" and len(n.args) >= 5 and not (isinstance(n.args[4], ast.Constant) and n.args[4].value in ("strict", None)):
            out.append((n, norm(n.args[4])))
    return out


def rule_encerr1(ctx: Ctx) -> RuleResult:
    rr = RuleResult("ENCERR-1", "text is read, written, encoded and decoded with the strict error policy", floor=1)
    ctl = ast.parse("f = open(p, encoding='utf-8', errors='replace')\ng = open(p, encoding='utf-8')\nb = s.encode('utf-8', 'surrogateescape')\n")
    if len(lenient_codec_uses(ctl)) != 2:
        raise AnalysisError("ENCERR-1: positive control failed")
    st = ("a byte sequence that is not valid text fails the run (input) and a text that can not be encoded fails it before the output "
          "is touched: no `errors=` policy that substitutes, drops or smuggles bytes through")
    n = 0
    for m in ctx.prog.pkg_modules():
        n += 1
        for call, pol in lenient_codec_uses(m.tree):
            rr.instances += 1
            f = m.func_of_node(call)
            rr.ob(m.relpath, f.qualname if f else "<module>", norm(call)[:70], st, VIOLATED,
                  f"error policy {pol}: undecodable input becomes U+FFFD / is dropped and the run succeeds with strings that occur in no "
                  f"sample; on output, bytes that are not UTF-8 are written into the module", call.lineno)
    rr.instances += 1
    rr.ob("json_to_models", "<package>", f"{n} modules", st, DISCHARGED, "no lenient error policy (positive control matched)", 1)
    return rr


# ---------------------------------------------------------------------------------------------------------------
def rule_date1(ctx: Ctx) -> RuleResult:
    """is_date / is_time decide "this part is missing in the string" by comparing two parses with different defaults."""
    rr = RuleResult("DATE-1", "a missing date / time part is recognised by two parses with different defaults", floor=2)
    mod = ctx.prog.module(DT)
    st = ("dateutil fills the parts a string does not give from `default`: a part is missing exactly when two parses whose defaults "
          "differ in that part give different results. Comparing ONE parse with its default takes a string that happens to spell the "
          "default's value (09:xx) for a string without that part")
    for name, part in (("is_date", "hour"), ("is_time", "date")):
        f = ctx.prog.func(DT, name)
        rr.instances += 1
        parses = [c for c in walk_no_nested(f.node) if isinstance(c, ast.Call) and norm(c.func).endswith("parser.parse") or
                  isinstance(c, ast.Call) and norm(c.func) in ("parse", "dateutil_parse")]
        defaults = []
        for c in parses:
            d = next((k.value for k in c.keywords if k.arg == "default"), None)
            if d is not None:
                defaults.append(_resolve_const(ctx, mod, d))
        distinct = {norm(d) for d in defaults if d is not None}
        ok = len(parses) >= 2 and len(distinct) >= 2
        why = ""
        if ok:
            # the decision compares the two results with each other
            names = [norm(t) for n in walk_no_nested(f.node) if isinstance(n, ast.Assign) and n.value in parses for t in n.targets]
            cmp_ok = any(isinstance(n, ast.Compare) and len(n.ops) == 1 and isinstance(n.ops[0], (ast.Eq, ast.NotEq)) and
                         {norm(n.left), norm(n.comparators[0])} <= set(names) and len({norm(n.left), norm(n.comparators[0])}) == 2
                         for n in walk_no_nested(f.node))
            if not cmp_ok:
                ok, why = False, "the two parses are not compared with each other"
            # and the defaults differ in the part asked about
            ds = [d for d in defaults if isinstance(d, ast.Call)]
            if ok and len(ds) >= 2:
                a, b = [[norm(x) for x in d.args] for d in ds[:2]]
                if part == "hour" and not (len(a) > 3 and len(b) > 3 and a[3] != b[3]):
                    ok, why = False, "the two defaults do not differ in the hour"
                if part == "date" and a[:3] == b[:3]:
                    ok, why = False, "the two defaults do not differ in the date"
        else:
            why = f"{len(parses)} parse(s) with {len(distinct)} different default(s)"
        rr.ob(f.relpath, f.qualname, f"{len(parses)} parses, defaults {sorted(distinct)}"[:90], st, DISCHARGED if ok else VIOLATED,
              "differential test" if ok else why + f": a timestamp whose {part} equals the default's is typed as the wrong pseudo-type",
              f.node.lineno)
    return rr


def _resolve_const(ctx: Ctx, mod, e: ast.AST) -> Optional[ast.AST]:
    """NAME / NAME[i] -> the module-level expression it denotes."""
    if isinstance(e, ast.Subscript) and isinstance(e.value, ast.Name) and isinstance(e.slice, ast.Constant):
        v = mod.assigns.get(e.value.id)
        v = v[-1] if isinstance(v, list) and v else v
        if isinstance(v, (ast.Tuple, ast.List)) and isinstance(e.slice.value, int) and e.slice.value < len(v.elts):
            return v.elts[e.slice.value]
        return e
    if isinstance(e, ast.Name):
        v = mod.assigns.get(e.id)
        v = v[-1] if isinstance(v, list) and v else v
        return v if v is not None else e
    return e


# ---------------------------------------------------------------------------------------------------------------
def bad_union_find_links(tree: ast.AST) -> List[Tuple[ast.Assign, str]]:
    """In a function with a nested `find`, stores `table[k] = v` into the table `find` walks where k is not a root (a result of
    find): linking a non-root tears it out of its tree."""
    out = []
    for fn in ast.walk(tree):
        if not isinstance(fn, (ast.FunctionDef, ast.AsyncFunctionDef)):
            continue
        finds = [g for g in ast.walk(fn) if isinstance(g, ast.FunctionDef) and g is not fn and g.name in ("find", "_find", "find_root", "root_of")]
        for fd in finds:
            tables = {norm(x.value) for x in ast.walk(fd) if isinstance(x, ast.Subscript) and isinstance(x.value, ast.Name)}
            if not tables:
                continue
            roots = set()
            for x in ast.walk(fn):
                if isinstance(x, ast.Assign) and isinstance(x.value, ast.Call) and norm(x.value.func) == fd.name:
                    roots |= {norm(t) for t in x.targets}
                if isinstance(x, ast.Assign) and isinstance(x.targets[0], ast.Tuple) and isinstance(x.value, ast.Tuple):
                    for t, v in zip(x.targets[0].elts, x.value.elts):
                        if isinstance(v, ast.Call) and norm(v.func) == fd.name:
                            roots.add(norm(t))
            for x in ast.walk(fn):
                if any(x is y for y in ast.walk(fd)):
                    continue
                if isinstance(x, ast.Assign) and isinstance(x.targets[0], ast.Subscript) and norm(x.targets[0].value) in tables:
                    k = x.targets[0].slice
                    is_root = (isinstance(k, ast.Call) and norm(k.func) == fd.name) or norm(k) in roots
                    init = norm(k) == norm(x.value)           # table[x] = x : initialisation
                    if not is_root and not init:
                        out.append((x, norm(k)))
    return out


def rule_dsu1(ctx: Ctx) -> RuleResult:
    rr = RuleResult("DSU-1", "a union-find links roots only", floor=1)
    ctl = ast.parse("def groups(pairs):\n    leader = {}\n    def find(x):\n        while leader[x] != x:\n            x = leader[x]\n        return x\n"
                    "    for a, b in pairs:\n        leader[b] = find(a)\n    for a, b in pairs:\n        leader[find(b)] = find(a)\n")
    if len(bad_union_find_links(ctl)) != 1:
        raise AnalysisError("DSU-1: positive control failed")
    st = ("models are merged along the transitive closure of the similarity relation: if the groups are kept in a disjoint-set forest, a "
          "link joins the ROOTS of the two trees; re-parenting a member that is not a root detaches it (and its subtree) from its group")
    n = 0
    for m in ctx.prog.pkg_modules():
        n += 1
        for a, k in bad_union_find_links(m.tree):
            rr.instances += 1
            f = m.func_of_node(a)
            rr.ob(m.relpath, f.qualname if f else "<module>", norm(a)[:70], st, VIOLATED,
                  f"`{norm(a)[:50]}`: `{k}` is not the result of find(): for a chain a~b, c~d, b~d registered as a, c, b, d the model a "
                  f"stays outside the group although a~b holds", a.lineno)
    rr.instances += 1
    rr.ob("json_to_models", "<package>", f"{n} modules", st, DISCHARGED, "no union-find with a non-root link (positive control matched)", 1)
    return rr


# ---------------------------------------------------------------------------------------------------------------
KEY_ATTRS = ("parent_field_name",)
KEY_PARAM_FUNCS = ("field_data", "convert_field_name", "_get_field_kwargs", "_check_key")


def key_truthiness(tree: ast.AST) -> List[Tuple[ast.AST, str]]:
    """Truth tests of something that holds a JSON key: the empty string is a legal key."""
    out = []

    def is_key(e: ast.AST, keys: set) -> bool:
        return (isinstance(e, ast.Attribute) and e.attr in KEY_ATTRS) or (isinstance(e, ast.Name) and e.id in keys)

    def tests(fn_node, keys: set):
        for n in ast.walk(fn_node):
            cands = []
            if isinstance(n, (ast.If, ast.While, ast.IfExp)):
                cands.append(n.test)
            elif isinstance(n, ast.Assert):
                cands.append(n.test)
            elif isinstance(n, ast.comprehension):
                cands += n.ifs
            elif isinstance(n, ast.UnaryOp) and isinstance(n.op, ast.Not):
                cands.append(n.operand)
            elif isinstance(n, ast.BoolOp):
                cands += n.values[:-1] if isinstance(n.op, ast.Or) else n.values
            elif isinstance(n, ast.Call) and norm(n.func) == "bool" and n.args:
                cands.append(n.args[0])
            for c in cands:
                if isinstance(c, ast.UnaryOp) and isinstance(c.op, ast.Not):
                    c = c.operand
                if isinstance(c, ast.BoolOp):
                    for v in c.values:
                        if is_key(v, keys):
                            out.append((n, norm(v)))
                elif is_key(c, keys):
                    out.append((n, norm(c)))
    for fn in ast.walk(tree):
        if isinstance(fn, (ast.FunctionDef, ast.AsyncFunctionDef)):
            keys = set()
            if fn.name in KEY_PARAM_FUNCS:
                ps = [a.arg for a in fn.args.args if a.arg not in ("self", "cls")]
                if ps:
                    keys.add(ps[0])
            # locals derived from the key by a conditional expression that keeps it: x = name if ... else None
            for a in ast.walk(fn):
                if isinstance(a, ast.Assign) and isinstance(a.value, ast.IfExp) and len(a.targets) == 1 and isinstance(a.targets[0], ast.Name) \
                        and (is_key(a.value.body, keys) or is_key(a.value.orelse, keys)):
                    keys.add(a.targets[0].id)
            tests(fn, keys)
    # module level / class level
    seen = set()
    res = []
    for n, t in out:
        k = (getattr(n, "lineno", 0), t)
        if k not in seen:
            seen.add(k)
            res.append((n, t))
    return res


def rule_keytruth1(ctx: Ctx) -> RuleResult:
    rr = RuleResult("KEYTRUTH-1", "a JSON key is never tested for truth (the empty string is a key)", floor=1)
    ctl = ast.parse("def f(ptr):\n    return not ptr.parent_field_name\ndef field_data(self, name, meta):\n    original = name if name != 'x' else None\n"
                    "    if original and meta:\n        pass\n    if name is not None:\n        pass\n")
    if len(key_truthiness(ctl)) != 2:
        raise AnalysisError(f"KEYTRUTH-1: positive control failed ({len(key_truthiness(ctl))})")
    st = ("\"\" is a legal JSON key: whether a pointer has a parent field, or a field an original name, is asked with `is None` / "
          "`is not None` (or of the parent itself), never with the truth value of the key")
    n = 0
    for m in ctx.prog.pkg_modules():
        n += 1
        for node, what in key_truthiness(m.tree):
            rr.instances += 1
            f = m.func_of_node(node)
            rr.ob(m.relpath, f.qualname if f else "<module>", norm(node)[:70], st, VIOLATED,
                  f"`{what}` is tested for truth: for the key \"\" the answer is the one for 'no key at all' - the object under it is laid "
                  f"out as a root model / loses its original name", getattr(node, "lineno", 1))
    rr.instances += 1
    rr.ob("json_to_models", "<package>", f"{n} modules", st, DISCHARGED, "no truth test of a key (positive control matched)", 1)
    return rr


# ---------------------------------------------------------------------------------------------------------------
PROCESS_WIDE_CALLS = ("os.chdir", "os.fchdir", "os.umask", "os.putenv", "os.unsetenv", "locale.setlocale", "sys.setrecursionlimit",
                      "sys.setswitchinterval", "random.seed", "socket.setdefaulttimeout", "warnings.simplefilter",
                      "warnings.filterwarnings", "logging.basicConfig", "os.environ.update", "os.environ.setdefault",
                      "os.environ.pop", "os.environ.clear", "sys.path.insert", "sys.path.append", "chdir", "setlocale")
PROCESS_WIDE_TARGETS = ("sys.argv", "os.environ", "sys.path", "sys.stdout", "sys.stderr", "sys.stdin")


def process_wide_writes(tree: ast.AST) -> List[Tuple[ast.AST, str]]:
    out = []
    for n in ast.walk(tree):
        if isinstance(n, ast.Call) and norm(n.func) in PROCESS_WIDE_CALLS:
            out.append((n, norm(n.func)))
        if isinstance(n, (ast.Assign, ast.AugAssign, ast.Delete)):
            tgts = n.targets if isinstance(n, (ast.Assign, ast.Delete)) else [n.target]
            for t in tgts:
                base = t
                while isinstance(base, ast.Subscript):
                    base = base.value
                if norm(base) in PROCESS_WIDE_TARGETS:
                    out.append((n, norm(base)))
    return out


def rule_proc1(ctx: Ctx) -> RuleResult:
    rr = RuleResult("PROC-1", "a generation changes nothing that belongs to the whole process", floor=1)
    ctl = ast.parse("import os, sys\ndef f(d, a):\n    os.chdir(d)\n    sys.argv[1:] = a\n    x = sys.argv\n    os.path.join(d, 'x')\n")
    if len(process_wide_writes(ctl)) != 2:
        raise AnalysisError("PROC-1: positive control failed")
    st = ("the working directory, sys.argv, the environment, the locale and the standard streams belong to every thread of the "
          "process: a run that sets one of them (even when it restores it afterwards) changes what a run in another thread reads")
    funcs = sorted(set(ctx.lib_cone) | set(ctx.cli_cone), key=lambda f: f.key)
    for f in funcs:
        for node, what in process_wide_writes(f.node):
            if any(isinstance(g, (ast.FunctionDef, ast.Lambda)) and g is not f.node and any(node is y for y in ast.walk(g))
                   for g in ast.walk(f.node)):
                continue
            rr.instances += 1
            rr.ob(f.relpath, f.qualname, norm(node)[:70], st, VIOLATED,
                  f"`{what}` is process-wide: a generation running in another thread at that moment resolves its relative paths / reads "
                  f"its command line from the value this run has set", node.lineno)
    rr.instances += 1
    rr.ob("json_to_models", "<generation and CLI paths>", f"{len(funcs)} functions", st, DISCHARGED,
          "no process-wide setter (positive control matched)", 1)
    if len(funcs) < 50:
        raise AnalysisError(f"PROC-1: only {len(funcs)} functions in scope")
    return rr


# ---------------------------------------------------------------------------------------------------------------
def rule_iterself1(ctx: Ctx) -> RuleResult:
    rr = RuleResult("ITERSELF-1", "no shared container is its own iterator", floor=1)
    st = ("a container that many generations share (the string-type registry, a model registry, an IR node) hands out a NEW "
          "iterator for every loop; an object whose __iter__ returns itself keeps one cursor for all loops, so two loops over it - in "
          "two threads, or nested - steal each other's elements")
    n = 0
    for c in sorted(ctx.prog.all_classes(), key=lambda k: k.key):
        n += 1
        if "__next__" not in c.methods:
            continue
        it = c.methods.get("__iter__", [])
        returns_self = any(isinstance(r, ast.Return) and r.value is not None and norm(r.value) == "self"
                           for f in it for r in walk_no_nested(f.node))
        other = [m for m in c.methods if not (m.startswith("__") and m.endswith("__"))]
        if returns_self and other:
            rr.instances += 1
            f = c.methods["__next__"][0]
            rr.ob(f.relpath, f.qualname, f"class {c.name}: __iter__ returns self", st, VIOLATED,
                  f"{c.name} has {sorted(other)[:4]} and is its own iterator: the cursor lives on the shared object", f.node.lineno)
    rr.instances += 1
    rr.ob("json_to_models", "<package>", f"{n} classes", st, DISCHARGED, "no container with __next__", 1)
    if n < 20:
        raise AnalysisError(f"ITERSELF-1: only {n} classes")
    return rr


# ---------------------------------------------------------------------------------------------------------------
VALUE_HOOKS = ("parse_constant", "parse_float", "parse_int", "object_hook", "object_pairs_hook", "cls", "strict")


def rule_load5(ctx: Ctx) -> RuleResult:
    rr = RuleResult("LOAD-5", "the loaders hand on the document as the standard parser reads it", floor=1)
    loaders = ctx.prog.cls(CLI, "FileLoaders")
    st = ("what the command line infers from a file is what the library infers from `json.load()` of that file: no hook that replaces "
          "constants, numbers or objects while parsing")
    for ms in sorted(loaders.methods.values(), key=lambda m: m[0].key):
        for f in ms:
            for c in walk_no_nested(f.node):
                if isinstance(c, ast.Call) and norm(c.func).rsplit(".", 1)[-1] in ("load", "loads", "safe_load", "yaml_load", "read_file", "read"):
                    rr.instances += 1
                    hooks = [k.arg for k in c.keywords if k.arg in VALUE_HOOKS or k.arg is None]
                    rr.ob(f.relpath, f.qualname, norm(c)[:70], st, VIOLATED if hooks else DISCHARGED,
                          f"parser hook(s) {hooks}: values of the document are replaced before inference sees them (NaN -> null turns a "
                          f"float field into an Optional one)" if hooks else "plain call", c.lineno)
    return rr


# ---------------------------------------------------------------------------------------------------------------
def rule_runloop1(ctx: Ctx) -> RuleResult:
    rr = RuleResult("RUNLOOP-1", "every model name given on the command line goes through inference and registration", floor=1)
    run = ctx.prog.func(CLI, "Cli.run")
    st = ("Cli.run hands the samples of every model name to generate() and the result to process_meta_data(), whatever the samples "
          "are (also none at all: the library then emits an empty class)")
    loops = [n for n in walk_no_nested(run.node) if isinstance(n, ast.For) and "models_data" in norm(n.iter)]
    if not loops:
        raise AnalysisError("RUNLOOP-1: loop over models_data not found in Cli.run")
    lp = loops[0]
    rr.instances += 1
    problems = []
    if not (norm(lp.iter).endswith("models_data.items()") or norm(lp.iter).endswith("models_data")):
        problems.append(f"iterates `{norm(lp.iter)[:40]}`")
    calls = {"generate": None, "process_meta_data": None}
    for i, s_ in enumerate(lp.body):
        for x in ast.walk(s_):
            if isinstance(x, ast.Call) and isinstance(x.func, ast.Attribute) and x.func.attr in calls and calls[x.func.attr] is None:
                calls[x.func.attr] = (i, s_)
    for nm, v in calls.items():
        if v is None:
            problems.append(f"{nm}() is not called in the loop body proper")
        elif not isinstance(v[1], (ast.Assign, ast.Expr, ast.AnnAssign)):
            problems.append(f"{nm}() runs under `{type(v[1]).__name__.lower()}`: not for every model")
    last = max([v[0] for v in calls.values() if v is not None] or [0])
    for s_ in lp.body[:last]:
        if any(isinstance(x, (ast.Continue, ast.Break, ast.Return)) for x in ast.walk(s_)):
            problems.append(f"`{norm(s_)[:50]}` can skip a model before it is registered")
    rr.ob(run.relpath, run.qualname, f"for {norm(lp.target)} in {norm(lp.iter)}: ...", st, VIOLATED if problems else DISCHARGED,
          "; ".join(problems) + ": for that name the command line prints nothing where the library gives a class" if problems else
          "both stages run for every name", lp.lineno)
    return rr


# ---------------------------------------------------------------------------------------------------------------
def rule_lookup2(ctx: Ctx) -> RuleResult:
    rr = RuleResult("LOOKUP-2", "a lookup path that does not exist in the document fails the run", floor=1)
    f = ctx.prog.func(CLI, "dict_lookup")
    st = ("every step of the lookup path indexes the document (`d[key]`: KeyError / TypeError / IndexError end the run); a step with a "
          "fallback value (`get(key, {})`, try/except) turns a mistyped path into an empty sample and a successful run")
    d = f.params[0]
    rr.instances += 1
    problems = []
    for n in walk_no_nested(f.node):
        if isinstance(n, ast.Call) and isinstance(n.func, ast.Attribute) and n.func.attr in ("get", "setdefault", "pop") and \
                any(isinstance(x, ast.Name) and x.id == d for x in ast.walk(n.func.value)):
            problems.append(f"`{norm(n)[:40]}` has a fallback")
        if isinstance(n, ast.Try):
            problems.append("a try/except around the lookup")
        if isinstance(n, ast.Call) and norm(n.func) == "getattr" and len(n.args) == 3:
            problems.append(f"`{norm(n)[:40]}` has a fallback")
    steps = [n for n in walk_no_nested(f.node) if isinstance(n, ast.Subscript) and isinstance(n.ctx, ast.Load) and norm(n.value) == d]
    if not steps and not problems:
        raise AnalysisError("LOOKUP-2: dict_lookup no longer indexes its document")
    rr.ob(f.relpath, f.qualname, "; ".join(norm(s_) for s_ in steps)[:80] or "lookup", st, VIOLATED if problems else DISCHARGED,
          "; ".join(problems) + ": the key `item` for `items` exits 0, prints `class Item: pass` and overwrites the output file"
          if problems else f"{len(steps)} indexing step(s), no fallback", f.node.lineno)
    return rr


# ---------------------------------------------------------------------------------------------------------------
# public entry points: positional parameters as documented (README / docstrings); new parameters may only follow them
PUBLIC_SIGNATURES = {
    (BASE, "generate_code"): ["structure", "class_generator", "class_generator_kwargs", "objects_delimiter", "preamble"],
    (STRUCT, "compose_models"): ["models_map"],
    (STRUCT, "compose_models_flat"): ["models_map"],
    (GEN, "MetadataGenerator.__init__"): ["self", "str_types_registry", "dict_keys_regex", "dict_keys_fields"],
    (GEN, "MetadataGenerator.generate"): ["self", "data_variants"],
    (REG, "ModelRegistry.__init__"): ["self", "models_cmp"],
    (REG, "ModelRegistry.process_meta_data"): ["self", "meta", "model_name"],
    (REG, "ModelRegistry.merge_models"): ["self", "generator", "strict"],
}


def rule_sig1(ctx: Ctx) -> RuleResult:
    rr = RuleResult("SIG-1", "the documented entry points keep the order of their positional parameters", floor=6)
    st = ("callers written against the released package pass these arguments by position: the released parameters stay where they "
          "are (a new one may follow them)")
    for (rel, qn), want in sorted(PUBLIC_SIGNATURES.items()):
        f = ctx.prog.func(rel, qn)
        rr.instances += 1
        got = f.params
        ok = got[:len(want)] == want
        rr.ob(f.relpath, f.qualname, f"({', '.join(got)})"[:90], st, DISCHARGED if ok else VIOLATED,
              "as released" if ok else
              f"released order is ({', '.join(want)}): a positional call now binds its arguments to other parameters (generate_code: the "
              f"preamble is used as the delimiter between classes and appears several times)", f.node.lineno)
    return rr


# ---------------------------------------------------------------------------------------------------------------
def rule_lay4(ctx: Ctx) -> RuleResult:
    rr = RuleResult("LAY-4", "where a class is placed depends on how many MODELS refer to it", floor=2)
    st = ("both layouts decide from the set of distinct parent models of a class (one parent: next to / inside that parent; several: "
          "hoisted). Counting pointers or (parent, field) pairs instead hoists a class that one parent refers to through two fields, "
          "in the nested layout only")
    for qn in ("compose_models", "compose_models_flat"):
        f = ctx.prog.func(STRUCT, qn)
        counted = set()
        for n in walk_no_nested(f.node):
            if isinstance(n, ast.Compare) and isinstance(n.left, ast.Call) and norm(n.left.func) == "len" and n.left.args and \
                    isinstance(n.left.args[0], ast.Name):
                counted.add(n.left.args[0].id)
        for nm in sorted(counted):
            ds = [a for a in walk_no_nested(f.node) if isinstance(a, ast.Assign) and norm(a.targets[0]) == nm]
            if not ds or not isinstance(ds[0].value, (ast.SetComp, ast.ListComp, ast.GeneratorExp, ast.Call)):
                continue
            v = ds[0].value
            comp = v if isinstance(v, (ast.SetComp, ast.ListComp, ast.GeneratorExp)) else next(
                (a for a in v.args if isinstance(a, (ast.SetComp, ast.ListComp, ast.GeneratorExp))), None)
            if comp is None or "pointers" not in norm(comp.generators[0].iter):
                continue
            if norm(v).startswith("list(filter_pointers"):
                continue
            rr.instances += 1
            elt = norm(comp.elt)
            is_set = isinstance(v, ast.SetComp) or (isinstance(v, ast.Call) and norm(v.func) in ("set", "frozenset"))
            ok = is_set and elt in (f"{norm(comp.generators[0].target)}.parent.index",
                                                         f"{norm(comp.generators[0].target)}.parent")
            rr.ob(f.relpath, f.qualname, norm(ds[0])[:80], st, DISCHARGED if ok else VIOLATED,
                  "set of parent models" if ok else
                  f"`{nm}` collects `{elt[:40]}`, not the parent models: its size is the number of references", ds[0].lineno)
    return rr


# ---------------------------------------------------------------------------------------------------------------
def rule_eqcyc1(ctx: Ctx) -> RuleResult:
    rr = RuleResult("EQCYC-1", "two registered models are compared by identity, not through their fields", floor=1)
    MM = "json_to_models/dynamic_typing/models_meta.py"
    f = ctx.prog.func(MM, "ModelMeta.__eq__")
    other = [a for a in f.params if a != "self"][0]
    st = ("a model graph can be cyclic (a tree node holds a list of tree nodes) and two different models can have equal fields: "
          "`model == model` is decided by the unique index, before anything compares the fields. (The hash is the index already; "
          "which models are alike is the comparators' business.)")
    rr.instances += 1
    ident = None
    structural_first = None
    for s_ in f.node.body:
        if isinstance(s_, ast.Expr) and isinstance(s_.value, ast.Constant):
            continue
        if isinstance(s_, ast.If) and f"isinstance({other}, ModelMeta)" in norm(s_.test) or \
                isinstance(s_, ast.If) and f"type({other}) is" in norm(s_.test):
            rets = [r for r in ast.walk(s_) if isinstance(r, ast.Return) and r.value is not None]
            if rets and all(("index" in norm(r.value) or " is " in norm(r.value)) and ".type" not in norm(r.value) for r in rets if any(r is y for b in s_.body for y in ast.walk(b))):
                ident = s_
                break
        if any(isinstance(x, ast.Call) and norm(x.func).startswith("super()") for x in ast.walk(s_)) or \
                any(isinstance(x, ast.Compare) and f"{other}.type" in norm(x) for x in ast.walk(s_)):
            if not (isinstance(s_, ast.If) and f"isinstance({other}, dict)" in norm(s_.test) and not s_.orelse):
                structural_first = s_
                break
    ok = ident is not None and structural_first is None
    rr.ob(f.relpath, f.qualname, norm(ident.test)[:60] if ident is not None else norm(f.node.body[-1])[:60], st,
          DISCHARGED if ok else VIOLATED,
          "identity decided first" if ok else
          "two models are compared through SingleType.__eq__, i.e. field by field and through the pointers in the fields: the "
          "comparison of two self-referential models does not end (RecursionError in merge_models), and pointers to two different "
          "models with equal fields count as one", f.node.lineno)
    return rr
