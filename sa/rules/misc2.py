"""Rules written against the sixth batch of seeded changes: ENCERR-1, DATE-1, DSU-1, KEYTRUTH-1, PROC-1, ITERSELF-1, LOAD-5,
RUNLOOP-1, LOOKUP-2, SIG-1, LAY-4.  Most are zero-expected rules with an embedded positive control."""
from __future__ import annotations

import ast
from typing import Dict, List, Optional, Tuple

from ..ctx import Ctx
from ..model import AnalysisError, FuncInfo, norm, walk_no_nested
from ..report import DISCHARGED, VIOLATED, RuleResult
from ..util import has_escape

CLI = "json_to_models/cli.py"
BASE = "json_to_models/models/base.py"
GEN = "json_to_models/generator.py"
REG = "json_to_models/registry.py"
STRUCT = "json_to_models/models/structure.py"
DT = "json_to_models/dynamic_typing/string_datetime.py"


# ---------------------------------------------------------------------------------------------------------------
def lenient_codec_uses(tree: ast.AST) -> List[Tuple[ast.Call, str]]:
    """Calls that read / write / encode / decode text with an error policy other than strict."""
    out = []
    for n in ast.walk(tree):
        if not isinstance(n, ast.Call):
            continue
        fn = norm(n.func)
        last = fn.rsplit(".", 1)[-1]
        if last not in ("open", "encode", "decode", "TextIOWrapper", "read_text", "write_text", "reconfigure", "getreader", "getwriter",
                        "str", "bytes"):
            continue
        for k in n.keywords:
            if k.arg == "errors" and not (isinstance(k.value, ast.Constant) and k.value.value in ("strict", None)):
                out.append((n, norm(k.value)))
        # positional form: s.encode(enc, errors) / b.decode(enc, errors) / open(f, mode, buffering, encoding, errors)
        if last in ("encode", "decode") and len(n.args) >= 2 and not (isinstance(n.args[1], ast.Constant) and n.args[1].value == "strict"):
            out.append((n, norm(n.args[1])))
        if last == "open" and len(n.args) >= 5 and not (isinstance(n.args[4], ast.Constant) and n.args[4].value in ("strict", None)):
            out.append((n, norm(n.args[4])))
    return out


def rule_encerr1(ctx: Ctx) -> RuleResult:
    rr = RuleResult("ENCERR-1", "text is read, written, encoded and decoded with the strict error policy", floor=1)
    ctl = ast.parse("f = open(p, encoding='utf-8', errors='replace')\ng = open(p, encoding='utf-8')\nb = s.encode('utf-8', 'surrogateescape')\n")
    if len(lenient_codec_uses(ctl)) != 2:
        raise AnalysisError("ENCERR-1: positive control failed")
    st = ("a byte sequence that is not valid text fails the run (input) and a text that can not be encoded fails it before the output "
          "is touched: no `errors=` policy that substitutes, drops or smuggles bytes through")
    n = 0
    for m in ctx.prog.pkg_modules():
        n += 1
        for call, pol in lenient_codec_uses(m.tree):
            rr.instances += 1
            f = m.func_of_node(call)
            rr.ob(m.relpath, f.qualname if f else "<module>", norm(call)[:70], st, VIOLATED,
                  f"error policy {pol}: undecodable input becomes U+FFFD / is dropped and the run succeeds with strings that occur in no "
                  f"sample; on output, bytes that are not UTF-8 are written into the module", call.lineno)
    rr.instances += 1
    rr.ob("json_to_models", "<package>", f"{n} modules", st, DISCHARGED, "no lenient error policy (positive control matched)", 1)
    return rr


# ---------------------------------------------------------------------------------------------------------------
def rule_date1(ctx: Ctx) -> RuleResult:
    """is_date / is_time decide "this part is missing in the string" by comparing two parses with different defaults."""
    rr = RuleResult("DATE-1", "a missing date / time part is recognised by two parses with different defaults", floor=2)
    mod = ctx.prog.module(DT)
    st = ("dateutil fills the parts a string does not give from `default`: a part is missing exactly when two parses whose defaults "
          "differ in that part give different results. Comparing ONE parse with its default takes a string that happens to spell the "
          "default's value (09:xx) for a string without that part")
    for name, part in (("is_date", "hour"), ("is_time", "date")):
        f = ctx.prog.func(DT, name)
        rr.instances += 1
        parses = [c for c in walk_no_nested(f.node) if isinstance(c, ast.Call) and norm(c.func).endswith("parser.parse") or
                  isinstance(c, ast.Call) and norm(c.func) in ("parse", "dateutil_parse")]
        defaults = []
        for c in parses:
            d = next((k.value for k in c.keywords if k.arg == "default"), None)
            if d is not None:
                defaults.append(_resolve_const(ctx, mod, d))
        distinct = {norm(d) for d in defaults if d is not None}
        ok = len(parses) >= 2 and len(distinct) >= 2
        why = ""
        if ok:
            # the decision compares the two results with each other
            names = [norm(t) for n in walk_no_nested(f.node) if isinstance(n, ast.Assign) and n.value in parses for t in n.targets]
            cmp_ok = any(isinstance(n, ast.Compare) and len(n.ops) == 1 and isinstance(n.ops[0], (ast.Eq, ast.NotEq)) and
                         {norm(n.left), norm(n.comparators[0])} <= set(names) and len({norm(n.left), norm(n.comparators[0])}) == 2
                         for n in walk_no_nested(f.node))
            if not cmp_ok:
                ok, why = False, "the two parses are not compared with each other"
            # and the defaults differ in the part asked about
            ds = [d for d in defaults if isinstance(d, ast.Call)]
            if ok and len(ds) >= 2:
                a, b = [[norm(x) for x in d.args] for d in ds[:2]]
                if part == "hour" and not (len(a) > 3 and len(b) > 3 and a[3] != b[3]):
                    ok, why = False, "the two defaults do not differ in the hour"
                if part == "date" and a[:3] == b[:3]:
                    ok, why = False, "the two defaults do not differ in the date"
        else:
            why = f"{len(parses)} parse(s) with {len(distinct)} different default(s)"
        # what is handed back is the naive part asked for: .date() / .time() of a parse (timetz() keeps an offset that the
        # renderer cannot write for offsets of a day or more)
        want = "date" if name == "is_date" else "time"
        rets = [r for r in walk_no_nested(f.node) if isinstance(r, ast.Return) and r.value is not None]
        for r in rets:
            for c in ast.walk(r.value):
                if isinstance(c, ast.Call) and isinstance(c.func, ast.Attribute) and c.func.attr in ("date", "time", "timetz", "timestamp",
                                                                                                        "replace", "astimezone", "isoformat"):
                    if c.func.attr != want and ok:
                        ok, why = False, f"returns `.{c.func.attr}()` of the parse, not `.{want}()`"
        rr.ob(f.relpath, f.qualname, f"{len(parses)} parses, defaults {sorted(distinct)}"[:90], st, DISCHARGED if ok else VIOLATED,
              "differential test" if ok else why + f": a timestamp whose {part} equals the default's is typed as the wrong pseudo-type",
              f.node.lineno)
    return rr


def _resolve_const(ctx: Ctx, mod, e: ast.AST) -> Optional[ast.AST]:
    """NAME / NAME[i] -> the module-level expression it denotes."""
    if isinstance(e, ast.Subscript) and isinstance(e.value, ast.Name) and isinstance(e.slice, ast.Constant):
        v = mod.assigns.get(e.value.id)
        v = v[-1] if isinstance(v, list) and v else v
        if isinstance(v, (ast.Tuple, ast.List)) and isinstance(e.slice.value, int) and e.slice.value < len(v.elts):
            return v.elts[e.slice.value]
        return e
    if isinstance(e, ast.Name):
        v = mod.assigns.get(e.id)
        v = v[-1] if isinstance(v, list) and v else v
        return v if v is not None else e
    return e


# ---------------------------------------------------------------------------------------------------------------
def bad_union_find_links(tree: ast.AST) -> List[Tuple[ast.Assign, str]]:
    """In a function with a nested `find`, stores `table[k] = v` into the table `find` walks where k is not a root (a result of
    find): linking a non-root tears it out of its tree."""
    out = []
    for fn in ast.walk(tree):
        if not isinstance(fn, (ast.FunctionDef, ast.AsyncFunctionDef)):
            continue
        finds = [g for g in ast.walk(fn) if isinstance(g, ast.FunctionDef) and g is not fn and g.name in ("find", "_find", "find_root", "root_of")]
        for fd in finds:
            tables = {norm(x.value) for x in ast.walk(fd) if isinstance(x, ast.Subscript) and isinstance(x.value, ast.Name)}
            if not tables:
                continue
            roots = set()
            for x in ast.walk(fn):
                if isinstance(x, ast.Assign) and isinstance(x.value, ast.Call) and norm(x.value.func) == fd.name:
                    roots |= {norm(t) for t in x.targets}
                if isinstance(x, ast.Assign) and isinstance(x.targets[0], ast.Tuple) and isinstance(x.value, ast.Tuple):
                    for t, v in zip(x.targets[0].elts, x.value.elts):
                        if isinstance(v, ast.Call) and norm(v.func) == fd.name:
                            roots.add(norm(t))
            for x in ast.walk(fn):
                if any(x is y for y in ast.walk(fd)):
                    continue
                if isinstance(x, ast.Assign) and isinstance(x.targets[0], ast.Subscript) and norm(x.targets[0].value) in tables:
                    k = x.targets[0].slice
                    is_root = (isinstance(k, ast.Call) and norm(k.func) == fd.name) or norm(k) in roots
                    init = norm(k) == norm(x.value)           # table[x] = x : initialisation
                    if not is_root and not init:
                        out.append((x, norm(k)))
    return out


def rule_dsu1(ctx: Ctx) -> RuleResult:
    rr = RuleResult("DSU-1", "a union-find links roots only", floor=1)
    ctl = ast.parse("def groups(pairs):\n    leader = {}\n    def find(x):\n        while leader[x] != x:\n            x = leader[x]\n        return x\n"
                    "    for a, b in pairs:\n        leader[b] = find(a)\n    for a, b in pairs:\n        leader[find(b)] = find(a)\n")
    if len(bad_union_find_links(ctl)) != 1:
        raise AnalysisError("DSU-1: positive control failed")
    st = ("models are merged along the transitive closure of the similarity relation: if the groups are kept in a disjoint-set forest, a "
          "link joins the ROOTS of the two trees; re-parenting a member that is not a root detaches it (and its subtree) from its group")
    n = 0
    for m in ctx.prog.pkg_modules():
        n += 1
        for a, k in bad_union_find_links(m.tree):
            rr.instances += 1
            f = m.func_of_node(a)
            rr.ob(m.relpath, f.qualname if f else "<module>", norm(a)[:70], st, VIOLATED,
                  f"`{norm(a)[:50]}`: `{k}` is not the result of find(): for a chain a~b, c~d, b~d registered as a, c, b, d the model a "
                  f"stays outside the group although a~b holds", a.lineno)
    rr.instances += 1
    rr.ob("json_to_models", "<package>", f"{n} modules", st, DISCHARGED, "no union-find with a non-root link (positive control matched)", 1)
    return rr


# ---------------------------------------------------------------------------------------------------------------
KEY_ATTRS = ("parent_field_name",)
KEY_PARAM_FUNCS = ("field_data", "convert_field_name", "_get_field_kwargs", "_check_key")


def key_truthiness(tree: ast.AST) -> List[Tuple[ast.AST, str]]:
    """Truth tests of something that holds a JSON key: the empty string is a legal key."""
    out = []

    def is_key(e: ast.AST, keys: set) -> bool:
        return (isinstance(e, ast.Attribute) and e.attr in KEY_ATTRS) or (isinstance(e, ast.Name) and e.id in keys)

    def tests(fn_node, keys: set):
        for n in ast.walk(fn_node):
            cands = []
            if isinstance(n, (ast.If, ast.While, ast.IfExp)):
                cands.append(n.test)
            elif isinstance(n, ast.Assert):
                cands.append(n.test)
            elif isinstance(n, ast.comprehension):
                cands += n.ifs
            elif isinstance(n, ast.UnaryOp) and isinstance(n.op, ast.Not):
                cands.append(n.operand)
            elif isinstance(n, ast.BoolOp):
                cands += n.values[:-1] if isinstance(n.op, ast.Or) else n.values
            elif isinstance(n, ast.Call) and norm(n.func) == "bool" and n.args:
                cands.append(n.args[0])
            for c in cands:
                if isinstance(c, ast.UnaryOp) and isinstance(c.op, ast.Not):
                    c = c.operand
                if isinstance(c, ast.BoolOp):
                    for v in c.values:
                        if is_key(v, keys):
                            out.append((n, norm(v)))
                elif is_key(c, keys):
                    out.append((n, norm(c)))
    for fn in ast.walk(tree):
        if isinstance(fn, (ast.FunctionDef, ast.AsyncFunctionDef)):
            keys = set()
            if fn.name in KEY_PARAM_FUNCS:
                ps = [a.arg for a in fn.args.args if a.arg not in ("self", "cls")]
                if ps:
                    keys.add(ps[0])
            # locals derived from the key by a conditional expression that keeps it: x = name if ... else None
            for a in ast.walk(fn):
                if isinstance(a, ast.Assign) and isinstance(a.value, ast.IfExp) and len(a.targets) == 1 and isinstance(a.targets[0], ast.Name) \
                        and (is_key(a.value.body, keys) or is_key(a.value.orelse, keys)):
                    keys.add(a.targets[0].id)
            tests(fn, keys)
    # module level / class level
    seen = set()
    res = []
    for n, t in out:
        k = (getattr(n, "lineno", 0), t)
        if k not in seen:
            seen.add(k)
            res.append((n, t))
    return res


def rule_keytruth1(ctx: Ctx) -> RuleResult:
    rr = RuleResult("KEYTRUTH-1", "a JSON key is never tested for truth (the empty string is a key)", floor=1)
    ctl = ast.parse("def f(ptr):\n    return not ptr.parent_field_name\ndef field_data(self, name, meta):\n    original = name if name != 'x' else None\n"
                    "    if original and meta:\n        pass\n    if name is not None:\n        pass\n")
    if len(key_truthiness(ctl)) != 2:
        raise AnalysisError(f"KEYTRUTH-1: positive control failed ({len(key_truthiness(ctl))})")
    st = ("\"\" is a legal JSON key: whether a pointer has a parent field, or a field an original name, is asked with `is None` / "
          "`is not None` (or of the parent itself), never with the truth value of the key")
    n = 0
    for m in ctx.prog.pkg_modules():
        n += 1
        for node, what in key_truthiness(m.tree):
            rr.instances += 1
            f = m.func_of_node(node)
            rr.ob(m.relpath, f.qualname if f else "<module>", norm(node)[:70], st, VIOLATED,
                  f"`{what}` is tested for truth: for the key \"\" the answer is the one for 'no key at all' - the object under it is laid "
                  f"out as a root model / loses its original name", getattr(node, "lineno", 1))
    rr.instances += 1
    rr.ob("json_to_models", "<package>", f"{n} modules", st, DISCHARGED, "no truth test of a key (positive control matched)", 1)
    return rr


# ---------------------------------------------------------------------------------------------------------------
PROCESS_WIDE_CALLS = ("os.chdir", "os.fchdir", "os.umask", "os.putenv", "os.unsetenv", "locale.setlocale", "sys.setrecursionlimit",
                      "sys.setswitchinterval", "random.seed", "socket.setdefaulttimeout", "warnings.simplefilter",
                      "warnings.filterwarnings", "logging.basicConfig", "os.environ.update", "os.environ.setdefault",
                      "os.environ.pop", "os.environ.clear", "sys.path.insert", "sys.path.append", "chdir", "setlocale")
PROCESS_WIDE_TARGETS = ("sys.argv", "os.environ", "sys.path", "sys.stdout", "sys.stderr", "sys.stdin")


def process_wide_writes(tree: ast.AST) -> List[Tuple[ast.AST, str]]:
    out = []
    for n in ast.walk(tree):
        if isinstance(n, ast.Call) and norm(n.func) in PROCESS_WIDE_CALLS:
            out.append((n, norm(n.func)))
        if isinstance(n, (ast.Assign, ast.AugAssign, ast.Delete)):
            tgts = n.targets if isinstance(n, (ast.Assign, ast.Delete)) else [n.target]
            for t in tgts:
                base = t
                while isinstance(base, ast.Subscript):
                    base = base.value
                if norm(base) in PROCESS_WIDE_TARGETS:
                    out.append((n, norm(base)))
    return out


def rule_proc1(ctx: Ctx) -> RuleResult:
    rr = RuleResult("PROC-1", "a generation changes nothing that belongs to the whole process", floor=1)
    ctl = ast.parse("import os, sys\ndef f(d, a):\n    os.chdir(d)\n    sys.argv[1:] = a\n    x = sys.argv\n    os.path.join(d, 'x')\n")
    if len(process_wide_writes(ctl)) != 2:
        raise AnalysisError("PROC-1: positive control failed")
    st = ("the working directory, sys.argv, the environment, the locale and the standard streams belong to every thread of the "
          "process: a run that sets one of them (even when it restores it afterwards) changes what a run in another thread reads")
    funcs = sorted(set(ctx.lib_cone) | set(ctx.cli_cone), key=lambda f: f.key)
    for f in funcs:
        for node, what in process_wide_writes(f.node):
            if any(isinstance(g, (ast.FunctionDef, ast.Lambda)) and g is not f.node and any(node is y for y in ast.walk(g))
                   for g in ast.walk(f.node)):
                continue
            rr.instances += 1
            rr.ob(f.relpath, f.qualname, norm(node)[:70], st, VIOLATED,
                  f"`{what}` is process-wide: a generation running in another thread at that moment resolves its relative paths / reads "
                  f"its command line from the value this run has set", node.lineno)
    rr.instances += 1
    rr.ob("json_to_models", "<generation and CLI paths>", f"{len(funcs)} functions", st, DISCHARGED,
          "no process-wide setter (positive control matched)", 1)
    if len(funcs) < 50:
        raise AnalysisError(f"PROC-1: only {len(funcs)} functions in scope")
    return rr


# ---------------------------------------------------------------------------------------------------------------
def rule_iterself1(ctx: Ctx) -> RuleResult:
    rr = RuleResult("ITERSELF-1", "no shared container is its own iterator", floor=1)
    st = ("a container that many generations share (the string-type registry, a model registry, an IR node) hands out a NEW "
          "iterator for every loop; an object whose __iter__ returns itself keeps one cursor for all loops, so two loops over it - in "
          "two threads, or nested - steal each other's elements")
    n = 0
    for c in sorted(ctx.prog.all_classes(), key=lambda k: k.key):
        n += 1
        if "__next__" not in c.methods:
            continue
        it = c.methods.get("__iter__", [])
        returns_self = any(isinstance(r, ast.Return) and r.value is not None and norm(r.value) == "self"
                           for f in it for r in walk_no_nested(f.node))
        other = [m for m in c.methods if not (m.startswith("__") and m.endswith("__"))]
        if returns_self and other:
            rr.instances += 1
            f = c.methods["__next__"][0]
            rr.ob(f.relpath, f.qualname, f"class {c.name}: __iter__ returns self", st, VIOLATED,
                  f"{c.name} has {sorted(other)[:4]} and is its own iterator: the cursor lives on the shared object", f.node.lineno)
    rr.instances += 1
    rr.ob("json_to_models", "<package>", f"{n} classes", st, DISCHARGED, "no container with __next__", 1)
    if n < 20:
        raise AnalysisError(f"ITERSELF-1: only {n} classes")
    return rr


# ---------------------------------------------------------------------------------------------------------------
VALUE_HOOKS = ("parse_constant", "parse_float", "parse_int", "object_hook", "object_pairs_hook", "cls", "strict")


def rule_load5(ctx: Ctx) -> RuleResult:
    rr = RuleResult("LOAD-5", "the loaders hand on the document as the standard parser reads it", floor=1)
    loaders = ctx.prog.cls(CLI, "FileLoaders")
    st = ("what the command line infers from a file is what the library infers from `json.load()` of that file: no hook that replaces "
          "constants, numbers or objects while parsing")
    for ms in sorted(loaders.methods.values(), key=lambda m: m[0].key):
        for f in ms:
            for c in walk_no_nested(f.node):
                if isinstance(c, ast.Call) and norm(c.func).rsplit(".", 1)[-1] in ("load", "loads", "safe_load", "yaml_load", "read_file", "read"):
                    rr.instances += 1
                    hooks = [k.arg for k in c.keywords if k.arg in VALUE_HOOKS or k.arg is None]
                    rr.ob(f.relpath, f.qualname, norm(c)[:70], st, VIOLATED if hooks else DISCHARGED,
                          f"parser hook(s) {hooks}: values of the document are replaced before inference sees them (NaN -> null turns a "
                          f"float field into an Optional one)" if hooks else "plain call", c.lineno)
    return rr


# ---------------------------------------------------------------------------------------------------------------
def rule_runloop1(ctx: Ctx) -> RuleResult:
    rr = RuleResult("RUNLOOP-1", "every model name given on the command line goes through inference and registration", floor=1)
    run = ctx.prog.func(CLI, "Cli.run")
    st = ("Cli.run hands the samples of every model name to generate() and the result to process_meta_data(), whatever the samples "
          "are (also none at all: the library then emits an empty class)")
    loops = [n for n in walk_no_nested(run.node) if isinstance(n, ast.For) and "models_data" in norm(n.iter)]
    if not loops:
        raise AnalysisError("RUNLOOP-1: loop over models_data not found in Cli.run")
    lp = loops[0]
    rr.instances += 1
    problems = []
    if not (norm(lp.iter).endswith("models_data.items()") or norm(lp.iter).endswith("models_data")):
        problems.append(f"iterates `{norm(lp.iter)[:40]}`")
    calls = {"generate": None, "process_meta_data": None}
    for i, s_ in enumerate(lp.body):
        for x in ast.walk(s_):
            if isinstance(x, ast.Call) and isinstance(x.func, ast.Attribute) and x.func.attr in calls and calls[x.func.attr] is None:
                calls[x.func.attr] = (i, s_)
    for nm, v in calls.items():
        if v is None:
            problems.append(f"{nm}() is not called in the loop body proper")
        elif not isinstance(v[1], (ast.Assign, ast.Expr, ast.AnnAssign)):
            problems.append(f"{nm}() runs under `{type(v[1]).__name__.lower()}`: not for every model")
    last = max([v[0] for v in calls.values() if v is not None] or [0])
    for s_ in lp.body[:last]:
        if any(isinstance(x, (ast.Continue, ast.Break, ast.Return)) for x in ast.walk(s_)):
            problems.append(f"`{norm(s_)[:50]}` can skip a model before it is registered")
    rr.ob(run.relpath, run.qualname, f"for {norm(lp.target)} in {norm(lp.iter)}: ...", st, VIOLATED if problems else DISCHARGED,
          "; ".join(problems) + ": for that name the command line prints nothing where the library gives a class" if problems else
          "both stages run for every name", lp.lineno)
    return rr


# ---------------------------------------------------------------------------------------------------------------
def rule_lookup2(ctx: Ctx) -> RuleResult:
    rr = RuleResult("LOOKUP-2", "a lookup path that does not exist in the document fails the run", floor=1)
    f = ctx.prog.func(CLI, "dict_lookup")
    st = ("every step of the lookup path indexes the document (`d[key]`: KeyError / TypeError / IndexError end the run); a step with a "
          "fallback value (`get(key, {})`, try/except) turns a mistyped path into an empty sample and a successful run")
    d = f.params[0]
    rr.instances += 1
    problems = []
    for n in walk_no_nested(f.node):
        if isinstance(n, ast.Call) and isinstance(n.func, ast.Attribute) and n.func.attr in ("get", "setdefault", "pop") and \
                any(isinstance(x, ast.Name) and x.id == d for x in ast.walk(n.func.value)):
            problems.append(f"`{norm(n)[:40]}` has a fallback")
        if isinstance(n, ast.Try):
            problems.append("a try/except around the lookup")
        if isinstance(n, ast.Call) and norm(n.func) == "getattr" and len(n.args) == 3:
            problems.append(f"`{norm(n)[:40]}` has a fallback")
    for n in walk_no_nested(f.node):
        if isinstance(n, ast.Call) and norm(n.func) in ("int", "float", "ast.literal_eval", "literal_eval", "json.loads", "eval"):
            problems.append(f"`{norm(n)[:40]}` turns a component of the path into another kind of key: the object key \"200\" is looked up "
                            f"as the number 200")
    # the 'whole document' marker is the lookup "-" itself, not any lookup that contains a hyphen
    for n in walk_no_nested(f.node):
        if isinstance(n, ast.Compare) and len(n.ops) == 1 and any(isinstance(x, ast.Constant) and x.value == "-" for x in [n.left] + n.comparators) \
                and not isinstance(n.ops[0], (ast.Eq, ast.NotEq)):
            problems.append(f"`{norm(n)[:40]}` is not an equality test against the marker \"-\": a key such as `search-results` stops the walk and the "
                            f"whole document is taken as the sample")
    steps = [n for n in walk_no_nested(f.node) if isinstance(n, ast.Subscript) and isinstance(n.ctx, ast.Load) and norm(n.value) == d]
    if not steps and not problems:
        raise AnalysisError("LOOKUP-2: dict_lookup no longer indexes its document")
    rr.ob(f.relpath, f.qualname, "; ".join(norm(s_) for s_ in steps)[:80] or "lookup", st, VIOLATED if problems else DISCHARGED,
          "; ".join(problems) + ": the key `item` for `items` exits 0, prints `class Item: pass` and overwrites the output file"
          if problems else f"{len(steps)} indexing step(s), no fallback", f.node.lineno)
    return rr


# ---------------------------------------------------------------------------------------------------------------
# public entry points: positional parameters as documented (README / docstrings); new parameters may only follow them
PUBLIC_SIGNATURES = {
    (BASE, "generate_code"): ["structure", "class_generator", "class_generator_kwargs", "objects_delimiter", "preamble"],
    (STRUCT, "compose_models"): ["models_map"],
    (STRUCT, "compose_models_flat"): ["models_map"],
    (GEN, "MetadataGenerator.__init__"): ["self", "str_types_registry", "dict_keys_regex", "dict_keys_fields"],
    (GEN, "MetadataGenerator.generate"): ["self", "data_variants"],
    (REG, "ModelRegistry.__init__"): ["self", "models_cmp"],
    (REG, "ModelRegistry.process_meta_data"): ["self", "meta", "model_name"],
    (REG, "ModelRegistry.merge_models"): ["self", "generator", "strict"],
}


def rule_sig1(ctx: Ctx) -> RuleResult:
    rr = RuleResult("SIG-1", "the documented entry points keep the order of their positional parameters", floor=6)
    st = ("callers written against the released package pass these arguments by position: the released parameters stay where they "
          "are (a new one may follow them)")
    for (rel, qn), want in sorted(PUBLIC_SIGNATURES.items()):
        f = ctx.prog.func(rel, qn)
        rr.instances += 1
        got = f.params
        ok = got[:len(want)] == want
        rr.ob(f.relpath, f.qualname, f"({', '.join(got)})"[:90], st, DISCHARGED if ok else VIOLATED,
              "as released" if ok else
              f"released order is ({', '.join(want)}): a positional call now binds its arguments to other parameters (generate_code: the "
              f"preamble is used as the delimiter between classes and appears several times)", f.node.lineno)
    return rr


# ---------------------------------------------------------------------------------------------------------------
def rule_lay4(ctx: Ctx) -> RuleResult:
    rr = RuleResult("LAY-4", "where a class is placed depends on how many MODELS refer to it", floor=2)
    st = ("both layouts decide from the set of distinct parent models of a class (one parent: next to / inside that parent; several: "
          "hoisted). Counting pointers or (parent, field) pairs instead hoists a class that one parent refers to through two fields, "
          "in the nested layout only")
    for qn in ("compose_models", "compose_models_flat"):
        f = ctx.prog.func(STRUCT, qn)
        counted = set()
        for n in walk_no_nested(f.node):
            if isinstance(n, ast.Compare) and isinstance(n.left, ast.Call) and norm(n.left.func) == "len" and n.left.args and \
                    isinstance(n.left.args[0], ast.Name):
                counted.add(n.left.args[0].id)
        for nm in sorted(counted):
            ds = [a for a in walk_no_nested(f.node) if isinstance(a, ast.Assign) and norm(a.targets[0]) == nm]
            if not ds or not isinstance(ds[0].value, (ast.SetComp, ast.ListComp, ast.GeneratorExp, ast.Call)):
                continue
            v = ds[0].value
            comp = v if isinstance(v, (ast.SetComp, ast.ListComp, ast.GeneratorExp)) else next(
                (a for a in v.args if isinstance(a, (ast.SetComp, ast.ListComp, ast.GeneratorExp))), None)
            if comp is None or "pointers" not in norm(comp.generators[0].iter):
                continue
            if norm(v).startswith("list(filter_pointers"):
                continue
            rr.instances += 1
            elt = norm(comp.elt)
            is_set = isinstance(v, ast.SetComp) or (isinstance(v, ast.Call) and norm(v.func) in ("set", "frozenset"))
            ok = is_set and elt in (f"{norm(comp.generators[0].target)}.parent.index",
                                                         f"{norm(comp.generators[0].target)}.parent")
            rr.ob(f.relpath, f.qualname, norm(ds[0])[:80], st, DISCHARGED if ok else VIOLATED,
                  "set of parent models" if ok else
                  f"`{nm}` collects `{elt[:40]}`, not the parent models: its size is the number of references", ds[0].lineno)
    return rr


# ---------------------------------------------------------------------------------------------------------------
def rule_eqcyc1(ctx: Ctx) -> RuleResult:
    rr = RuleResult("EQCYC-1", "two registered models are compared by identity, not through their fields", floor=1)
    MM = "json_to_models/dynamic_typing/models_meta.py"
    f = ctx.prog.func(MM, "ModelMeta.__eq__")
    other = [a for a in f.params if a != "self"][0]
    st = ("a model graph can be cyclic (a tree node holds a list of tree nodes) and two different models can have equal fields: "
          "`model == model` is decided by the unique index, before anything compares the fields. (The hash is the index already; "
          "which models are alike is the comparators' business.)")
    rr.instances += 1
    ident = None
    structural_first = None
    for s_ in f.node.body:
        if isinstance(s_, ast.Expr) and isinstance(s_.value, ast.Constant):
            continue
        if isinstance(s_, ast.If) and f"isinstance({other}, ModelMeta)" in norm(s_.test) or \
                isinstance(s_, ast.If) and f"type({other}) is" in norm(s_.test):
            rets = [r for r in ast.walk(s_) if isinstance(r, ast.Return) and r.value is not None]
            if rets and all(("index" in norm(r.value) or " is " in norm(r.value)) and ".type" not in norm(r.value) for r in rets if any(r is y for b in s_.body for y in ast.walk(b))):
                ident = s_
                break
        if any(isinstance(x, ast.Call) and norm(x.func).startswith("super()") for x in ast.walk(s_)) or \
                any(isinstance(x, ast.Compare) and f"{other}.type" in norm(x) for x in ast.walk(s_)):
            if not (isinstance(s_, ast.If) and f"isinstance({other}, dict)" in norm(s_.test) and not s_.orelse):
                structural_first = s_
                break
    ok = ident is not None and structural_first is None
    rr.ob(f.relpath, f.qualname, norm(ident.test)[:60] if ident is not None else norm(f.node.body[-1])[:60], st,
          DISCHARGED if ok else VIOLATED,
          "identity decided first" if ok else
          "two models are compared through SingleType.__eq__, i.e. field by field and through the pointers in the fields: the "
          "comparison of two self-referential models does not end (RecursionError in merge_models), and pointers to two different "
          "models with equal fields count as one", f.node.lineno)
    return rr


# ---------------------------------------------------------------------------------------------------------------
def rule_lay5(ctx: Ctx) -> RuleResult:
    rr = RuleResult("LAY-5", "a model is a root when it has a pointer without a parent, also when others refer to it", floor=1)
    f = ctx.prog.func(STRUCT, "extract_root")
    st = ("extract_root and compose_models agree on what a root model is: one that has a pointer without a parent. A root "
          "whose shape recurs below it has pointers of both kinds; asking for 'no pointer with a parent' misses it, the classes "
          "it shares with its nested classes get no root, and the nested layout refers to them by a name that is not visible")
    adds = [n for n in walk_no_nested(f.node) if isinstance(n, ast.Call) and isinstance(n.func, ast.Attribute) and n.func.attr in ("add", "append")
            and "root" in norm(n.func.value)]
    if not adds:
        raise AnalysisError("LAY-5: extract_root no longer collects roots with add()/append()")
    for a in adds:
        rr.instances += 1
        test = None
        cur, par = a, f.module.parents.get(a)
        while par is not None and par is not f.node:
            if isinstance(par, ast.If) and any(cur is s_ or any(cur is y for y in ast.walk(s_)) for s_ in par.body):
                test = par.test
                break
            cur, par = par, f.module.parents.get(par)
        t = norm(test) if test is not None else ""
        ok = test is not None and (".pointers" in t or "parent is None" in t or "parent is not None" in t or "has_root" in t)
        rr.ob(f.relpath, f.qualname, norm(a)[:60], st, DISCHARGED if ok else VIOLATED,
              f"under `{t[:60]}`" if ok else
              f"under `{t[:60] or 'no test'}`: only a model that nothing refers to counts as a root; a recursive root is missed and "
              f"`Root.a: 'A'` names a class that is nested in Root.D", a.lineno)
    return rr


# ---------------------------------------------------------------------------------------------------------------
def rule_match1(ctx: Ctx) -> RuleResult:
    rr = RuleResult("MATCH-1", "an input argument that names no existing file fails the run", floor=1)
    f = ctx.prog.func(CLI, "Cli.setup_models_data")
    mod = f.module
    st = ("input that cannot be read ends the run before anything is written: a pattern that matches nothing is such input, like a "
          "path that does not exist - it must not silently contribute no samples (the output file would be replaced by a module "
          "without that model)")
    via_local = {norm(a.targets[0]) for a in walk_no_nested(f.node) if isinstance(a, ast.Assign) and len(a.targets) == 1 and any(
        isinstance(c, ast.Call) and norm(c.func).endswith("process_path") for c in ast.walk(a.value))}
    loops = [n for n in walk_no_nested(f.node) if isinstance(n, ast.For) and (any(
        isinstance(c, ast.Call) and norm(c.func).endswith("process_path") for c in ast.walk(n.iter)) or norm(n.iter) in via_local)]
    lists = [n for n in walk_no_nested(f.node) if isinstance(n, ast.Assign) and isinstance(n.value, ast.Call) and
             norm(n.value.func) in ("list", "tuple", "sorted") and any(isinstance(c, ast.Call) and norm(c.func).endswith("process_path")
                                                                        for c in ast.walk(n.value))]
    rr.instances += 1
    ok, how = False, "no test for 'nothing matched' around the loop over process_path(...)"
    for lp in loops:
        flags = {norm(s_.targets[0]) for s_ in lp.body if isinstance(s_, ast.Assign) and isinstance(s_.value, ast.Constant) and s_.value.value is True}
        counters = {norm(s_.target) for s_ in lp.body if isinstance(s_, ast.AugAssign)}
        # the loop header can bind the witness as well: the loop variable itself (a Path, never None) or a 1-based enumerate counter
        sentinels, header_counters = set(), set()
        walked = lp.iter
        if isinstance(lp.target, ast.Name):
            sentinels.add(lp.target.id)
        if isinstance(lp.target, ast.Tuple) and len(lp.target.elts) == 2 and isinstance(walked, ast.Call) and norm(walked.func) == "enumerate" \
                and len(walked.args) == 2 and isinstance(walked.args[1], ast.Constant) and walked.args[1].value == 1 \
                and isinstance(lp.target.elts[0], ast.Name):
            header_counters.add(lp.target.elts[0].id)
            if isinstance(lp.target.elts[1], ast.Name):
                sentinels.add(lp.target.elts[1].id)
        blk = None
        from ..util import enclosing_block
        blk = enclosing_block(mod, lp) or []
        after = blk[blk.index(lp) + 1:] if lp in blk else []
        for s_ in list(lp.orelse) + after:
            if isinstance(s_, ast.If) and any(isinstance(x, ast.Raise) for b in s_.body for x in ast.walk(b)):
                t = norm(s_.test)
                for v in sentinels:
                    # `x = None` before the loop, `for x in ...`, `if x is None: raise` after it
                    others = [a for a in walk_no_nested(f.node) if isinstance(a, (ast.Assign, ast.AnnAssign, ast.AugAssign)) and
                              norm(a.targets[0] if isinstance(a, ast.Assign) else a.target) == v]
                    if t == f"{v} is None" and len(others) == 1 and isinstance(others[0], ast.Assign) and isinstance(others[0].value, ast.Constant) \
                            and others[0].value.value is None and others[0].lineno < lp.lineno and enclosing_block(mod, others[0]) is blk:
                        ok, how = True, f"`{v} = None` before the loop and `if {v} is None: raise` after it"
                for v in flags | counters | header_counters:
                    if t not in (f"not {v}", f"{v} is False", f"{v} == 0", f"not {v} > 0"):
                        continue
                    # the flag says 'nothing matched' until the loop says otherwise: it starts as False / 0 and nothing else binds it
                    others = [a for a in walk_no_nested(f.node) if isinstance(a, (ast.Assign, ast.AnnAssign, ast.AugAssign)) and
                              norm(a.targets[0] if isinstance(a, ast.Assign) else a.target) == v and not any(a is y for y in ast.walk(lp))]
                    starts_false = len(others) == 1 and isinstance(others[0], ast.Assign) and isinstance(others[0].value, ast.Constant) \
                        and others[0].value.value in (False, 0) and others[0].lineno < lp.lineno
                    if starts_false:
                        ok, how = True, f"`if {t}: raise` after the loop"
                    else:
                        how = (f"`{v}` is tested after the loop but is bound to something else as well ({', '.join(norm(o)[:30] for o in others)}): "
                               f"it is not false when nothing matched")
    for a in lists:
        v = norm(a.targets[0])
        if any(isinstance(s_, ast.If) and norm(s_.test) in (f"not {v}", f"len({v}) == 0") and any(isinstance(x, ast.Raise) for b in s_.body for x in ast.walk(b))
               for s_ in walk_no_nested(f.node)):
            ok, how = True, f"`if not {v}: raise` on the matched files"
    if not loops and not lists:
        raise AnalysisError("MATCH-1: setup_models_data no longer walks process_path(...)")
    rr.ob(f.relpath, f.qualname, "for real_path in process_path(path_raw): ...", st, DISCHARGED if ok else VIOLATED,
          how if ok else how + ": `-m A 'nomatch*.json' -o out.py` exits 0 and replaces out.py by a header-only module",
          (loops[0].lineno if loops else lists[0].lineno))
    return rr


# ---------------------------------------------------------------------------------------------------------------
def quoted_placeholders(tree: ast.AST) -> List[Tuple[ast.AST, str]]:
    """String constants that are Jinja templates and wrap a `{{ placeholder }}` in quotes: the value is pasted between the quotes
    unescaped (a quote or backslash in it ends or changes the literal)."""
    import re as _re
    out = []
    for n in ast.walk(tree):
        if isinstance(n, ast.Constant) and isinstance(n.value, str) and "{{" in n.value and "}}" in n.value:
            for m in _re.finditer(r"""(['"])\s*\{\{[^{}]*\}\}\s*\1""", n.value):
                inner = m.group(0)
                if _re.fullmatch(r"""(['"])\{\{\s*(['"]).*\2\s*\}\}\1""", inner):
                    continue        # {{ '...' }}: a literal, not a value
                out.append((n, inner))
    return out


def rule_inj6(ctx: Ctx) -> RuleResult:
    rr = RuleResult("INJ-6", "no template pastes a value between quotes", floor=1)
    ctl = ast.parse("A = \"{{ key }}={{ value }}\"\nB = \"{'{{ k }}': '{{ v }}'}\"\nC = \"{{ '{' }}x{{ '}' }}\"\n")
    if len(quoted_placeholders(ctl)) != 2:
        raise AnalysisError(f"INJ-6: positive control failed ({len(quoted_placeholders(ctl))})")
    st = ("text that ends up inside a string literal of the generated module is rendered by an escaper that is exact for every "
          "string (repr / json.dumps with ensure_ascii=False, INJ-2 / INJ-3) before it reaches the template; a template that writes "
          "`'{{ value }}'` pastes the raw text between quotes")
    n = 0
    for m in ctx.prog.pkg_modules():
        n += 1
        for node, text in quoted_placeholders(m.tree):
            rr.instances += 1
            f = m.func_of_node(node)
            rr.ob(m.relpath, f.qualname if f else "<module>", text[:60], st, VIOLATED,
                  f"`{text}`: a key such as C:\\\\temp\\\\new is read back with a TAB and a NEWLINE in it, and a key with an apostrophe makes "
                  f"the generated module a SyntaxError", node.lineno)
    rr.instances += 1
    rr.ob("json_to_models", "<package>", f"{n} modules", st, DISCHARGED, "no quoted placeholder in a template (positive control matched)", 1)
    return rr


# ---------------------------------------------------------------------------------------------------------------
def truth_of_elements(tree: ast.AST) -> List[Tuple[ast.Call, str]]:
    """`any(xs)` / `all(xs)` applied to a collection itself (not to a generator of conditions): it asks for the truth of the
    ELEMENTS, and an element can be a legitimate falsy value (the empty string among literals, 0, an empty list)."""
    out = []
    for n in ast.walk(tree):
        if isinstance(n, ast.Call) and norm(n.func) in ("any", "all") and len(n.args) == 1 and isinstance(n.args[0], (ast.Name, ast.Attribute)):
            out.append((n, norm(n.args[0])))
    return out


def rule_anyelem1(ctx: Ctx) -> RuleResult:
    rr = RuleResult("ANYELEM-1", "emptiness of a collection of observed values is not asked of its elements", floor=1)
    ctl = ast.parse("a = not any(meta.literals)\nb = any(len(s) > 3 for s in xs)\nc = any(map(f, xs))\n")
    if len(truth_of_elements(ctl)) != 1:
        raise AnalysisError("ANYELEM-1: positive control failed")
    st = ("whether a set of observed strings / types is empty is asked with `not xs` or `len(xs)`; `any(xs)` is false for a set that "
          "holds only the empty string (or 0, or an empty container), which is a value like any other")
    n = 0
    for f in sorted(ctx.lib_cone, key=lambda x: x.key):
        n += 1
        for call, what in truth_of_elements(f.node):
            if any(isinstance(g, (ast.FunctionDef, ast.Lambda)) and g is not f.node and any(call is y for y in ast.walk(g)) for g in ast.walk(f.node)):
                continue
            rr.instances += 1
            rr.ob(f.relpath, f.qualname, norm(call)[:60], st, VIOLATED,
                  f"`{norm(call)}` tests the elements of `{what}`: a position where the only string ever seen is \"\" counts as 'no "
                  f"literal at all' and is widened to str", call.lineno)
    rr.instances += 1
    rr.ob("json_to_models", "<library>", f"{n} functions", st, DISCHARGED, "no any()/all() on a collection itself (positive control matched)", 1)
    if n < 40:
        raise AnalysisError(f"ANYELEM-1: only {n} functions in scope")
    return rr


# ---------------------------------------------------------------------------------------------------------------
def rule_genpure1(ctx: Ctx) -> RuleResult:
    rr = RuleResult("GENPURE-1", "rendering a model does not change the model", floor=1)
    base = ctx.prog.cls(BASE, "GenericModelCodeGenerator")
    st = ("apart from the constructor (which gives the model its normalised class name), no method of a code generator assigns to, "
          "deletes from or calls a mutator on `self.model` or what hangs below it: the same registry is rendered again - for another "
          "framework, another layout - from the same fields")
    from .misc import MUTATORS
    n = 0
    for c in ctx.prog.subclasses(base):
        for ms in c.methods.values():
            for f in ms:
                if f.name == "__init__":
                    continue
                n += 1
                # locals that alias (a part of) the model
                alias = {"self.model"}
                changed = True
                while changed:
                    changed = False
                    for a in walk_no_nested(f.node):
                        if isinstance(a, ast.Assign) and len(a.targets) == 1 and isinstance(a.targets[0], ast.Name) and \
                                isinstance(a.value, (ast.Attribute, ast.Name, ast.Subscript)) and any(
                                norm(a.value) == al or norm(a.value).startswith(al + ".") or norm(a.value).startswith(al + "[") for al in alias):
                            if a.targets[0].id not in alias:
                                alias.add(a.targets[0].id)
                                changed = True

                def rooted(e: ast.AST) -> bool:
                    t = norm(e)
                    return any(t == al or t.startswith(al + ".") or t.startswith(al + "[") for al in alias)
                for x in walk_no_nested(f.node):
                    bad = None
                    if isinstance(x, (ast.Assign, ast.AugAssign, ast.AnnAssign)):
                        for t in (x.targets if isinstance(x, ast.Assign) else [x.target]):
                            if isinstance(t, (ast.Attribute, ast.Subscript)) and rooted(t.value):
                                bad = x
                    elif isinstance(x, ast.Delete):
                        for t in x.targets:
                            if isinstance(t, (ast.Attribute, ast.Subscript)) and rooted(t.value):
                                bad = x
                    elif isinstance(x, ast.Call) and isinstance(x.func, ast.Attribute) and x.func.attr in MUTATORS and rooted(x.func.value):
                        bad = x
                    if bad is not None:
                        rr.instances += 1
                        rr.ob(f.relpath, f.qualname, norm(bad)[:70], st, VIOLATED,
                              f"`{norm(bad)[:50]}` changes the model while it is rendered: the next rendering from this registry (attrs after "
                              f"pydantic) misses the field and hands out other names", bad.lineno)
    rr.instances += 1
    rr.ob(BASE, "GenericModelCodeGenerator and subclasses", f"{n} methods", st, DISCHARGED, "no write to self.model outside __init__", 1)
    if n < 15:
        raise AnalysisError(f"GENPURE-1: only {n} generator methods")
    return rr


# ---------------------------------------------------------------------------------------------------------------
def rule_closure1(ctx: Ctx) -> RuleResult:
    rr = RuleResult("CLOSURE-1", "the groups of similar models are joined until nothing changes", floor=1)
    f = ctx.prog.func(REG, "ModelRegistry.merge_models")
    st = ("two models end up in one class iff a chain of similar pairs connects them: overlapping groups are joined to a fixed point "
          "(a loop that runs while a pass changed something, or a union-find), not for a fixed number of passes")
    rr.instances += 1
    bounded = []
    for lp in walk_no_nested(f.node):
        if isinstance(lp, ast.For) and isinstance(lp.iter, ast.Call) and norm(lp.iter.func) == "range":
            rebinds = any(isinstance(x, (ast.Assign, ast.AnnAssign)) and "groups" in norm(x.targets[0] if isinstance(x, ast.Assign) else x.target)
                          for x in ast.walk(lp))
            joins = any(isinstance(x, ast.BinOp) and isinstance(x.op, ast.BitOr) for x in ast.walk(lp)) or any(
                isinstance(x, ast.Call) and isinstance(x.func, ast.Attribute) and x.func.attr in ("union", "update") for x in ast.walk(lp))
            if rebinds and joins:
                bounded.append(lp)
    fixed = [lp for lp in walk_no_nested(f.node) if isinstance(lp, ast.While) and any(
        isinstance(x, ast.BinOp) and isinstance(x.op, ast.BitOr) or (isinstance(x, ast.Call) and isinstance(x.func, ast.Attribute)
                                                                      and x.func.attr in ("union", "update")) for x in ast.walk(lp))]
    dsu = any(isinstance(g, ast.FunctionDef) and g.name in ("find", "_find", "find_root", "root_of") for g in ast.walk(f.node))
    if bounded:
        lp = bounded[0]
        rr.ob(f.relpath, f.qualname, f"for {norm(lp.target)} in {norm(lp.iter)}: ...", st, VIOLATED,
              f"the joining passes are bounded by `{norm(lp.iter)}`: a chain of similar models that needs more passes stays split into "
              f"several classes (16 chained models -> classes of 10, 2, 2 and 2)", lp.lineno)
    elif fixed or dsu:
        rr.ob(f.relpath, f.qualname, "while <changed>: join overlapping groups" if fixed else "union-find", st, DISCHARGED,
              "runs to a fixed point", (fixed[0].lineno if fixed else f.node.lineno))
    else:
        raise AnalysisError("CLOSURE-1: the loop that joins overlapping groups was not found in merge_models")
    return rr


# ---------------------------------------------------------------------------------------------------------------
SITE_BUILTINS = ("copyright", "credits", "exit", "help", "license", "quit")


def rule_envdep1(ctx: Ctx) -> RuleResult:
    rr = RuleResult("ENVDEP-1", "what the library emits does not depend on what else is installed or how the interpreter was started", floor=2)
    st = ("the same command gives the same module in every process: the library probes neither for optional packages "
          "(try: import ... except ImportError feeding a table) nor for what the interpreter happens to have loaded")
    n = 0
    for m in ctx.prog.pkg_modules():
        if m.relpath.endswith(("cli.py", "__main__.py")):
            continue            # (the command line chooses a YAML parser by what is installed: input side, documented)
        n += 1
        for t in ast.walk(m.tree):
            if isinstance(t, ast.Try):
                for h in t.handlers:
                    names = [] if h.type is None else [norm(x) for x in (h.type.elts if isinstance(h.type, ast.Tuple) else [h.type])]
                    if any(nm in ("ImportError", "ModuleNotFoundError") for nm in names):
                        rr.instances += 1
                        f = m.func_of_node(t)
                        rr.ob(m.relpath, f.qualname if f else "<module>", norm(t.body[0])[:60], st, VIOLATED,
                              "an optional import decides what the library does: with the package missing (or another release of it) the "
                              "same input gives other names", t.lineno)
            if isinstance(t, ast.Call) and norm(t.func) in ("importlib.util.find_spec", "find_spec", "pkg_resources.get_distribution",
                                                             "importlib.metadata.version", "metadata.version", "os.getenv", "os.environ.get"):
                rr.instances += 1
                f = m.func_of_node(t)
                rr.ob(m.relpath, f.qualname if f else "<module>", norm(t)[:60], st, VIOLATED,
                      f"`{norm(t)[:40]}` reads the environment of the process", t.lineno)
    # the builtins of the running interpreter are part of the black-list: the names `site` adds must be there in any case
    base = ctx.prog.module(BASE)
    uses_builtins = any(isinstance(x, ast.Name) and x.id == "__builtins__" or norm(x) == "dir(builtins)" for x in ast.walk(base.tree))
    rr.instances += 1
    if uses_builtins:
        consts = {c.value for c in ast.walk(base.tree) if isinstance(c, ast.Constant) and isinstance(c.value, str)}
        missing = [s_ for s_ in SITE_BUILTINS if s_ not in consts]
        rr.ob(BASE, "<module>", "builtins of the running interpreter", "the names the `site` module adds to the builtins are black-listed "
              "whether or not `site` was loaded (python -S)", VIOLATED if missing else DISCHARGED,
              f"{missing} are black-listed only when `site` has put them among the builtins: `python -S` names the field `license`, "
              f"the usual start-up `license_`" if missing else "spelled out", 1)
    else:
        rr.ob(BASE, "<module>", "black-list", "independent of the interpreter's builtins", DISCHARGED, "not derived from __builtins__", 1)
    rr.instances += 1
    rr.ob("json_to_models", "<library>", f"{n} modules", st, DISCHARGED, "no optional import, no environment probe", 1)
    return rr


# ---------------------------------------------------------------------------------------------------------------
def rule_regexval1(ctx: Ctx) -> RuleResult:
    rr = RuleResult("REGEXVAL-1", "a regular expression given on the command line is compiled while the arguments are processed", floor=1)
    from .cli_flow import Flow, value_ops
    fl = Flow(ctx)
    ops = value_ops(ctx, fl).get("dict_keys_regex", {})
    st = ("an invalid --dict-keys-regex ends the run while the arguments are processed (before any output is opened), whatever the "
          "samples look like: the command line compiles each expression itself instead of leaving that to the first object that "
          "happens to be matched against it")
    rr.instances += 1
    comp = [(d, v) for d, v in ops.items() if d.startswith("re.compile(") or d.startswith("compile(")]
    early = [v for d, v in comp if v[0].qualname in ("Cli.set_args", "Cli.parse_args", "Cli.validate")]
    f = ctx.prog.func(CLI, "Cli.set_args")
    rr.ob(CLI, early[0][0].qualname if early else "Cli.set_args", norm(early[0][1])[:60] if early else "self.dict_keys_regex = ...", st,
          DISCHARGED if early else VIOLATED,
          "compiled in " + early[0][0].qualname if early else
          "the expressions reach the library as text: `--dkr 'id_(\\\\d+'` with samples that hold no non-empty nested object exits 0 and "
          "writes the output", (early[0][1].lineno if early else f.node.lineno))
    return rr


# ---------------------------------------------------------------------------------------------------------------
def shared_default_arguments(tree: ast.AST) -> List[Tuple[ast.AST, str, str]]:
    """(function, parameter, default) for parameters whose default is a mutable object built once, when the function is defined: a
    call (`ConfigParser()`, `list()`, `defaultdict(list)`), a list / dict / set display or a comprehension.  Tuples, frozensets,
    constants and names are fine; so are calls of the immutable builtins."""
    IMMUTABLE_CALLS = {"tuple", "frozenset", "str", "int", "float", "bool", "bytes", "object", "re.compile", "compile", "Path", "Decimal",
                       "datetime", "date", "time", "timedelta", "namedtuple", "field", "attr.ib", "Field", "TypeVar", "partial", "itemgetter"}
    out = []
    for fn in ast.walk(tree):
        if not isinstance(fn, (ast.FunctionDef, ast.AsyncFunctionDef, ast.Lambda)):
            continue
        a = fn.args
        pos = a.posonlyargs + a.args
        pairs = list(zip(pos[len(pos) - len(a.defaults):], a.defaults)) + [(k, d) for k, d in zip(a.kwonlyargs, a.kw_defaults) if d is not None]
        for prm, d in pairs:
            mutable = isinstance(d, (ast.List, ast.Dict, ast.Set, ast.ListComp, ast.DictComp, ast.SetComp)) or (
                isinstance(d, ast.Call) and norm(d.func) not in IMMUTABLE_CALLS and norm(d.func).split(".")[-1] not in IMMUTABLE_CALLS)
            if not mutable:
                continue
            # harmless when the function only reads it: look for a mutation or a hand-over through the parameter's name
            used = [n for n in ast.walk(fn) if isinstance(n, ast.Name) and n.id == prm.arg and isinstance(n.ctx, ast.Load)]
            par = {c: p for p in ast.walk(fn) for c in ast.iter_child_nodes(p)}
            touched = False
            for u in used:
                p_ = par.get(u)
                if isinstance(p_, ast.Attribute) and isinstance(par.get(p_), ast.Call) and par[p_].func is p_:
                    touched = True          # a method called on it (read_file, append, update, setdefault, ...)
                if isinstance(p_, ast.Subscript) and isinstance(p_.ctx, (ast.Store, ast.Del)):
                    touched = True
                if isinstance(p_, (ast.Call, ast.Return, ast.Yield, ast.Assign, ast.keyword)) and not (isinstance(p_, ast.Call) and p_.func is u):
                    touched = True          # handed on / stored / returned: somebody else can change it
            if touched:
                out.append((fn, prm.arg, norm(d)))
    return out


def rule_defarg1(ctx: Ctx) -> RuleResult:
    rr = RuleResult("DEFARG-1", "no mutable object is created once as a parameter default and then used by every call", floor=1)
    ctl = ast.parse("def load(path, config=ConfigParser()):\n    config.read(path)\n    return dict(config)\n"
                    "def ok(path, names=(), sep=str('-'), table=None):\n    return [n for n in names]\n"
                    "def acc(x, out=[]):\n    out.append(x)\n    return out\n")
    got = shared_default_arguments(ctl)
    if sorted(g[1] for g in got) != ["config", "out"]:
        raise AnalysisError(f"DEFARG-1: positive control failed ({[(g[1], g[2]) for g in got]})")
    st = ("a default value is evaluated once, when the function is defined: a parser, list or dict created there is one object for "
          "every call in the process - what one run (or one thread) puts into it, the next one finds")
    n = 0
    for m in ctx.prog.pkg_modules():
        n += 1
        for fn, prm, d in shared_default_arguments(m.tree):
            rr.instances += 1
            fi = next((f for f in m.all_funcs if f.node is fn), None)
            rr.ob(m.relpath, fi.qualname if fi else "<lambda>", f"{prm}={d}"[:80], st, VIOLATED,
                  f"parameter `{prm}` defaults to `{d}`, built once and then changed or handed on by the function: every call that does not "
                  f"pass it shares one object (sections of an earlier .ini file, items of an earlier call, ...)", getattr(fn, "lineno", 0))
    rr.instances += 1
    rr.ob("json_to_models", "<package>", f"{n} modules", st, DISCHARGED, "no shared mutable default (positive control matched)", 1)
    return rr


# ---------------------------------------------------------------------------------------------------------------
def stale_loop_values(tree: ast.AST) -> List[Tuple[ast.AST, str, ast.AST]]:
    """(loop, variable, conditional assignment): a variable that gets a value computed from the current item in ONE branch of the loop
    body, has its default only from an assignment in front of the loop, and is read in the body outside that branch: in an iteration
    that does not take the branch it still holds the value of an earlier item."""
    out = []
    for fn in ast.walk(tree):
        if not isinstance(fn, (ast.FunctionDef, ast.AsyncFunctionDef)):
            continue
        par = {c: p for p in ast.walk(fn) for c in ast.iter_child_nodes(p)}
        for lp in ast.walk(fn):
            if not isinstance(lp, ast.For):
                continue
            item_names = {x.id for x in ast.walk(lp.target) if isinstance(x, ast.Name)}
            # names derived from the item inside the body count as per-item data too
            derived = set(item_names)
            for _ in range(3):
                for st in ast.walk(lp):
                    if isinstance(st, ast.Assign) and any(isinstance(x, ast.Name) and x.id in derived for x in ast.walk(st.value)):
                        derived |= {x.id for t in st.targets for x in ast.walk(t) if isinstance(x, ast.Name)}
            for st in lp.body:
                if not isinstance(st, ast.If):
                    continue
                for branch, other in ((st.body, st.orelse), (st.orelse, st.body)):
                    for a in branch:
                        if not isinstance(a, (ast.Assign, ast.AnnAssign)) or a.value is None:
                            continue
                        tgts = [x.id for t in (a.targets if isinstance(a, ast.Assign) else [a.target]) for x in ast.walk(t)
                                if isinstance(x, ast.Name) and isinstance(x.ctx, ast.Store)]
                        for v in tgts:
                            if v in item_names:
                                continue
                            rhs_names = {x.id for x in ast.walk(a.value) if isinstance(x, ast.Name)}
                            if v in rhs_names or not (rhs_names & derived):
                                continue                     # an accumulator, or not per-item data
                            if any(isinstance(y, ast.Name) and y.id == v for y in ast.walk(st.test)):
                                continue                     # the branch is taken depending on the variable itself: a running minimum / maximum
                            # assigned on the other branch as well, or unconditionally earlier in the body: fine
                            def assigns(stmts):
                                return any(isinstance(y, ast.Name) and y.id == v and isinstance(y.ctx, ast.Store) for s_ in stmts for y in ast.walk(s_))
                            if assigns(other) or assigns(lp.body[:lp.body.index(st)]):
                                continue
                            # the default comes from in front of the loop only
                            blk = None
                            p_ = par.get(lp)
                            for fld in ("body", "orelse", "finalbody"):
                                b_ = getattr(p_, fld, None)
                                if isinstance(b_, list) and lp in b_:
                                    blk = b_
                            before = blk[:blk.index(lp)] if blk else []
                            if not any(isinstance(s_, (ast.Assign, ast.AnnAssign)) and s_.value is not None and any(
                                    isinstance(y, ast.Name) and y.id == v and isinstance(y.ctx, ast.Store) for y in ast.walk(s_)) for s_ in before):
                                continue
                            # read in the body outside the branch
                            inside = {id(y) for s_ in branch for y in ast.walk(s_)}
                            reads = [y for s_ in lp.body for y in ast.walk(s_) if isinstance(y, ast.Name) and y.id == v
                                     and isinstance(y.ctx, ast.Load) and id(y) not in inside]
                            if reads:
                                out.append((lp, v, a))
    return out


def rule_stale1(ctx: Ctx) -> RuleResult:
    rr = RuleResult("STALE-1", "a per-item value never survives into the next iteration", floor=1)
    ctl = ast.parse("def f(items):\n    args = ()\n    out = []\n    for item in items:\n        if '_' in item:\n            name, *args = item.split('_')\n"
                    "        else:\n            name = item\n        out.append((name, args))\n    return out\n"
                    "def g(items):\n    found = False\n    total = 0\n    for item in items:\n        if item.ok:\n            found = True\n"
                    "            total = total + item.n\n        use(found, total)\n")
    got = stale_loop_values(ctl)
    if [g[1] for g in got] != ["args"]:
        raise AnalysisError(f"STALE-1: positive control failed ({[g[1] for g in got]})")
    st = ("a variable that takes a value computed from the current item in one branch of a loop is set in the other branch too (or at the "
          "top of every iteration): a default given once in front of the loop is overwritten by the first item that takes the branch, and "
          "every later item that does not take it sees that item's value")
    n = 0
    for m in ctx.prog.pkg_modules():
        n += 1
        for lp, v, a in stale_loop_values(m.tree):
            rr.instances += 1
            fi = next((f for f in m.all_funcs if any(lp is y for y in ast.walk(f.node))), None)
            rr.ob(m.relpath, fi.qualname if fi else "<module>", norm(a)[:70], st, VIOLATED,
                  f"`{v}` is set from the current item only under a condition (line {a.lineno}); its default is assigned once before the loop "
                  f"(line {lp.lineno}): an item that does not take the branch is processed with the `{v}` of an earlier item", a.lineno)
    rr.instances += 1
    rr.ob("json_to_models", "<package>", f"{n} modules", st, DISCHARGED, "no per-item value carried over (positive control matched)", 1)
    return rr
