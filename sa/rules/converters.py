"""C18 rules: TOK-1 (path token writer/reader agreement), TOK-2 (writer exhaustive over IR classes, right arm kind),
TOK-3 (decorator names use the field conversion), NULL-1 (nullable value never dereferenced unguarded)."""
from __future__ import annotations

import ast
from typing import Dict, List, Optional, Set, Tuple

from ..ctx import Ctx
from ..model import AnalysisError, ClassInfo, ConstRef, FuncInfo, norm, walk_no_nested
from ..report import ALLOWED, DISCHARGED, VIOLATED, RuleResult

SC = "json_to_models/models/string_converters.py"


def _writer_arms(ctx: Ctx, f: FuncInfo):
    """[(class names, kind, token, node)] from the `cls is X` / `cls in (X, Y)` chain; kind in token/skip/giveup/raise."""
    arms = []
    chain_var = None
    for n in walk_no_nested(f.node):
        if isinstance(n, ast.If) and isinstance(n.test, ast.Compare) and len(n.test.ops) == 1 and \
                isinstance(n.test.ops[0], (ast.Is, ast.In, ast.Eq)) and isinstance(n.test.left, ast.Name):
            left = n.test.left.id
            comp = n.test.comparators[0]
            names = [norm(e) for e in comp.elts] if isinstance(comp, (ast.Tuple, ast.List, ast.Set)) else [norm(comp)]
            if not all(nm[:1].isupper() for nm in names):
                continue
            chain_var = chain_var or left
            if left != chain_var:
                continue
            kind, token = _arm_kind(n.body)
            arms.append((names, kind, token, n))
    # the final else of the chain
    return arms, chain_var


def _arm_kind(body: List[ast.stmt]):
    token = None
    for st in body:
        if isinstance(st, ast.Assign) and isinstance(st.targets[0], ast.Name) and isinstance(st.value, ast.Constant) \
                and isinstance(st.value.value, str):
            token = st.value.value
    if token is not None:
        return "token", token
    if any(isinstance(st, ast.Raise) for st in body):
        return "raise", None
    if any(isinstance(st, ast.Break) for st in body):
        return "giveup", None
    if any(isinstance(st, ast.Continue) for st in body):
        return "skip", None
    return "other", None


def _reader_branches(f: FuncInfo):
    """{token: If node} from `token == 'X'` chain of the reader."""
    out = {}
    for n in walk_no_nested(f.node):
        if isinstance(n, ast.If) and isinstance(n.test, ast.Compare) and len(n.test.ops) == 1 and \
                isinstance(n.test.ops[0], ast.Eq) and isinstance(n.test.comparators[0], ast.Constant) and \
                isinstance(n.test.comparators[0].value, str) and isinstance(n.test.left, ast.Name):
            out[n.test.comparators[0].value] = n
    return out


def rule_tok1(ctx: Ctx) -> RuleResult:
    rr = RuleResult("TOK-1", "path tokens and separators written by the generator are the ones the converter reads", floor=4)
    prog = ctx.prog
    w = prog.func(SC, "get_string_field_paths")
    r = prog.func(SC, "_process_string_field_value")
    pic = prog.func(SC, "post_init_converters.<locals>.__post_init__")
    sfp = prog.func("json_to_models/models/base.py", "GenericModelCodeGenerator.string_field_paths")
    arms, _ = _writer_arms(ctx, w)
    wtokens = {t for _, k, t, _ in arms if k == "token"}
    # the leaf token
    for n in walk_no_nested(w.node):
        if isinstance(n, ast.Call) and isinstance(n.func, ast.Attribute) and n.func.attr == "append" and n.args and \
                isinstance(n.args[0], ast.BinOp):
            for c in ast.walk(n.args[0]):
                if isinstance(c, ast.Constant) and isinstance(c.value, str) and len(c.value) == 1 and c.value.isalpha():
                    wtokens.add(c.value)
    rb = _reader_branches(r)
    rr.instances += 1
    miss = sorted(wtokens - set(rb))
    rr.ob(SC, w.qualname, f"writer tokens {sorted(wtokens)}", "every token the path writer can emit has a branch in the "
          "path interpreter", VIOLATED if miss or not wtokens else DISCHARGED,
          f"interpreter has no branch for {miss} (ValueError 'Unknown token' in post-init)" if miss else
          f"reader branches: {sorted(rb)}", w.node.lineno)
    # the leaf token converts through the pseudo-type's own parser (the one detection used)
    leaf = rb.get("S")
    if leaf is not None:
        rr.instances += 1
        conv = [c for s_ in leaf.body for c in ast.walk(s_) if isinstance(c, ast.Call) and norm(c.func).startswith("current_type")]
        ok = bool(conv) and all(norm(c.func) == "current_type.to_internal_value" and c.args and norm(c.args[0]) == r.params[1] for c in conv)
        rr.ob(SC, r.qualname, norm(conv[0])[:60] if conv else "leaf conversion", "a string is converted by "
              "<type>.to_internal_value(value), the parser that classified it", DISCHARGED if ok else VIOLATED,
              "parser protocol used" if ok else "converted by another call (the class constructor accepts a different language: "
              "BooleanString('true') / IsoDateString('2020-01-02') fail)", leaf.lineno)
    # separators
    seps_w = {}
    for n in walk_no_nested(sfp.node):
        if isinstance(n, ast.Call) and isinstance(n.func, ast.Attribute) and n.func.attr == "join" and \
                isinstance(n.func.value, ast.Constant):
            seps_w["token"] = n.func.value.value
        if isinstance(n, ast.BinOp) and isinstance(n.op, ast.Add) and isinstance(n.left, ast.Constant) and \
                isinstance(n.left.value, str) and len(n.left.value) == 1:
            seps_w["field"] = n.left.value
    seps_r = {}
    for n in walk_no_nested(pic.node):
        if isinstance(n, ast.Call) and isinstance(n.func, ast.Attribute) and n.func.attr == "split" and n.args and \
                isinstance(n.args[0], ast.Constant):
            recv = norm(n.func.value)
            if "path" in recv:
                seps_r["token"] = n.args[0].value
            else:
                seps_r["field"] = n.args[0].value
    for kind in ("field", "token"):
        rr.instances += 1
        ok = kind in seps_w and seps_w.get(kind) == seps_r.get(kind)
        rr.ob(SC, pic.qualname, f"{kind} separator {seps_w.get(kind)!r} / {seps_r.get(kind)!r}",
              f"the {kind} separator written equals the one split on", DISCHARGED if ok else VIOLATED,
              "equal" if ok else "writer and reader disagree: paths are not parsed back", pic.node.lineno)
    # element index per container token agrees with the rendered typing form
    expect_idx = {}
    for names, k, t, n in arms:
        if k == "token":
            for nm in names:
                c = prog.find_class(nm)
                if not c:
                    continue
                # Dict[str, T] -> index 1 ; single-parameter forms -> 0
                tc = prog.lookup_method(c[0], "to_typing_code")
                idx = 0
                if tc:
                    for x in walk_no_nested(tc[0].node):
                        if isinstance(x, ast.JoinedStr):
                            txt = "".join(v.value for v in x.values if isinstance(v, ast.Constant))
                            if txt.count(",") == 1 and txt.index("[") < txt.index(","):
                                idx = 1
                expect_idx[t] = idx
    for t, iff in sorted(rb.items()):
        if t not in expect_idx:
            continue
        rr.instances += 1
        got = None
        for x in ast.walk(iff):
            if isinstance(x, ast.Subscript) and isinstance(x.value, ast.Attribute) and x.value.attr == "__args__" and \
                    isinstance(x.slice, ast.Constant) and any(x is y for s in iff.body for y in ast.walk(s)):
                got = x.slice.value
        ok = got == expect_idx[t]
        rr.ob(SC, r.qualname, f"token {t!r}: __args__[{got}]", f"the interpreter descends into the type argument that "
              f"the emitted annotation puts at that position ({expect_idx[t]})", DISCHARGED if ok else VIOLATED,
              "agrees with the rendering" if ok else f"annotation has the element type at index {expect_idx[t]}",
              iff.lineno)
    return rr


def _rta_classes(ctx: Ctx) -> Dict[str, str]:
    """IR classes the inference pipeline can put into a field type: instantiated classes / referenced singletons."""
    prog = ctx.prog
    base = prog.cls("json_to_models/dynamic_typing/base.py", "BaseType")
    out: Dict[str, str] = {}
    files = ["json_to_models/generator.py", "json_to_models/registry.py"]
    funcs = [f for rel in files for f in prog.module(rel).all_funcs]
    funcs += [f for f in prog.module("json_to_models/dynamic_typing/complex.py").all_funcs if f.qualname.startswith("DUnion.")]
    singletons: Dict[str, ClassInfo] = {}
    bm = prog.module("json_to_models/dynamic_typing/base.py")
    for name, vals in bm.assigns.items():
        v = vals[-1]
        if isinstance(v, ast.Call):
            r = prog.resolve_class_expr(bm, v.func)
            if isinstance(r, ClassInfo) and base in prog.mro(r):
                singletons[name] = r
    for f in funcs:
        for n in walk_no_nested(f.node):
            if isinstance(n, ast.Call):
                r = prog.resolve_class_expr(f.module, n.func, f.cls)
                if isinstance(r, ClassInfo) and base in prog.mro(r) and r != base:
                    out.setdefault(r.name, f"instantiated in {f.qualname}")
            if isinstance(n, ast.Name) and isinstance(n.ctx, ast.Load) and n.id in singletons:
                par = f.module.parents.get(n)
                # only value uses (returned / appended / passed), not tests
                if isinstance(par, ast.Compare):
                    continue
                out.setdefault(singletons[n.id].name, f"singleton {n.id} used as a value in {f.qualname}")
    return out


EXPECTED_KIND = {"DOptional": "token", "DList": "token", "DDict": "token"}


def rule_tok2(ctx: Ctx) -> RuleResult:
    rr = RuleResult("TOK-2", "the path writer has the right arm for every IR class inference can produce", floor=6)
    prog = ctx.prog
    w = prog.func(SC, "get_string_field_paths")
    arms, var = _writer_arms(ctx, w)
    if not arms:
        raise AnalysisError("TOK-2: the class dispatch chain of get_string_field_paths was not recognised")
    by_cls: Dict[str, Tuple[str, ast.AST]] = {}
    for names, kind, tok, node in arms:
        for nm in names:
            by_cls[nm] = (kind, node)
    rta = _rta_classes(ctx)
    if len(rta) < 6:
        raise AnalysisError(f"TOK-2: rapid type analysis found only {sorted(rta)}")
    for cname, why in sorted(rta.items()):
        if cname in ("ModelMeta",):
            continue  # occurs only below ModelPtr, where the walk stops
        rr.instances += 1
        arm = by_cls.get(cname)
        st = (f"`{cname}` ({why}) can occur in a field type, so the converter-path computation must handle it")
        if arm is None:
            rr.ob(SC, w.qualname, f"cls is {cname}", st, VIOLATED,
                  "no arm: the final else raises TypeError and code generation aborts with converters on", w.node.lineno)
            continue
        kind, node = arm
        exp = EXPECTED_KIND.get(cname)
        if kind == "raise" or kind == "other":
            rr.ob(SC, w.qualname, f"cls is {cname}", st, VIOLATED, f"arm of kind `{kind}`", node.lineno)
        elif exp and kind != exp:
            rr.ob(SC, w.qualname, f"cls is {cname}", st + f"; as a container it must contribute a path token", VIOLATED,
                  f"arm gives up / skips (`{kind}`): string pseudo-types nested under {cname} are silently left "
                  f"unconverted although the property promises conversion through Optional/List/Dict nesting",
                  node.lineno)
        else:
            rr.ob(SC, w.qualname, f"cls is {cname}", st, DISCHARGED, f"arm of kind `{kind}`", node.lineno)
    return rr


def rule_tok3(ctx: Ctx) -> RuleResult:
    rr = RuleResult("TOK-3", "names in the emitted convert_strings list are the emitted attribute names", floor=2)
    prog = ctx.prog
    base = prog.cls("json_to_models/models/base.py", "GenericModelCodeGenerator")
    # which conversion produces the attribute name in field_data?
    fd = prog.lookup_method(base, "field_data")[0]
    conv = None
    for n in walk_no_nested(fd.node):
        if isinstance(n, ast.Dict):
            for k, v in zip(n.keys, n.values):
                if isinstance(k, ast.Constant) and k.value == "name" and isinstance(v, ast.Call):
                    conv = norm(v.func)
                    arg = norm(v.args[0]) if v.args else None
    if conv is None:
        raise AnalysisError("TOK-3: cannot find the conversion of the field name in field_data")
    rr.instances += 1
    ok = conv == "self.convert_field_name" and arg == fd.params[1]
    rr.ob(fd.relpath, fd.qualname, f'"name": {conv}({arg})', "the attribute name is the field conversion of the original key",
          DISCHARGED if ok else VIOLATED, "convert_field_name(name)" if ok else "another conversion", fd.node.lineno)
    for k in prog.subclasses(base):
        for f in k.methods.get("string_field_paths", []):
            rr.instances += 1
            calls = [n for n in walk_no_nested(f.node) if isinstance(n, ast.Call) and norm(n.func).startswith("self.convert_")]
            ok = bool(calls) and all(norm(c.func) == conv for c in calls)
            # the converted thing is the name component of the pairs returned by get_string_field_paths
            rr.ob(f.relpath, f.qualname, norm(calls[0]) if calls else "string_field_paths",
                  "decorator entries name attributes with the same conversion as the field definitions", DISCHARGED if ok else VIOLATED,
                  "same conversion" if ok else f"uses `{norm(calls[0].func) if calls else '?'}` while fields use `{conv}`: "
                  f"post-init looks up an attribute that does not exist (camelCase keys)", f.node.lineno)
    return rr


def rule_null1(ctx: Ctx) -> RuleResult:
    rr = RuleResult("NULL-1", "a value that may be None under the Optional token is never dereferenced unguarded", floor=2)
    prog = ctx.prog
    r = prog.func(SC, "_process_string_field_value")
    rb = _reader_branches(r)
    vparam = r.params[1]
    # idiom (a): the Optional branch returns early on None before recursing
    o_guard = False
    for t, iff in rb.items():
        recurse = [c for s in iff.body for c in ast.walk(s) if isinstance(c, ast.Call) and norm(c.func) == r.name
                   and any(k.arg == "optional" and norm(k.value) == "True" for k in c.keywords)]
        if recurse:
            for s in iff.body:
                if isinstance(s, ast.If) and norm(s.test) in (f"{vparam} is None", f"{vparam} == None") and any(
                        isinstance(x, ast.Return) for x in s.body) and s.lineno < recurse[0].lineno:
                    o_guard = True
    for t, iff in sorted(rb.items()):
        derefs = []
        for s in iff.body:
            for x in ast.walk(s):
                if isinstance(x, ast.comprehension) and (norm(x.iter) == vparam or norm(x.iter).startswith(vparam + ".")):
                    derefs.append(x.iter)
                if isinstance(x, ast.For) and (norm(x.iter) == vparam or norm(x.iter).startswith(vparam + ".")):
                    derefs.append(x.iter)
        for d in derefs:
            rr.instances += 1
            local_guard = False
            p = r.module.parents.get(d)
            while p is not None and p is not iff:
                if isinstance(p, ast.If) and vparam in norm(p.test) and "None" in norm(p.test):
                    local_guard = True
                if isinstance(p, ast.IfExp) and vparam in norm(p.test) and "None" in norm(p.test):
                    local_guard = True
                p = r.module.parents.get(p)
            # a dominating early return on None inside the branch
            for s in iff.body:
                if isinstance(s, ast.If) and vparam in norm(s.test) and "None" in norm(s.test) and any(
                        isinstance(x, ast.Return) for x in s.body) and s.lineno < d.lineno:
                    local_guard = True
            ok = o_guard or local_guard
            rr.ob(SC, r.qualname, f"token {t!r}: iterate `{norm(d)}`", "Optional[List[..]] / Optional[Dict[..]] fields "
                  "holding None keep None instead of being iterated", DISCHARGED if ok else VIOLATED,
                  ("the Optional branch returns None before recursing" if o_guard else "guarded locally") if ok else
                  "reached with None after an `O` token (TypeError in post-init): the leaf branch tolerates None under "
                  "`optional`, this branch does not", d.lineno)
    if rr.instances == 0:
        raise AnalysisError("NULL-1: no container branches found in the path interpreter")
    return rr


# ---------------------------------------------------------------------------------------------------------------
def rule_conv_pure(ctx: Ctx) -> RuleResult:
    """CONVPURE-1: converting a value builds new containers; the caller's sample objects are never written."""
    rr = RuleResult("CONVPURE-1", "string conversion never writes into the objects it was given", floor=2)
    mod = ctx.prog.module(SC)
    funcs = [f for f in mod.all_funcs]
    st = ("the value handed to the model (a dict or list taken from the sample) is left as it was: converted values go into "
          "new containers, so the same sample can be used to construct a model again")
    n = 0
    for f in sorted(funcs, key=lambda x: x.key):
        params = [p for p in f.params if p not in ("self", "cls")]
        if not params:
            continue
        n += 1
        rr.instances += 1
        bad = [w for w in ctx.effects.events(f) if w.root.startswith("param:") and w.root[6:] in params
               and w.kind in ("item", "mutcall", "attr") and not (w.kind == "attr" and w.root[6:] in ("cls", "fn", "func", "wrap_fn"))]
        # attribute writes on functions / classes being decorated are set-up, not data
        bad = [w for w in bad if not (w.kind == "attr" and (w.path.endswith(".__name__") or w.path.endswith(".__doc__")))]
        if bad:
            w = bad[0]
            rr.ob(f.relpath, f.qualname, w.path[:80], st, VIOLATED,
                  f"`{w.path[:50]}` writes into parameter `{w.root[6:]}`: the caller's sample is rewritten in place and a "
                  f"second construction from it receives already-converted objects", w.line)
        else:
            rr.ob(f.relpath, f.qualname, f.name, st, DISCHARGED, "parameters are only read", f.node.lineno)
    if n < 2:
        raise AnalysisError(f"CONVPURE-1: only {n} functions with parameters in string_converters.py")
    return rr


ONE_SHOT = ("map", "filter", "zip", "iter", "reversed", "enumerate", "itertools.chain", "chain", "itertools.islice", "islice")


def one_shot_captures(tree: ast.AST) -> List[Tuple[ast.AST, ast.AST, str, ast.AST]]:
    """(outer function, inner function, name, use) where the inner function, which outlives the call that defined it,
    iterates a variable of the outer function that holds a one-shot iterator."""
    out = []

    def own_nodes(fn):
        stack = list(ast.iter_child_nodes(fn))
        while stack:
            x = stack.pop()
            yield x
            if isinstance(x, (ast.FunctionDef, ast.AsyncFunctionDef, ast.Lambda, ast.ClassDef)):
                continue
            stack.extend(ast.iter_child_nodes(x))

    for outer in ast.walk(tree):
        if not isinstance(outer, (ast.FunctionDef, ast.AsyncFunctionDef)):
            continue
        defs: Dict[str, List[ast.AST]] = {}
        for x in own_nodes(outer):
            if isinstance(x, (ast.Assign, ast.AnnAssign)) and getattr(x, "value", None) is not None:
                for t in (x.targets if isinstance(x, ast.Assign) else [x.target]):
                    if isinstance(t, ast.Name):
                        defs.setdefault(t.id, []).append(x.value)
        for p in outer.args.posonlyargs + outer.args.args + outer.args.kwonlyargs:
            defs.setdefault(p.arg, [])  # parameters: value unknown unless reassigned
        one_shot = {nm for nm, vs in defs.items() if vs and all(
            isinstance(v, ast.GeneratorExp) or (isinstance(v, ast.Call) and norm(v.func) in ONE_SHOT) for v in vs)}
        if not one_shot:
            continue
        for inner in own_nodes(outer):
            if not isinstance(inner, (ast.FunctionDef, ast.AsyncFunctionDef, ast.Lambda)):
                continue
            # everything below `inner`, nested closures included (they outlive the call as well)
            local = {a.arg for a in inner.args.posonlyargs + inner.args.args + inner.args.kwonlyargs}
            for x in ast.walk(inner):
                if isinstance(x, ast.Name) and isinstance(x.ctx, ast.Store):
                    local.add(x.id)
            for x in ast.walk(inner):
                if x is inner:
                    continue
                if isinstance(x, ast.Name) and isinstance(x.ctx, ast.Load) and x.id in one_shot and x.id not in local:
                    out.append((outer, inner, x.id, x))
    return out


def rule_iter1(ctx: Ctx) -> RuleResult:
    rr = RuleResult("ITER-1", "a function that is called once per instance does not consume a one-shot iterator of its factory", floor=1)
    ctl = ast.parse("def deco(paths):\n    paths = map(str, paths)\n    def post(self):\n        for p in paths:\n            pass\n    return post\n")
    if len(one_shot_captures(ctl)) != 1:
        raise AnalysisError("ITER-1: positive control failed")
    st = ("what a decorator factory computes once is still there for the second, third, ... instance: an iterator (map, "
          "filter, zip, generator expression) captured by the per-instance function is empty after its first use")
    n_mod = 0
    for m in ctx.prog.pkg_modules():
        n_mod += 1
        for outer, inner, name, use in one_shot_captures(m.tree):
            rr.instances += 1
            iname = getattr(inner, "name", "<lambda>")
            rr.ob(m.relpath, f"{outer.name}.<locals>.{iname}", norm(use), st, VIOLATED,
                  f"`{name}` is bound to a one-shot iterator in {outer.name} and read in {iname}, which runs once per call: "
                  f"only the first call sees its elements", use.lineno)
    rr.instances += 1
    rr.ob("json_to_models", "<package>", f"{n_mod} modules", st, DISCHARGED,
          "no closure reads a one-shot iterator of its enclosing function (positive control matched)", 1)
    return rr


# ---------------------------------------------------------------------------------------------------------------
def rule_convform1(ctx: Ctx) -> RuleResult:
    """CONVFORM-1: the per-field converter emitted when post-init converters are off parses the string the way the
    pseudo-type does: a class whose parser is not its plain constructor cannot be used as `converter=<class>`."""
    rr = RuleResult("CONVFORM-1", "the per-field converter of a pseudo-typed attrs field is that type's parser", floor=1)
    prog = ctx.prog
    g = prog.cls("json_to_models/models/attr.py", "AttrsModelCodeGenerator")
    fd = g.methods.get("field_data", [None])[0]
    if fd is None:
        raise AnalysisError("CONVFORM-1: AttrsModelCodeGenerator.field_data vanished")
    sites = [n for n in walk_no_nested(fd.node) if isinstance(n, ast.Assign) and isinstance(n.targets[0], ast.Subscript)
             and isinstance(n.targets[0].slice, ast.Constant) and n.targets[0].slice.value == "converter"]
    if not sites:
        rr.instances += 1
        rr.ob(fd.relpath, fd.qualname, "converter", "no per-field converter is emitted", DISCHARGED, "nothing to check", fd.node.lineno)
        return rr
    # pseudo-types whose parser is more than the constructor call
    base = prog.cls("json_to_models/dynamic_typing/string_serializable.py", "StringSerializable")
    special = []
    for k in prog.subclasses(base, strict=True):
        ms = prog.lookup_method(k, "to_internal_value")
        if not ms or ms[0].cls is base:
            continue
        body = [s_ for s_ in ms[0].node.body if not (isinstance(s_, ast.Expr) and isinstance(s_.value, ast.Constant))]
        plain = len(body) == 1 and isinstance(body[0], ast.Return) and isinstance(body[0].value, ast.Call) and \
            norm(body[0].value.func) == "cls" and len(body[0].value.args) == 1
        if not plain:
            special.append(k.name)
    for n in sites:
        rr.instances += 1
        v = n.value
        txt = norm(v)
        uses_parser = "to_internal_value" in txt
        ok = uses_parser or not special
        rr.ob(fd.relpath, fd.qualname, "converter=<class>" if not uses_parser else "converter=<class>.to_internal_value",
              "constructing the generated attrs class from sample strings converts them with the pseudo-type's own parser",
              DISCHARGED if ok else VIOLATED,
              "the parser is emitted" if uses_parser else
              (f"the class itself is emitted as converter (`{txt[:50]}`), i.e. its constructor: for {', '.join(sorted(special))} the "
               f"parser is not the constructor, so Root(flag=\"true\") raises ValueError / TypeError instead of converting"
               if special else "every pseudo-type's parser is its constructor"), n.lineno)
    return rr
