"""Emission rules: INJ-2 / INJ-3 (exact escaping of keys and literal members), LIM-1..3, LIT-1/2 (literal limits),
LABEL-1 (label typestate), DUP-1 (duplicate names), SIB-1/2 (sibling generators agree), TBL-1, FWD-1."""
from __future__ import annotations

import ast
from typing import Dict, List, Optional, Set, Tuple

from ..consts import string_context_at_hole
from ..ctx import Ctx
from ..model import AnalysisError, ClassInfo, FuncInfo, attr_chain, norm, walk_no_nested
from ..paths import Path, enumerate_paths
from ..report import ALLOWED, DISCHARGED, VIOLATED, RuleResult
from ..strsym import StrSym, describe, text_of
from ..util import enclosing_loop, names_in

BASE = "json_to_models/models/base.py"
CPLX = "json_to_models/dynamic_typing/complex.py"
LABELERS = ("convert_field_name", "convert_class_name", "prepare_label")

# escapers that turn ANY str into Python source of an equal string literal (validated against the interpreter in the
# thorough tier).  json.dumps without ensure_ascii=False writes astral characters as surrogate pairs -> different str.
EXACT_ESCAPERS = ("repr", "json.dumps(ensure_ascii=False)")
BMP_ONLY_ESCAPERS = ("json.dumps", "ascii")
PASSIVE = ("jinja-str", "str", "sorted")


def classify_escape(wrappers: Tuple[str, ...]) -> Tuple[str, str]:
    """('exact' | 'bmp' | 'label' | 'raw', explanation) for a value emitted in CODE context."""
    ws = [w for w in wrappers if w not in PASSIVE]
    if not ws:
        return "raw", "no escaper: the text is pasted into the source as is"
    first = ws[0]
    rest = ws[1:]
    if first in LABELERS:
        return "label", f"sanitised to an identifier by {first}()"
    if any(not (w.startswith("join(") or w in PASSIVE) for w in rest):
        bad = [w for w in rest if not w.startswith("join(")]
        return "raw", f"`{bad[0]}` is applied after the escaper and can break the literal it produced"
    if first in EXACT_ESCAPERS:
        return "exact", f"{first} yields source text of an equal string for every str"
    if first in BMP_ONLY_ESCAPERS or first.startswith("json.dumps("):
        if "ensure_ascii=False" in first:
            return "exact", f"{first}"
        return "bmp", (f"{first} writes characters outside the BMP as two \\uXXXX escapes, which Python reads as two "
                       f"code points: the literal is not the observed string")
    return "raw", f"`{first}` is not an escaper that is exact for every string (quotes, backslashes, newlines, CR, NUL)"


# ---------------------------------------------------------------------------------------------------------------
def rule_inj3(ctx: Ctx) -> RuleResult:
    rr = RuleResult("INJ-3", "Literal members are rendered by an escaper that is exact for every string", floor=1)
    ss = StrSym(ctx, opaque=LABELERS)
    f = ctx.prog.func(CPLX, "StringLiteral.to_typing_code")
    rets = [n for n in walk_no_nested(f.node) if isinstance(n, ast.Return) and isinstance(n.value, ast.Tuple)
            and len(n.value.elts) == 2]
    if not rets:
        raise AnalysisError("INJ-3: StringLiteral.to_typing_code returns no (imports, code) pair")
    seen_literal = False
    for r in rets:
        for v in ss.variants(f, f.module, r.value.elts[1]):
            before = ""
            for a in v:
                if a[0] == "lit":
                    before += a[1]
                    continue
                seen_literal = True
                rr.instances += 1
                lex = string_context_at_hole(before)
                st = ("every observed string is listed in Literal[...] as source text that evaluates to that very string")
                if lex != "code":
                    rr.ob(f.relpath, f.qualname, describe(v), st, VIOLATED,
                          f"the member text is pasted between hand-written quotes (context {lex!r}): only characters the "
                          f"ad-hoc escaping anticipates survive", r.lineno)
                else:
                    kind, why = classify_escape(a[2])
                    rr.ob(f.relpath, f.qualname, describe(v), st, DISCHARGED if kind == "exact" else VIOLATED, why, r.lineno)
                if "sorted" not in " ".join(a[2]) and "sorted" not in norm(r.value) and not any(
                        "sorted" in norm(x) for x in walk_no_nested(f.node) if isinstance(x, ast.Call)):
                    rr.instances += 1
                    rr.ob(f.relpath, f.qualname, "member order", "members are listed in sorted order", VIOLATED,
                          "no sorted() on the literal set", r.lineno)
                before += "\x00"
    if not seen_literal:
        raise AnalysisError("INJ-3: no run-time component found in the Literal rendering")
    return rr


def rule_inj2(ctx: Ctx) -> RuleResult:
    rr = RuleResult("INJ-2", "the original JSON key reaches emitted code only as a label or through an exact escaper", floor=4)
    prog = ctx.prog
    ss = StrSym(ctx, opaque=LABELERS)
    base = prog.cls(BASE, "GenericModelCodeGenerator")
    for k in prog.subclasses(base):
        for mname in ("field_data", "_get_field_kwargs"):
            for f in k.methods.get(mname, []):
                ps = [p for p in f.params if p != "self"]
                if not ps or ps[0] != "name":
                    raise AnalysisError(f"INJ-2: {f.qualname} no longer takes the original key as first parameter")
                key = ps[0]
                for n in walk_no_nested(f.node):
                    if not (isinstance(n, ast.Name) and n.id == key and isinstance(n.ctx, ast.Load)):
                        continue
                    rr.instances += 1
                    par = f.module.parents.get(n)
                    st = "the key text cannot alter the structure of the emitted code whatever characters it contains"
                    # (1) compared
                    if isinstance(par, ast.Compare):
                        rr.ob(f.relpath, f.qualname, norm(par), st, DISCHARGED, "comparison only", n.lineno, trivial=True)
                        continue
                    # (2) argument of a call
                    if isinstance(par, ast.Call) and n in par.args:
                        fn = norm(par.func)
                        short = fn.split(".")[-1]
                        if short in LABELERS:
                            rr.ob(f.relpath, f.qualname, norm(par), st, DISCHARGED, "converted to a label", n.lineno)
                            continue
                        if short in ("field_data", "_get_field_kwargs"):
                            rr.ob(f.relpath, f.qualname, norm(par)[:60], st, DISCHARGED,
                                  "handed to the sibling implementation (checked there)", n.lineno, trivial=True)
                            continue
                    # (3) part of a value stored for emission: find the enclosing store
                    stmt = n
                    while stmt is not None and not isinstance(stmt, ast.stmt):
                        stmt = f.module.parents.get(stmt)
                    if isinstance(stmt, ast.Assign) and isinstance(stmt.targets[0], ast.Subscript):
                        val = stmt.value
                        # container display holding the raw key: rendered by str(container) -> repr of members
                        if isinstance(val, (ast.Dict, ast.List, ast.Tuple, ast.Set)) and any(
                                x is n for x in ast.walk(val)) and _direct_member(val, n):
                            rr.ob(f.relpath, f.qualname, norm(stmt)[:80], st, DISCHARGED,
                                  "stored inside a container display: the template renders str(container), i.e. repr() of "
                                  "the key (exact)", n.lineno)
                            continue
                        bad = None
                        for v in ss.variants(f, f.module, val):
                            before = ""
                            for a in v:
                                if a[0] == "lit":
                                    before += a[1]
                                    continue
                                if a[1] == f"param:{key}":
                                    lex = string_context_at_hole(before)
                                    if lex != "code":
                                        bad = (f"pasted between hand-written quotes (context {lex!r}): a quote or backslash in "
                                               f"the key breaks or changes the literal")
                                    else:
                                        kind, why = classify_escape(a[2])
                                        if kind not in ("exact", "label"):
                                            bad = why
                                before += "\x00"
                        rr.ob(f.relpath, f.qualname, norm(stmt)[:80], st, VIOLATED if bad else DISCHARGED,
                              bad or "exact escaper in code context", n.lineno)
                        continue
                    rr.ob(f.relpath, f.qualname, norm(stmt)[:80] if stmt is not None else norm(n), st, VIOLATED,
                          "unclassified use of the original key", n.lineno)
    return rr


def _direct_member(container: ast.AST, n: ast.AST) -> bool:
    if isinstance(container, ast.Dict):
        return any(x is n for x in container.keys + container.values)
    return any(x is n for x in container.elts)


# ---------------------------------------------------------------------------------------------------------------
def _eval_cmp(test: ast.AST, subst: Dict[str, int]) -> Optional[bool]:
    """Evaluate a comparison with len(...) / named constants replaced by integers."""
    def ev(e):
        if isinstance(e, ast.Constant) and isinstance(e.value, (int, float)) and not isinstance(e.value, bool):
            return e.value
        k = norm(e)
        if k in subst:
            return subst[k]
        if isinstance(e, ast.BinOp) and isinstance(e.op, (ast.Add, ast.Sub)):
            l, r = ev(e.left), ev(e.right)
            if l is None or r is None:
                return None
            return l + r if isinstance(e.op, ast.Add) else l - r
        return None
    neg = False
    while isinstance(test, ast.UnaryOp) and isinstance(test.op, ast.Not):
        neg = not neg
        test = test.operand
    if not isinstance(test, ast.Compare) or len(test.ops) != 1:
        return None
    l, r = ev(test.left), ev(test.comparators[0])
    if l is None or r is None:
        return None
    op = test.ops[0]
    res = {ast.Gt: l > r, ast.GtE: l >= r, ast.Lt: l < r, ast.LtE: l <= r, ast.Eq: l == r, ast.NotEq: l != r}.get(type(op))
    if res is None:
        return None
    return (not res) if neg else res


def _len_terms(e: ast.AST) -> List[ast.Call]:
    return [x for x in ast.walk(e) if isinstance(x, ast.Call) and norm(x.func) == "len"]


def rule_lim(ctx: Ctx) -> RuleResult:
    rr = RuleResult("LIM-1..3", "the three literal limits are compared at the documented boundaries", floor=3)
    prog = ctx.prog
    sl = prog.cls(CPLX, "StringLiteral")
    consts = {}
    for name in ("MAX_LITERALS", "MAX_STRING_LENGTH"):
        v = sl.assigns.get(name)
        c = ctx.folder.try_fold(sl.module, v, sl) if v is not None else None
        if not isinstance(c, int):
            raise AnalysisError(f"LIM: StringLiteral.{name} is not an integer constant")
        consts[name] = c
    rr.notes.append(f"constants: {consts}")
    found = {"MAX_LITERALS": 0, "MAX_STRING_LENGTH": 0, "limit": 0}
    for m in prog.pkg_modules():
        for n in ast.walk(m.tree):
            if not isinstance(n, ast.Compare) or len(n.ops) != 1:
                continue
            text = norm(n)
            for cname, val in consts.items():
                if cname not in text:
                    continue
                sides = [n.left, n.comparators[0]]
                cside = [s for s in sides if cname in norm(s)]
                oside = [s for s in sides if cname not in norm(s)]
                if len(cside) != 1 or len(oside) != 1:
                    continue
                found[cname] += 1
                rr.instances += 1
                where = m.qual_of_node(n)
                lens = _len_terms(oside[0])
                if cname == "MAX_LITERALS":
                    st = (f"a set of distinct plain strings stays a Literal up to and including {val} members and "
                          f"overflows from {val + 1}")
                    want = lambda c: c(val - 1) == c(val) != c(val + 1)
                else:
                    st = f"a string shorter than {val} characters is kept; {val} or more overflow"
                    want = lambda c: c(val - 1) != c(val) == c(val + 1)
                if len(lens) != 1 or norm(oside[0]) != norm(lens[0]):
                    rr.ob(m.relpath, where, text, st, VIOLATED,
                          f"the compared quantity `{norm(oside[0])}` is not the size of one collection: members can be "
                          f"counted twice or not at all", n.lineno)
                    continue
                if cname == "MAX_STRING_LENGTH" and not (isinstance(lens[0], ast.Call) and lens[0].args and isinstance(lens[0].args[0], ast.Name)):
                    rr.ob(m.relpath, where, text, st, VIOLATED,
                          f"`{norm(lens[0])[:60]}` is not the number of characters of the string itself (an encoded or escaped form is "
                          f"longer for non-ASCII text: \"Санкт-Петербург\" has 15 characters and 29 UTF-8 bytes)", n.lineno)
                    continue
                lt = norm(lens[0])
                cval = lambda k: _eval_cmp(n, {lt: k, norm(cside[0]): val})
                if cval(val) is None:
                    rr.ob(m.relpath, where, text, st, VIOLATED, "comparison not evaluable", n.lineno)
                    continue
                ok = want(cval)
                rr.ob(m.relpath, where, text, st, DISCHARGED if ok else VIOLATED,
                      f"truth at {val - 1}, {val}, {val + 1}: {cval(val - 1)}, {cval(val)}, {cval(val + 1)}"
                      + ("" if ok else " - the boundary is off by one"), n.lineno)
    if not found["MAX_LITERALS"] or not found["MAX_STRING_LENGTH"]:
        raise AnalysisError(f"LIM: limit comparisons not found: {found}")
    # LIM-3: configured maximum in to_typing_code
    f = prog.func(CPLX, "StringLiteral.to_typing_code")
    lim_var = None
    for n in walk_no_nested(f.node):
        if isinstance(n, ast.Assign) and isinstance(n.targets[0], ast.Name) and "max_literals" in norm(n.value):
            lim_var = n.targets[0].id
    if lim_var is None:
        raise AnalysisError("LIM-3: the configured maximum is no longer read in StringLiteral.to_typing_code")
    cmps = [n for n in walk_no_nested(f.node) if isinstance(n, ast.Compare) and lim_var in names_in(n) and _len_terms(n)]
    nones = [n for n in walk_no_nested(f.node) if isinstance(n, ast.Compare) and norm(n) in (f"{lim_var} is None", f"{lim_var} is not None")]
    truthy = [n for n in walk_no_nested(f.node) if isinstance(n, (ast.If, ast.IfExp, ast.BoolOp)) and any(
        isinstance(v, ast.Name) and v.id == lim_var for v in (
            [n.test] if not isinstance(n, ast.BoolOp) else n.values))]
    for n in cmps:
        rr.instances += 1
        lt = norm(_len_terms(n)[0])
        c = lambda k, L=10: _eval_cmp(n, {lt: k, lim_var: L})
        # polarity-free: the comparison flips exactly between limit-1 and limit, and (0 members, limit 0) is on the
        # at-limit side (maximum 0 disables literals)
        ok = None not in (c(9), c(10), c(11)) and c(9) != c(10) and c(10) == c(11) and \
            _eval_cmp(n, {lt: 0, lim_var: 0}) == c(10)
        rr.ob(f.relpath, f.qualname, norm(n), "Literal is emitted iff the number of members is below the configured maximum "
              "(so a maximum of 0 disables literals)", DISCHARGED if ok else VIOLATED,
              f"with limit 10: truth at 9, 10, 11 = {c(9)}, {c(10)}, {c(11)}; limit 0, empty set -> "
              f"{_eval_cmp(n, {lt: 0, lim_var: 0})}", n.lineno)
    rr.instances += 1
    ok = bool(nones) and not truthy
    rr.ob(f.relpath, f.qualname, f"{lim_var} is None", "'no limit' is recognised by `is None`, so that 0 still means zero",
          DISCHARGED if ok else VIOLATED, "identity test against None" if ok else
          "the limit is tested for truthiness: a maximum of 0 would behave as 'no limit'", f.node.lineno)
    if not cmps:
        raise AnalysisError("LIM-3: no comparison of the member count with the configured maximum")
    return rr


def rule_lit(ctx: Ctx) -> RuleResult:
    rr = RuleResult("LIT-1/2", "attrs never emits Literal; str is emitted whenever literals are off; the limit is plumbed", floor=3)
    prog = ctx.prog
    f = prog.func(CPLX, "StringLiteral.to_typing_code")
    # every path on which use_literals is falsy returns ([], 'str'); Literal only under use_literals and the limit test
    paths = enumerate_paths(f.node.body)
    for p in paths:
        if p.exit != "return":
            continue
        rr.instances += 1
        use = None
        for c, tv in p.conds():
            if "use_literals" in norm(c):
                use = tv
        code = norm(p.ret.elts[1]) if isinstance(p.ret, ast.Tuple) and len(p.ret.elts) == 2 else norm(p.ret)
        is_lit = "Literal" in code
        ok = (not is_lit) or (use is True)
        rr.ob(f.relpath, f.qualname, p.describe()[:100], "a Literal annotation is produced only when the style enables "
              "literals", DISCHARGED if ok else VIOLATED, f"returns {code[:40]}", f.node.lineno)
    # attrs style
    attrs = prog.cls("json_to_models/models/attr.py", "AttrsModelCodeGenerator")
    style = attrs.assigns.get("default_types_style")
    rr.instances += 1
    ok = False
    if isinstance(style, ast.Dict):
        for k, v in zip(style.keys, style.values):
            if norm(k) == "StringLiteral" and isinstance(v, ast.Dict):
                for k2, v2 in zip(v.keys, v.values):
                    if "use_literals" in norm(k2):
                        ok = isinstance(v2, ast.Constant) and v2.value is False
    rr.ob(attrs.module.relpath, attrs.qualname, "default_types_style[StringLiteral]", "the attrs generator disables literals",
          DISCHARGED if ok else VIOLATED, "use_literals: False" if ok else "literals are not switched off for attrs",
          attrs.node.lineno)
    # LIT-2: the limit option is stored per instance as int(max_literals)
    init = prog.func(BASE, "GenericModelCodeGenerator.__init__")
    rr.instances += 1
    asg = [n for n in walk_no_nested(init.node) if isinstance(n, ast.Assign) and isinstance(n.targets[0], ast.Subscript)
           and "max_literals" in norm(n.targets[0])]
    def _is_limit(v: ast.AST) -> bool:
        # int(max_literals), directly or through a local bound once to it, unconditionally
        if norm(v) == "int(max_literals)":
            return True
        if isinstance(v, ast.Name):
            ds = [d for d in walk_no_nested(init.node) if isinstance(d, ast.Assign) and any(norm(t_) == v.id for t_ in d.targets)]
            return len(ds) == 1 and norm(ds[0].value) == "int(max_literals)" and not _conditional(init, ds[0])
        return False
    ok = len(asg) == 1 and _is_limit(asg[0].value) and not _conditional(init, asg[0])
    rr.ob(init.relpath, init.qualname, norm(asg[0]) if asg else "max_literals", "the configured maximum is stored in this "
          "generator's own style table, as an int, unconditionally", DISCHARGED if ok else VIOLATED,
          "types_style[StringLiteral][max_literals] = int(max_literals)" if ok else "limit not stored / transformed / conditional",
          init.node.lineno)
    # every generator subclass hands the options it accepts by name on to the base constructor
    gbase = prog.cls(BASE, "GenericModelCodeGenerator")
    bparams = set(init.params) - {"self", "model"}
    for k in prog.subclasses(gbase, strict=True):
        for f in k.methods.get("__init__", []):
            rr.instances += 1
            sup = [c for c in walk_no_nested(f.node) if isinstance(c, ast.Call) and norm(c.func) in ("super().__init__",
                   f"super({k.name}, self).__init__") or (isinstance(c, ast.Call) and norm(c.func).endswith(".__init__") and c.args and norm(c.args[0]) == "self")]
            named = [p for p in f.params if p in bparams]
            problems = []
            if not sup:
                problems.append("base constructor is not called")
            else:
                c = sup[0]
                kws = {kw.arg: norm(kw.value) for kw in c.keywords if kw.arg}
                star = {x.id for kw in c.keywords if kw.arg is None for x in ast.walk(kw.value) if isinstance(x, ast.Name)}
                if f.node.args.kwarg and f.node.args.kwarg.arg not in star:
                    problems.append(f"**{f.node.args.kwarg.arg} is not forwarded")
                for p in named:
                    if kws.get(p) != p and p not in [norm(a) for a in c.args]:
                        # allowed: the subclass fixes the value on purpose by writing it into kwargs before the call
                        forced = any(isinstance(n, ast.Assign) and isinstance(n.targets[0], ast.Subscript) and
                                     isinstance(n.targets[0].slice, ast.Constant) and n.targets[0].slice.value == p
                                     for n in walk_no_nested(f.node))
                        if not forced:
                            problems.append(f"parameter `{p}` is accepted but not passed to the base constructor")
            rr.ob(f.relpath, f.qualname, norm(sup[0])[:70] if sup else "__init__", "options accepted by a framework generator "
                  "reach the base constructor (max_literals, post_init_converters, convert_unicode, types_style)",
                  VIOLATED if problems else DISCHARGED, "; ".join(problems) if problems else "forwarded", f.node.lineno)
    # overflowed or empty literal sets become str in optimize_type
    ot = prog.func("json_to_models/generator.py", "MetadataGenerator.optimize_type")
    rr.instances += 1
    ok = False
    def _either(test: ast.AST) -> bool:
        """`X.overflowed or not X.literals`, alone or as one conjunct (`isinstance(X, StringLiteral) and (...)`)"""
        if isinstance(test, ast.BoolOp) and isinstance(test.op, ast.And):
            return any(_either(v) for v in test.values)
        if isinstance(test, ast.BoolOp) and isinstance(test.op, ast.Or):
            at = {norm(v) for v in test.values}
            return any(a.endswith(".overflowed") and not a.startswith("not ") for a in at) and any(
                a.startswith("not ") and a.endswith(".literals") for a in at) and len(at) == 2
        return False
    for n in walk_no_nested(ot.node):
        if isinstance(n, ast.If) and "overflowed" in norm(n.test) and "literals" in norm(n.test) and any(
                isinstance(x, ast.Return) and norm(x.value) == "str" for x in n.body):
            ok = _either(n.test)
        # the same rule as a conditional expression: `return str if X.overflowed or not X.literals else X`
        if isinstance(n, ast.Return) and isinstance(n.value, ast.IfExp) and norm(n.value.body) == "str" and _either(n.value.test):
            ok = True
    rr.ob(ot.relpath, ot.qualname, "if meta.overflowed or not meta.literals: return str", "an overflowed or empty literal "
          "set is typed str", DISCHARGED if ok else VIOLATED, "found" if ok else "rule missing or weakened", ot.node.lineno)
    return rr


def _conditional(f: FuncInfo, st: ast.stmt) -> bool:
    p = f.module.parents.get(st)
    while p is not None and p is not f.node:
        if isinstance(p, (ast.If, ast.For, ast.While, ast.Try)):
            return True
        p = f.module.parents.get(p)
    return False


# ---------------------------------------------------------------------------------------------------------------
def rule_label1(ctx: Ctx) -> RuleResult:
    rr = RuleResult("LABEL-1", "labels are sanitised in order: strip non-word, fix leading digit, case, black-list last", floor=5)
    prog = ctx.prog
    f = prog.func(BASE, "prepare_label")
    s = f.params[0]
    body = f.node.body
    stage_pos: Dict[str, int] = {}
    detail: Dict[str, str] = {}
    def expanded(st):
        """the statement's own nodes plus the bodies of repository helpers it calls (one level)"""
        nodes = list(ast.walk(st))
        for x in list(nodes):
            if isinstance(x, ast.Call) and isinstance(x.func, ast.Name):
                r = ctx.prog.resolve_global(f.module, x.func.id)
                if isinstance(r, FuncInfo) and r is not f:
                    nodes += [y for y in ast.walk(r.node) if not isinstance(y, ast.Return)]
        return nodes

    for i, st in enumerate(body):
        t = norm(st)
        for x in expanded(st):
            if isinstance(x, ast.Call) and norm(x.func) == "re.sub" and len(x.args) == 3 and isinstance(x.args[2], ast.Name):
                pat = ctx.folder.try_fold(f.module, x.args[0])
                rep = ctx.folder.try_fold(f.module, x.args[1])
                if isinstance(pat, str):
                    import re._parser as rp
                    try:
                        items = list(rp.parse(pat))
                    except Exception:
                        items = []
                    if len(items) == 1 and "NOT_WORD" in str(items[0]) and rep == "":
                        stage_pos.setdefault("strip", i)
                    else:
                        detail["strip"] = f"re.sub({pat!r}, {rep!r}) does not delete exactly the non-word characters"
            if isinstance(x, ast.Call) and norm(x.func).endswith("unidecode") and x.args and isinstance(x.args[0], ast.Name):
                stage_pos.setdefault("unidecode", i)
            if isinstance(x, ast.Call) and norm(x.func) == "inflection.underscore":
                stage_pos.setdefault("case", i)
            if isinstance(x, ast.Compare) and len(x.ops) == 1 and isinstance(x.ops[0], ast.In) and \
                    "blacklist" in norm(x.comparators[0]):
                stage_pos.setdefault("blacklist", i)
                detail["blacklist_test"] = norm(x)
            if isinstance(x, ast.Subscript) and norm(x.value) == "ones":
                stage_pos.setdefault("digit", i)
        if isinstance(st, ast.Return):
            stage_pos.setdefault("return", i)
            detail["return"] = norm(st.value) if st.value is not None else ""
    need = ["strip", "digit", "case", "blacklist", "return"]
    for a, b in zip(need, need[1:]):
        rr.instances += 1
        ok = a in stage_pos and b in stage_pos and stage_pos[a] < stage_pos[b]
        rr.ob(f.relpath, f.qualname, f"{a} -> {b}", f"stage `{a}` precedes stage `{b}`", DISCHARGED if ok else VIOLATED,
              f"statement positions {stage_pos.get(a)} < {stage_pos.get(b)}" if ok else
              (detail.get(a) or f"stage order is {sorted(stage_pos.items(), key=lambda kv: kv[1])}: `{a}` must come before `{b}` "
               f"(e.g. a digit exposed only after punctuation is stripped must still be rewritten)"), f.node.lineno)
    if "unidecode" in stage_pos:
        rr.instances += 1
        ok = stage_pos["unidecode"] < stage_pos.get("strip", -1)
        rr.ob(f.relpath, f.qualname, "unidecode -> strip", "transliteration happens before non-word characters are dropped",
              DISCHARGED if ok else VIOLATED, "ordered" if ok else "transliteration output could re-introduce punctuation",
              f.node.lineno)
    # black-list test is exact membership of the final label, and only a suffix is added afterwards
    rr.instances += 1
    bt = detail.get("blacklist_test", "")
    ok = bt == f"{s} in blacklist_words"
    rr.ob(f.relpath, f.qualname, bt or "blacklist test", "the label itself (exact spelling) is looked up in the black-list",
          DISCHARGED if ok else VIOLATED, "exact membership" if ok else
          f"`{bt}` tests a transformed spelling: entries with capitals (Union, Literal, None, BaseModel...) are never "
          f"matched, or unrelated labels get suffixed", f.node.lineno)
    rr.instances += 1
    ok = detail.get("return") == s
    rr.ob(f.relpath, f.qualname, f"return {detail.get('return')}", "the value returned is the one that passed the black-list "
          "test (plus suffix)", DISCHARGED if ok else VIOLATED, "returns the checked label" if ok else
          "something else is returned", f.node.lineno)
    # the two conversions call prepare_label with the right switches
    gen = prog.cls(BASE, "GenericModelCodeGenerator")
    for mname, snake in (("convert_class_name", "False"), ("convert_field_name", "True")):
        for k in prog.subclasses(gen):
            for m in k.methods.get(mname, []):
                rr.instances += 1
                rets = [n for n in walk_no_nested(m.node) if isinstance(n, ast.Return) and n.value is not None]
                ok = True
                why = []
                for r in rets:
                    v = r.value
                    if isinstance(v, ast.Call) and norm(v.func) == "prepare_label":
                        kws = {kw.arg: norm(kw.value) for kw in v.keywords}
                        if not (v.args and norm(v.args[0]) == m.params[1] and kws.get("to_snake_case") == snake and
                                kws.get("convert_unicode") == "self.convert_unicode"):
                            ok = False
                            why.append(norm(v))
                    elif isinstance(v, ast.Call) and norm(v.func).startswith("super()"):
                        pass
                    elif isinstance(v, ast.Name) and v.id != m.params[1]:
                        # a local holding the prepared label, possibly lengthened by identifier characters (the suffix that
                        # separates two keys with the same label)
                        defs = [x for x in walk_no_nested(m.node) if isinstance(x, (ast.Assign, ast.AugAssign, ast.AnnAssign))
                                and norm(x.targets[0] if isinstance(x, ast.Assign) else x.target) == v.id]
                        base_defs = [x for x in defs if not isinstance(x, ast.AugAssign)]
                        good_base = bool(base_defs) and all(
                            isinstance(x.value, ast.Call) and norm(x.value.func) == "prepare_label" and x.value.args and
                            norm(x.value.args[0]) == m.params[1] and
                            {kw.arg: norm(kw.value) for kw in x.value.keywords}.get("to_snake_case") == snake and
                            {kw.arg: norm(kw.value) for kw in x.value.keywords}.get("convert_unicode") == "self.convert_unicode"
                            for x in base_defs)
                        good_aug = all(isinstance(x.op, ast.Add) and isinstance(x.value, ast.Constant) and isinstance(x.value.value, str)
                                       and x.value.value.replace("_", "a").isalnum() and x.value.value.isascii()
                                       for x in defs if isinstance(x, ast.AugAssign))
                        if not (good_base and good_aug):
                            ok = False
                            why.append(f"`{v.id}` is not prepare_label(...) plus identifier characters")
                    elif isinstance(v, ast.Name) and v.id == m.params[1]:
                        # returned unchanged only for constants tested by equality (sqlmodel's id / pk)
                        iff = m.module.parents.get(r)
                        if not (isinstance(iff, ast.If) and isinstance(iff.test, ast.Compare) and isinstance(
                                iff.test.ops[0], ast.In) and isinstance(iff.test.comparators[0], (ast.Tuple, ast.List, ast.Set)) and all(
                                isinstance(e, ast.Constant) and isinstance(e.value, str) and e.value.isidentifier()
                                for e in iff.test.comparators[0].elts)):
                            ok = False
                            why.append("returns the raw name")
                    else:
                        ok = False
                        why.append(norm(v)[:40])
                rr.ob(m.relpath, m.qualname, mname, f"`{mname}` is prepare_label(name, convert_unicode=self.convert_unicode, "
                      f"to_snake_case={snake})", DISCHARGED if ok else VIOLATED, "as required" if ok else f"deviates: {why}",
                      m.node.lineno)
    return rr


def rule_dup1(ctx: Ctx) -> RuleResult:
    rr = RuleResult("DUP-1", "every model whose name is already taken gets its index appended", floor=2)
    prog = ctx.prog
    f = prog.func("json_to_models/registry.py", "ModelRegistry.fix_name_duplicates")
    loops = [n for n in walk_no_nested(f.node) if isinstance(n, ast.For) and norm(n.iter) in ("self.models", "self._registry.values()")]
    if not loops:
        raise AnalysisError("DUP-1: loop over all models not found in fix_name_duplicates")
    lp = loops[0]
    mv = norm(lp.target)
    paths = enumerate_paths(lp.body)
    renames = 0
    from .naming import rule_uniq2
    try:
        u2 = rule_uniq2(ctx)
        later_dedupe = bool(u2.obligations) and all(o.verdict != VIOLATED for o in u2.obligations)
    except AnalysisError:
        later_dedupe = False
    for p in paths:
        rr.instances += 1
        counted = any((isinstance(s, ast.AugAssign) and "counter" in norm(s.target)) or (
            isinstance(s, ast.Assign) and isinstance(s.targets[0], ast.Subscript) and "counter" in norm(s.targets[0].value))
            for s in p.stmts())
        renamed = any(isinstance(s, ast.Expr) and isinstance(s.value, ast.Call) and norm(s.value.func) == f"{mv}.set_raw_name"
                      for s in p.stmts())
        gt1 = None
        others = []
        for c, tv in p.conds():
            if "counter" in norm(c) and isinstance(c, ast.Compare):
                gt1 = _eval_cmp(c, {norm(c.left): 2}) if tv else (not _eval_cmp(c, {norm(c.left): 2}))
            else:
                others.append((norm(c), tv))
        renames += renamed
        # a path where the count exceeds 1 must rename, whatever else holds
        dup = any("counter" in norm(c) and tv and _eval_cmp(c, {norm(c.left): 2}) for c, tv in p.conds())
        ok = counted and (renamed or not dup)
        if not ok and counted and dup and not renamed and later_dedupe:
            # the generators de-duplicate the class names again after normalising them (UNIQ-2 decides that step): a duplicate
            # the registry leaves under some condition does not reach the generated module
            rr.ob(f.relpath, f.qualname, p.describe()[:90], "a model whose name is taken is renamed before its class is emitted",
                  DISCHARGED, f"not renamed here because of {others}; renamed by the de-duplication after normalisation (UNIQ-2)", lp.lineno)
            renames += 1
            continue
        rr.ob(f.relpath, f.qualname, p.describe()[:90], "a model is counted, and renamed whenever its name was seen before - "
              "independently of how the name was obtained", DISCHARGED if ok else VIOLATED,
              "counted" + (", renamed" if renamed else "") if ok else
              (f"the name is taken (count > 1) but the path does not rename because of {others}: two classes with one name "
               f"are emitted and the later shadows the earlier" if dup and not renamed else "model not counted"),
              lp.lineno)
    if not renames:
        rr.instances += 1
        rr.ob(f.relpath, f.qualname, "set_raw_name", "duplicates are renamed", VIOLATED, "no renaming path at all", lp.lineno)
    # the counter belongs to this call: it starts empty every time names are fixed
    rr.instances += 1
    cdefs = [n for n in walk_no_nested(f.node) if isinstance(n, (ast.Assign, ast.AnnAssign)) and getattr(n, "value", None) is not None
             and isinstance((n.targets[0] if isinstance(n, ast.Assign) else n.target), (ast.Name, ast.Attribute))
             and "counter" in norm(n.targets[0] if isinstance(n, ast.Assign) else n.target)]
    fresh = bool(cdefs) and all(isinstance(d.value, (ast.Call, ast.Dict)) and not any(
        isinstance(x, ast.Attribute) and isinstance(x.value, ast.Name) and x.value.id == "self" for x in ast.walk(d.value)) and
        isinstance((d.targets[0] if isinstance(d, ast.Assign) else d.target), ast.Name) for d in cdefs)
    rr.ob(f.relpath, f.qualname, norm(cdefs[0])[:60] if cdefs else "counter", "the count of names starts from zero each time the "
          "names are fixed: naming the same registry again (another framework, another layout) gives the same names",
          DISCHARGED if fresh else VIOLATED, "a fresh local counter" if fresh else
          "the counter lives on the registry (or outside the call): counts of an earlier naming pass are still there, and from the "
          "second pass on every model gets its index appended", f.node.lineno)
    # generate_names calls it after all names exist
    g = prog.func("json_to_models/registry.py", "ModelRegistry.generate_names")
    rr.instances += 1
    last = g.node.body[-1]
    ok = isinstance(last, ast.Expr) and isinstance(last.value, ast.Call) and norm(last.value.func) == "self.fix_name_duplicates"
    rr.ob(g.relpath, g.qualname, norm(last)[:50], "de-duplication runs after every model has its name", DISCHARGED if ok else VIOLATED,
          "last statement of generate_names" if ok else "not the final step", g.node.lineno)
    return rr


# ---------------------------------------------------------------------------------------------------------------
DEFAULT_KEYS = {"default", "factory", "default_factory"}


def _simulate(p: Path):
    """Walk a path keeping the keys stored in local dicts and constants bound to locals; None if a decided condition
    contradicts that state (infeasible path).  Returns (dict keys per variable, constants per local)."""
    dicts: Dict[str, Optional[List[str]]] = {}
    consts: Dict[str, object] = {}
    UNK = object()

    def ev(test: ast.AST):
        t = norm(test)
        if isinstance(test, ast.Name):
            if test.id in dicts and dicts[test.id] is not None:
                return len(dicts[test.id]) > 0
            if test.id in consts and consts[test.id] is not UNK:
                return bool(consts[test.id])
            return None
        if isinstance(test, ast.Compare) and len(test.ops) == 1:
            l, r, op = test.left, test.comparators[0], test.ops[0]
            if isinstance(l, ast.Call) and norm(l.func) == "len" and l.args and isinstance(l.args[0], ast.Name) and \
                    dicts.get(l.args[0].id) is not None and isinstance(r, ast.Constant):
                n = len(dicts[l.args[0].id])
                return {ast.Eq: n == r.value, ast.NotEq: n != r.value, ast.Gt: n > r.value, ast.Lt: n < r.value,
                        ast.GtE: n >= r.value, ast.LtE: n <= r.value}.get(type(op))
            if isinstance(l, ast.Call) and norm(l.func) in ("list", "tuple") and len(l.args) == 1 and isinstance(op, (ast.Eq, ast.NotEq)) \
                    and isinstance(r, (ast.List, ast.Tuple)) and all(isinstance(e, ast.Constant) for e in r.elts) \
                    and isinstance(r, ast.List) == (norm(l.func) == "list"):
                for nm, keys in dicts.items():
                    if keys is not None and norm(l.args[0]) in (nm, f"{nm}.keys()"):
                        same = list(keys) == [e.value for e in r.elts]
                        return same if isinstance(op, ast.Eq) else not same
            if isinstance(l, ast.Call) and norm(l.func) == "next" and isinstance(r, ast.Constant):
                for nm, keys in dicts.items():
                    if keys is not None and norm(l) in (f"next(iter({nm}.keys()))", f"next(iter({nm}))"):
                        if not keys:
                            return None
                        return (keys[0] == r.value) if isinstance(op, ast.Eq) else (keys[0] != r.value)
            if isinstance(l, ast.Name) and l.id in consts and consts[l.id] is not UNK and isinstance(r, ast.Constant) \
                    and r.value is None and isinstance(op, (ast.Is, ast.IsNot)):
                isn = consts[l.id] is None
                return isn if isinstance(op, ast.Is) else not isn
            if isinstance(l, ast.Constant) and isinstance(op, (ast.In, ast.NotIn)) and isinstance(r, ast.Name) and \
                    dicts.get(r.id) is not None:
                inn = l.value in dicts[r.id]
                return inn if isinstance(op, ast.In) else not inn
        return None

    for step in p.steps:
        if step[0] == "cond":
            v = ev(step[1])
            if v is not None and v != step[2]:
                return None
            continue
        st = step[1]
        if isinstance(st, (ast.Assign, ast.AnnAssign)):
            tg = st.targets[0] if isinstance(st, ast.Assign) else st.target
            val = st.value
            if isinstance(tg, ast.Name):
                if isinstance(val, ast.Dict) and not val.keys:
                    dicts[tg.id] = []
                elif isinstance(val, ast.Dict) and all(isinstance(k, ast.Constant) for k in val.keys):
                    dicts[tg.id] = [k.value for k in val.keys]
                elif isinstance(val, ast.Constant):
                    consts[tg.id] = val.value
                    dicts.pop(tg.id, None)
                elif val is None:
                    pass
                else:
                    consts[tg.id] = UNK
                    if tg.id in dicts or "kwargs" in tg.id:
                        dicts[tg.id] = None
            elif isinstance(tg, ast.Subscript) and isinstance(tg.value, ast.Name) and isinstance(tg.slice, ast.Constant):
                d = dicts.get(tg.value.id)
                if d is not None and tg.slice.value not in d:
                    d.append(tg.slice.value)
        for x in ast.walk(st):
            if isinstance(x, ast.Call) and isinstance(x.func, ast.Attribute) and x.func.attr in ("update", "setdefault") and \
                    isinstance(x.func.value, ast.Name) and dicts.get(x.func.value.id) is not None:
                keys = [k.arg for k in x.keywords if k.arg]
                if x.func.attr == "setdefault" and x.args and isinstance(x.args[0], ast.Constant):
                    keys.append(x.args[0].value)
                for a in x.args:
                    if isinstance(a, ast.Dict):
                        keys += [k.value for k in a.keys if isinstance(k, ast.Constant)]
                for k in keys:
                    if k not in dicts[x.func.value.id]:
                        dicts[x.func.value.id].append(k)
            if isinstance(x, ast.Call) and isinstance(x.func, ast.Attribute) and x.func.attr == "pop" and \
                    isinstance(x.func.value, ast.Name) and dicts.get(x.func.value.id) is not None and x.args and \
                    isinstance(x.args[0], ast.Constant) and x.args[0].value in dicts[x.func.value.id]:
                dicts[x.func.value.id].remove(x.args[0].value)
    return dicts, consts


def _field_data_table(ctx: Ctx, f: FuncInfo):
    """Per feasible path of a field_data implementation: optional?, container kind, kwargs, emitted body."""
    rows = []
    for p in enumerate_paths(f.node.body):
        if p.exit not in ("return", "fall"):
            continue
        if _simulate(p) is None:
            continue
        opt = p.truth("optional")
        kind = "scalar"
        for c, tv in p.conds():
            t = norm(c)
            if tv and t.startswith("isinstance(meta.type, DList"):
                kind = "list"
            if tv and t.startswith("isinstance(meta.type, DDict"):
                kind = "dict"
        body_set = None
        kwargs: Dict[str, str] = {}
        removed = set()
        for s in p.stmts():
            if isinstance(s, ast.Assign) and isinstance(s.targets[0], ast.Subscript):
                tgt = s.targets[0]
                base = norm(tgt.value)
                k = tgt.slice.value if isinstance(tgt.slice, ast.Constant) else norm(tgt.slice)
                if base in ("body_kwargs", "kwargs"):
                    kwargs[k] = norm(s.value)
                    removed.discard(k)
                if base == "data" and k == "body":
                    body_set = s.value
            if isinstance(s, ast.Assign) and isinstance(s.targets[0], ast.Name) and s.targets[0].id == "default":
                kwargs["default"] = norm(s.value)
            for x in ast.walk(s):
                if isinstance(x, ast.Call) and isinstance(x.func, ast.Attribute) and x.func.attr == "pop" and \
                        norm(x.func.value) in ("body_kwargs", "kwargs") and x.args and isinstance(x.args[0], ast.Constant):
                    removed.add(x.args[0].value)
                if isinstance(x, ast.Call) and isinstance(x.func, ast.Attribute) and x.func.attr == "update" and \
                        norm(x.func.value) in ("body_kwargs", "kwargs"):
                    for kw in x.keywords:
                        if kw.arg:
                            kwargs[kw.arg] = norm(kw.value)
                            removed.discard(kw.arg)
                    for a in x.args:
                        if isinstance(a, ast.Dict):
                            for k2, v2 in zip(a.keys, a.values):
                                if isinstance(k2, ast.Constant):
                                    kwargs[k2.value] = norm(v2)
                                    removed.discard(k2.value)
        rows.append({"optional": opt, "kind": kind, "kwargs": kwargs, "removed": removed, "body": body_set, "path": p})
    return rows


def _default_of(row) -> Optional[str]:
    """Canonical default carried to the emitted field body on this path: 'list' | 'dict' | 'None' | None."""
    kw = {k: v for k, v in row["kwargs"].items() if k not in row["removed"]}
    body = row["body"]
    cand = None
    for k in ("factory", "default_factory", "default"):
        if k in kw:
            v = kw[k].strip("'\"")
            cand = {"[]": "list", "{}": "dict"}.get(v, v)
            if v in ("None",) and kw[k] in ("None",):
                # python None assigned to `default` (pydantic: default: Optional[str] = None) means "no default"
                cand = None
            break
    if body is None:
        return None
    # the emitted body must actually carry the default: either it renders the kwargs or is the default itself
    bt = norm(body)
    if cand is None:
        return None
    if _renders_whole_dict(body) or "default" in bt:
        return cand
    return None


def rule_sib1_layout(ctx: Ctx) -> RuleResult:
    """C03's share of SIB-1: within the groups as sorted, defaults are exactly on the optional group (a field without
    default after one with default does not load).  Which group a field belongs to is C04's question."""
    return rule_sib1(ctx, include_sort=False)


def rule_sib1(ctx: Ctx, include_sort: bool = True) -> RuleResult:
    rr = RuleResult("SIB-1", "all generators give a field a default exactly when it is optional (empty container factories "
                    "for containers, None otherwise)", floor=9)
    prog = ctx.prog
    base = prog.cls(BASE, "GenericModelCodeGenerator")
    impls = [(k, f) for k in prog.subclasses(base, strict=True) for f in k.methods.get("field_data", [])]
    if len(impls) < 3:
        raise AnalysisError("SIB-1: fewer than three framework implementations of field_data")
    expect = {"list": "list", "dict": "dict", "scalar": "None"}
    for k, f in impls:
        rows = _field_data_table(ctx, f)
        rr.analysed.append(f"{f.key}: {len(rows)} paths")
        seen = set()
        for r in rows:
            if r["optional"] is None:
                continue
            d = _default_of(r)
            sig = (r["optional"], r["kind"] if r["optional"] else "any", d, r["path"].describe())
            if sig in seen:
                continue
            seen.add(sig)
            rr.instances += 1
            if r["optional"]:
                want = expect[r["kind"]]
                ok = d == want
                rr.ob(f.relpath, f.qualname, r["path"].describe()[:110],
                      f"an optional {r['kind']} field is emitted with default `{want}`", DISCHARGED if ok else VIOLATED,
                      f"default carried to the field body: {d}" + ("" if ok else
                      " - the field would be required (or get the wrong default) although it is optional"), f.node.lineno)
            else:
                ok = d is None
                rr.ob(f.relpath, f.qualname, r["path"].describe()[:110], "a required field has no default",
                      DISCHARGED if ok else VIOLATED, f"default: {d}", f.node.lineno)
    # the optional flag is the group index of sort_fields; a key is in the optional group iff its type is DOptional
    sf = prog.func("json_to_models/models/structure.py", "sort_fields")
    for p in (enumerate_paths([n for n in walk_no_nested(sf.node) if isinstance(n, ast.For)][0].body) if include_sort else []):
        rr.instances += 1
        is_opt = p.truth("isinstance(meta, DOptional)")
        dest = None
        for s in p.stmts():
            if isinstance(s, ast.Expr) and isinstance(s.value, ast.Call) and isinstance(s.value.func, ast.Attribute) \
                    and s.value.func.attr == "append":
                dest = norm(s.value.func.value)
        ok = (is_opt is True and dest == "optional") or (is_opt is False and dest != "optional" and dest is not None)
        rr.ob(sf.relpath, sf.qualname, p.describe()[:100], "a field is placed in the optional group iff its type is "
              "DOptional (decided before any other criterion)", DISCHARGED if ok else VIOLATED,
              f"isinstance(meta, DOptional)={is_opt} -> appended to `{dest}`" + ("" if ok else
              ": an optional field classified as required loses its default" if is_opt is None else ""), sf.node.lineno)
    # fields property passes bool(group index) as `optional`
    fp = prog.func(BASE, "GenericModelCodeGenerator.fields")
    rr.instances += 1
    def _groups(it: ast.AST) -> bool:
        # enumerate((required, optional)), or the pairs written out: ((False, required), (True, optional)) / (0, ..), (1, ..)
        if norm(it) in ("enumerate((required, optional))", "enumerate([required, optional])"):
            return True
        # zip((False, True), (required, optional))
        if isinstance(it, ast.Call) and norm(it.func) == "zip" and len(it.args) == 2 and all(isinstance(a, (ast.Tuple, ast.List)) and len(a.elts) == 2 for a in it.args):
            fl, gr = it.args
            return norm(gr.elts[0]) == "required" and norm(gr.elts[1]) == "optional" and all(isinstance(e, ast.Constant) for e in fl.elts) \
                and not fl.elts[0].value and bool(fl.elts[1].value)
        if isinstance(it, (ast.Tuple, ast.List)) and len(it.elts) == 2 and all(isinstance(e, ast.Tuple) and len(e.elts) == 2 for e in it.elts):
            (f0, g0), (f1, g1) = it.elts[0].elts, it.elts[1].elts
            return norm(g0) == "required" and norm(g1) == "optional" and isinstance(f0, ast.Constant) and isinstance(f1, ast.Constant) \
                and not f0.value and f1.value is not None and bool(f1.value)
        return False
    ok = any(isinstance(n, ast.For) and _groups(n.iter) for n in walk_no_nested(fp.node)) and \
        any(isinstance(n, ast.Call) and norm(n.func) == "self.field_data" and len(n.args) == 3 and
            norm(n.args[2]) in ("bool(is_optional)", "is_optional == 1") for n in walk_no_nested(fp.node))
    rr.ob(fp.relpath, fp.qualname, "field_data(field, type, bool(is_optional))", "the optional flag given to field_data is "
          "the group the field was sorted into", DISCHARGED if ok else VIOLATED, "enumerate((required, optional))" if ok else
          "flag has another origin", fp.node.lineno)
    return rr


def rule_sib2(ctx: Ctx) -> RuleResult:
    rr = RuleResult("SIB-2", "the original key is attached whenever the field name differs from it", floor=3)
    prog = ctx.prog
    base = prog.cls(BASE, "GenericModelCodeGenerator")
    n_impl = 0
    for k in prog.subclasses(base, strict=True):
        for mname in ("field_data", "_get_field_kwargs"):
            for f in k.methods.get(mname, []):
                attach = [n for n in walk_no_nested(f.node) if isinstance(n, ast.Assign) and isinstance(n.targets[0], ast.Subscript)
                          and isinstance(n.targets[0].slice, ast.Constant) and n.targets[0].slice.value in ("alias", "metadata")]
                if not attach:
                    continue
                n_impl += 1
                key = attach[0].targets[0].slice.value
                rows = _field_data_table(ctx, f) if mname == "field_data" else None
                paths = enumerate_paths(f.node.body)
                for p in paths:
                    if p.exit not in ("return", "fall") or _simulate(p) is None:
                        continue
                    differs = p.truth("name != data['name']")
                    meta_on = p.truth("self.no_meta")
                    attached = any(s is attach[0] or (isinstance(s, ast.Assign) and isinstance(s.targets[0], ast.Subscript)
                                                      and isinstance(s.targets[0].slice, ast.Constant)
                                                      and s.targets[0].slice.value == key) for s in p.stmts())
                    # the attached kwargs must survive to the emitted body
                    lost = False
                    if mname == "field_data":
                        body = None
                        for s in p.stmts():
                            if isinstance(s, ast.Assign) and norm(s.targets[0]) in ("data['body']",):
                                body = s.value
                        if attached and not _renders_whole_dict(body):
                            lost = True
                    need = differs is True and (key == "alias" or meta_on is False)
                    if differs is None and not attached:
                        # the comparison was never reached: fine only if metadata is switched off on this path
                        if key != "alias" and meta_on is True:
                            continue
                        rr.instances += 1
                        rr.ob(f.relpath, f.qualname, p.describe()[:110],
                              f"every way out of {mname} first decides whether the name differs from the key", VIOLATED,
                              f"this path returns without ever comparing the emitted name with the key, so `{key}` is never "
                              f"attached on it", f.node.lineno)
                        continue
                    rr.instances += 1
                    st = (f"when the emitted name differs from the key" + ("" if key == "alias" else " and metadata is enabled")
                          + f", `{key}` carrying the original key reaches the emitted field body")
                    ok = (attached and not lost) if need else True
                    val_ok = True
                    if attached:
                        v = attach[0].value
                        val_ok = "name" in names_in(v) and "data" not in norm(v)
                    rr.ob(f.relpath, f.qualname, p.describe()[:110], st, DISCHARGED if ok and val_ok else VIOLATED,
                          ("attached" if attached else "not needed") if ok and val_ok else
                          ("the kwargs holding it are not rendered on this path: the original key is lost" if lost else
                           ("the attached value is not the original key" if not val_ok else
                            "the name differs but nothing is attached on this path")), f.node.lineno)
    if n_impl < 3:
        raise AnalysisError(f"SIB-2: only {n_impl} implementations attach the original key")
    # overrides that extend the inherited kwargs must keep them (the alias lives there)
    def _is_super_kwargs(e):
        return isinstance(e, ast.Call) and norm(e.func).startswith("super()") and norm(e.func).endswith("._get_field_kwargs")
    for k in prog.subclasses(base, strict=True):
        for f in k.methods.get("_get_field_kwargs", []):
            own_attach = any(isinstance(n, ast.Assign) and isinstance(n.targets[0], ast.Subscript)
                             and isinstance(n.targets[0].slice, ast.Constant) and n.targets[0].slice.value in ("alias", "metadata")
                             for n in walk_no_nested(f.node))
            if own_attach:
                continue        # judged above, path by path
            inherited_attaches = any(
                any(isinstance(n, ast.Assign) and isinstance(n.targets[0], ast.Subscript) and isinstance(n.targets[0].slice, ast.Constant)
                    and n.targets[0].slice.value in ("alias", "metadata") for n in walk_no_nested(g.node))
                for a in prog.mro(k)[1:] for g in a.methods.get("_get_field_kwargs", []))
            if not inherited_attaches:
                continue
            sup = [n for n in walk_no_nested(f.node) if isinstance(n, ast.Assign) and _is_super_kwargs(n.value)]
            rr.instances += 1
            var = norm(sup[0].targets[0]) if sup else None
            rebinds = [n for n in walk_no_nested(f.node) if var and isinstance(n, (ast.Assign, ast.AugAssign)) and n not in sup
                       and any(norm(t) == var for t in (n.targets if isinstance(n, ast.Assign) else [n.target]))]
            dels = [n for n in walk_no_nested(f.node) if var and isinstance(n, ast.Call) and isinstance(n.func, ast.Attribute)
                    and norm(n.func.value) == var and n.func.attr in ("pop", "clear", "popitem")]
            rets = [n for n in walk_no_nested(f.node) if isinstance(n, ast.Return)]
            bad_rets = [r for r in rets if not (r.value is not None and ((var and norm(r.value) == var) or _is_super_kwargs(r.value)))]
            # the variable must hold the inherited dict at every return that uses it
            if var and not bad_rets:
                for r in rets:
                    if norm(r.value) == var:
                        ds = ctx.defs_reaching(f, r, var) or []
                        if not ds or any(d not in sup for d in ds):
                            bad_rets.append(r)
            ok = not rebinds and not dels and not bad_rets and bool(rets)
            what = norm(sup[0]) if sup else (norm(rets[0]) if rets else f.name)
            rr.ob(f.relpath, f.qualname, what, "an override that adds field arguments returns the inherited ones too "
                  "(the alias carrying the original key is among them)", DISCHARGED if ok else VIOLATED,
                  "every way out returns the inherited dict, only extended" if ok else
                  (f"`{norm(rebinds[0])[:60]}` replaces the inherited arguments: the alias is lost on that path" if rebinds else
                   (f"`{norm(bad_rets[0])[:60]}` returns arguments that do not come from the inherited method: the alias is lost "
                    f"on that path" if bad_rets else "inherited arguments are removed or nothing is returned")), f.node.lineno)
    return rr


def _renders_whole_dict(body: Optional[ast.AST]) -> bool:
    """The emitted field body renders the complete kwargs dict (not one picked entry)."""
    if body is None:
        return False
    sub_values = {id(x.value) for x in ast.walk(body) if isinstance(x, ast.Subscript)}
    for x in ast.walk(body):
        if isinstance(x, ast.Name) and "kwargs" in x.id and id(x) not in sub_values:
            return True
    return False


def rule_tbl1(ctx: Ctx) -> RuleResult:
    rr = RuleResult("TBL-1", "each IR wrapper renders as its typing counterpart", floor=5)
    prog = ctx.prog
    want = {"DOptional": "Optional", "DUnion": "Union", "DList": "List", "DTuple": "Tuple", "DDict": "Dict"}
    for cname, tname in want.items():
        c = prog.cls(CPLX, cname)
        rr.instances += 1
        v = prog.lookup_class_attr(c, "_typing_cls")
        ok = v is not None and v.value is not None and norm(v.value) == tname
        rr.ob(c.module.relpath, c.qualname, f"_typing_cls = {norm(v.value) if v and v.value is not None else '?'}",
              f"{cname} renders as typing.{tname}", DISCHARGED if ok else VIOLATED, "matches" if ok else "mismatch", c.node.lineno)
    # the generic renderers use _typing_cls._name for both the import and the code
    for cname in ("SingleType", "ComplexType"):
        f = prog.func(CPLX, f"{cname}.to_typing_code")
        rr.instances += 1
        t = norm(f.node)
        ok = t.count("self._typing_cls._name") >= 2 and "self._typing_cls.__module__" in t
        rr.ob(f.relpath, f.qualname, "(_typing_cls.__module__, _typing_cls._name) / f'{_typing_cls._name}[...]'",
              "import and code use the same typing name", DISCHARGED if ok else VIOLATED, "consistent" if ok else "diverge",
              f.node.lineno)
    dd = prog.func(CPLX, "DDict.to_typing_code")
    rr.instances += 1
    ok = "Dict[str, {nested}]" in norm(dd.node) and "('typing', 'Dict')" in norm(dd.node)
    rr.ob(dd.relpath, dd.qualname, "Dict[str, {nested}]", "mappings render as Dict[str, T] and import Dict", DISCHARGED if ok else VIOLATED,
          "ok" if ok else "changed", dd.node.lineno)
    return rr


def rule_fwd1(ctx: Ctx) -> RuleResult:
    rr = RuleResult("FWD-1", "model references are emitted as quoted (forward) references of sanitised names", floor=1)
    ss = StrSym(ctx, opaque=LABELERS, max_depth=1)
    f = ctx.prog.func("json_to_models/dynamic_typing/models_meta.py", "AbsoluteModelRef.to_typing_code")
    rets = [n for n in walk_no_nested(f.node) if isinstance(n, ast.Return) and isinstance(n.value, ast.Tuple)]
    for r in rets:
        for v in ss.variants(f, f.module, r.value.elts[1]):
            rr.instances += 1
            t = text_of(v, "X")
            ok = len(t) >= 2 and t[0] == t[-1] and t[0] in "'\"" and t.count(t[0]) == 2
            holes = [a for a in v if a[0] == "hole"]
            joined = all(any(w.startswith("join('.')") for w in a[2]) for a in holes)
            rr.ob(f.relpath, f.qualname, describe(v), "a reference to a model is a string literal (never a bare name that "
                  "must already exist) whose body is dotted class names", DISCHARGED if ok and joined else VIOLATED,
                  "quoted; components joined with '.'" if ok and joined else "not a quoted dotted name", r.lineno)
    mp = ctx.prog.func("json_to_models/dynamic_typing/models_meta.py", "ModelPtr.to_typing_code")
    rr.instances += 1
    ok = "AbsoluteModelRef(self.type).to_typing_code" in norm(mp.node)
    rr.ob(mp.relpath, mp.qualname, "AbsoluteModelRef(self.type).to_typing_code(...)", "pointers render through the absolute "
          "reference", DISCHARGED if ok else VIOLATED, "ok" if ok else "pointer rendering bypasses the quoted reference",
          mp.node.lineno)
    if not rets:
        raise AnalysisError("FWD-1: AbsoluteModelRef.to_typing_code has no (imports, code) return")
    return rr


def rule_inj5(ctx: Ctx) -> RuleResult:
    """Emitted source is split / joined on '\\n' only: str.splitlines() also breaks on U+2028, U+2029, U+0085, form feed..."""
    rr = RuleResult("INJ-5", "generated source text is re-indented line by line on '\\n' only", floor=1)
    prog = ctx.prog
    cone = ctx.cg.reachable([prog.func(BASE, "generate_code")], byname=True)
    ind = prog.func("json_to_models/models/utils.py", "indent")
    for f in sorted(cone | {ind}, key=lambda x: x.key):
        if not f.relpath.startswith("json_to_models/models/"):
            continue
        for n in walk_no_nested(f.node):
            if isinstance(n, ast.Call) and isinstance(n.func, ast.Attribute) and n.func.attr in ("splitlines", "split", "rsplit", "partition"):
                if n.func.attr == "splitlines":
                    rr.instances += 1
                    rr.ob(f.relpath, f.qualname, norm(n)[:60], "a string literal in the emitted code may contain any character "
                          "(keys, literal members, aliases are written raw): only '\\n' ends a source line", VIOLATED,
                          "str.splitlines() also splits at U+2028 / U+2029 / U+0085 / FF / VT inside string literals: the "
                          "literal is cut in two and the module does not compile", n.lineno)
                elif f is ind and n.args and isinstance(n.args[0], ast.Constant):
                    rr.instances += 1
                    ok = n.args[0].value == "\n"
                    rr.ob(f.relpath, f.qualname, norm(n)[:60], "indentation splits on the newline character", DISCHARGED if ok else VIOLATED,
                          "split on '\\n'" if ok else f"splits on {n.args[0].value!r}", n.lineno)
    if rr.instances == 0:
        raise AnalysisError("INJ-5: indent() no longer splits its input (anchor vanished)")
    return rr


# ---------------------------------------------------------------------------------------------------------------
def rule_kw1(ctx: Ctx) -> RuleResult:
    """sort_kwargs only re-orders: every keyword argument of a field survives (the default, the alias, the metadata)."""
    rr = RuleResult("KW-1", "ordering the field arguments loses none of them", floor=2)
    f = ctx.prog.func(BASE, "sort_kwargs")
    p = f.params[0]
    rets = [n for n in walk_no_nested(f.node) if isinstance(n, ast.Return) and n.value is not None]
    if not rets:
        raise AnalysisError("KW-1: sort_kwargs returns nothing")
    # what the returned mapping is made of
    rv = rets[-1].value
    if isinstance(rv, ast.Name):
        defs = [n for n in walk_no_nested(f.node) if isinstance(n, ast.Assign) and norm(n.targets[0]) == rv.id]
        if len(defs) == 1:
            rv = defs[0].value
    parts: List[str] = []
    if isinstance(rv, ast.Dict):
        for k, v in zip(rv.keys, rv.values):
            if k is None:
                parts.append(norm(v))
    elif isinstance(rv, ast.Call) and norm(rv.func) in ("dict", "OrderedDict"):
        parts += [norm(a) for a in rv.args] + [norm(k.value) for k in rv.keywords if k.arg is None]
    # every value taken out of the input goes into a part of the result
    rr.instances += 1
    pops = [n for n in walk_no_nested(f.node) if isinstance(n, ast.Call) and isinstance(n.func, ast.Attribute) and n.func.attr == "pop"
            and norm(n.func.value) == p]
    lost = []
    sinks = set()
    for c in pops:
        st_ = f.module.parents.get(c)
        while st_ is not None and not isinstance(st_, ast.stmt):
            st_ = f.module.parents.get(st_)
        kept = None
        if isinstance(st_, ast.Assign):
            t = st_.targets[0]
            if isinstance(t, ast.Subscript):
                kept = norm(t.value)
            elif isinstance(t, ast.Name):
                # value bound to a local, then stored
                for n in walk_no_nested(f.node):
                    if isinstance(n, ast.Assign) and isinstance(n.targets[0], ast.Subscript) and norm(n.value) == t.id:
                        kept = norm(n.targets[0].value)
        if kept is None:
            lost.append(c)
        else:
            sinks.add(kept)
    # `current` style aliases: resolve to the dicts they can denote
    alias = {}
    for n in walk_no_nested(f.node):
        if isinstance(n, ast.Assign) and isinstance(n.targets[0], ast.Name) and isinstance(n.value, ast.Name):
            alias.setdefault(n.targets[0].id, set()).add(n.value.id)
    real = set()
    for s_ in sinks:
        real |= alias.get(s_, {s_})
    missing = sorted(x for x in real if x not in parts)
    ok = not lost and not missing
    rr.ob(f.relpath, f.qualname, norm(rets[-1])[:80], "every argument taken out of the input mapping is put into a mapping that is "
          "part of the result", DISCHARGED if ok else VIOLATED,
          f"popped values go to {sorted(real)}, all merged into the result" if ok else
          (f"`{norm(lost[0])}` discards the value" if lost else f"{missing} receive arguments but are not part of the returned mapping"),
          rets[-1].lineno)
    rr.instances += 1
    ok2 = p in parts
    rr.ob(f.relpath, f.qualname, norm(rets[-1])[:80], "arguments that no ordering group mentions stay in the result",
          DISCHARGED if ok2 else VIOLATED, "the remainder of the input is merged in" if ok2 else
          f"the remainder of `{p}` is not part of the returned mapping {parts}: arguments outside the ordering table (e.g. alias, "
          f"default) are dropped", rets[-1].lineno)
    return rr


# ---------------------------------------------------------------------------------------------------------------
def rule_annot1(ctx: Ctx) -> RuleResult:
    """ANNOT-1: the annotation text produced by the type renderer reaches the field line as it is."""
    rr = RuleResult("ANNOT-1", "the rendered annotation is emitted verbatim", floor=1)
    prog = ctx.prog
    base = prog.cls(BASE, "GenericModelCodeGenerator")
    n = 0
    for k in prog.subclasses(base):
        for f in k.methods.get("field_data", []):
            # the local that receives the text of metadata_to_typing(...)
            tv = None
            for a in walk_no_nested(f.node):
                if isinstance(a, ast.Assign) and isinstance(a.value, ast.Call) and norm(a.value.func).endswith("metadata_to_typing") \
                        and isinstance(a.targets[0], ast.Tuple) and len(a.targets[0].elts) == 2:
                    tv = norm(a.targets[0].elts[1])
            if tv is None:
                continue
            n += 1
            rr.instances += 1
            redefs = [a for a in walk_no_nested(f.node) if isinstance(a, (ast.Assign, ast.AugAssign)) and not (
                isinstance(a, ast.Assign) and isinstance(a.value, ast.Call) and norm(a.value.func).endswith("metadata_to_typing"))
                and any(norm(t) == tv for t in (a.targets if isinstance(a, ast.Assign) else [a.target]))]
            emitted = [v for d in walk_no_nested(f.node) if isinstance(d, ast.Dict) for k_, v in zip(d.keys, d.values)
                       if isinstance(k_, ast.Constant) and k_.value == "type"]
            plain = all(norm(v) == tv for v in emitted) and bool(emitted)
            ok = not redefs and plain
            rr.ob(f.relpath, f.qualname, f"'type': {norm(emitted[0])[:40] if emitted else '?'}",
                  "the text of the annotation (with the quoted members of a Literal in it) is not rewritten between the type renderer "
                  "and the field line", DISCHARGED if ok else VIOLATED,
                  "emitted as rendered" if ok else
                  (f"`{norm(redefs[0])[:60]}` rewrites the rendered annotation: string members of a Literal are changed with it "
                   f"(NFKC turns the ligature in \"ﬁle\" into \"file\")" if redefs else "the emitted type is not the rendered text"),
                  f.node.lineno)
    if n < 1:
        raise AnalysisError("ANNOT-1: no field_data renders an annotation through metadata_to_typing")
    return rr
