"""C06 rules: ORD-1 (no hash-/id-ordered iteration reaches an order-sensitive use), NDET-1 (nondeterministic
primitives only at listed sites). Also used by C16 (SEQ-1) and C09 (DET-2)."""
from __future__ import annotations

import ast
from typing import Dict, List, Optional, Set, Tuple

from ..ctx import Ctx
from ..effects import local_names, param_names
from ..model import AnalysisError, ClassInfo, ConstRef, External, FuncInfo, Module, attr_chain, norm, walk_no_nested
from ..report import ALLOWED, DISCHARGED, VIOLATED, RuleResult
from ..util import all_defs, enclosing_loop, enclosing_stmt, names_in

SET_ANN = ("Set", "FrozenSet", "AbstractSet", "set", "frozenset", "MutableSet")
SET_CTORS = {"set", "frozenset"}
SET_METHODS_RET_SET = {"union", "intersection", "difference", "symmetric_difference", "copy"}
ORDER_NEUTRAL_CALLS = {"sorted", "set", "frozenset", "any", "all", "len", "sum", "min", "max", "bool", "isinstance",
                       "Counter", "collections.Counter"}
SEQ_PRESERVING = {"list", "tuple", "iter", "enumerate", "zip", "map", "filter", "chain", "itertools.chain", "reversed",
                  "chain.from_iterable", "itertools.chain.from_iterable", "permutations", "combinations", "product",
                  "itertools.permutations", "itertools.combinations", "itertools.product", "OrderedSet", "dict",
                  "dict.fromkeys", "islice", "itertools.islice", "next", "str", "repr", "deque"}

# reasoned allow-list: (relpath, qualname, normalised exposure text) -> reason.  One construct wide each.
ALLOW: Dict[Tuple[str, str, str], str] = {
    ("json_to_models/models/structure.py", "compose_models", "extract_root(model)"):
        "`roots` list: read only under len()==1, or through insert_before(), which takes min() of the found positions",
    ("json_to_models/models/structure.py", "compose_models_flat", "extract_root(model)"):
        "`roots` list: read only through len() in the flat layout",
    ("json_to_models/utils.py", "distinct_words", "words"):
        "computes the substring-minimal words (an antichain, unique whatever the visiting order); both callers sort "
        "the returned set",
}


KEY_ALLOW: Dict[Tuple[str, str, str], str] = {
    ("json_to_models/registry.py", "ModelRegistry.merge_models", "key=lambda model: order[model.index]"):
        "`order` maps each registry index to its position; indexes are unique per registry, so the key is injective",
}


class OrdAnalysis:
    def __init__(self, ctx: Ctx):
        self.ctx = ctx
        self.prog = ctx.prog
        self.unord_attrs: Set[str] = set()
        self.unord_globals: Set[Tuple[str, str]] = set()
        self.ret_unord: Set[str] = set()  # func key: returns an unordered collection
        self.ret_ordseq: Dict[str, str] = {}  # func key -> why: returns a sequence whose order came from a set
        self.elem_unord_attrs: Set[str] = set()  # attribute cells holding collections OF sets
        self._param_neutral_cache: Dict[Tuple[str, str], Optional[str]] = {}
        self._infer_cells()

    # -- annotations ------------------------------------------------------------------------------------------
    @staticmethod
    def ann_is_set(ann: Optional[ast.AST]) -> bool:
        if ann is None:
            return False
        if isinstance(ann, ast.Constant) and isinstance(ann.value, str):
            try:
                ann = ast.parse(ann.value, mode="eval").body
            except SyntaxError:
                return False
        base = ann.value if isinstance(ann, ast.Subscript) else ann
        return norm(base).split(".")[-1] in SET_ANN

    @staticmethod
    def ann_elem_is_set(ann: Optional[ast.AST]) -> bool:
        """Iterable[Set[..]], List[FrozenSet], OrderedSet[FrozenSet[..]], Dict[K, Set[..]] (values)."""
        if not isinstance(ann, ast.Subscript):
            return False
        sl = ann.slice
        elts = sl.elts if isinstance(sl, ast.Tuple) else [sl]
        last = elts[-1]
        return OrdAnalysis.ann_is_set(last)

    # -- cells ------------------------------------------------------------------------------------------------
    def _infer_cells(self):
        prog = self.prog
        changed = True
        rounds = 0
        while changed and rounds < 6:
            changed = False
            rounds += 1
            for m in prog.pkg_modules():
                for n in ast.walk(m.tree):
                    if isinstance(n, (ast.Assign, ast.AnnAssign)):
                        tgts = n.targets if isinstance(n, ast.Assign) else [n.target]
                        val = n.value
                        fi = m.func_of_node(n)
                        is_set = (isinstance(n, ast.AnnAssign) and self.ann_is_set(n.annotation)) or (
                            val is not None and self.is_unordered(fi, m, val))
                        for t in tgts:
                            if isinstance(t, ast.Attribute):
                                if is_set and t.attr not in self.unord_attrs:
                                    self.unord_attrs.add(t.attr)
                                    changed = True
                                if isinstance(n, ast.AnnAssign) and self.ann_elem_is_set(n.annotation):
                                    self.elem_unord_attrs.add(t.attr)
                            elif isinstance(t, ast.Name) and fi is None and is_set:
                                k = (m.relpath, t.id)
                                if k not in self.unord_globals:
                                    self.unord_globals.add(k)
                                    changed = True
                for f in m.all_funcs:
                    if f.key in self.ret_unord:
                        continue
                    if self.ann_is_set(f.node.returns):
                        self.ret_unord.add(f.key)
                        changed = True
                        continue
                    for n in walk_no_nested(f.node):
                        if isinstance(n, ast.Return) and n.value is not None and self.is_unordered(f, m, n.value):
                            self.ret_unord.add(f.key)
                            changed = True
                            break

    # -- expression typing --------------------------------------------------------------------------------------
    def is_unordered(self, fi: Optional[FuncInfo], mod: Module, e: ast.AST, depth: int = 0) -> bool:
        if depth > 6:
            return False
        if isinstance(e, (ast.Set, ast.SetComp)):
            return True
        if isinstance(e, ast.Call):
            fn = norm(e.func)
            if fn in SET_CTORS:
                return True
            if isinstance(e.func, ast.Attribute) and e.func.attr in SET_METHODS_RET_SET and \
                    self.is_unordered(fi, mod, e.func.value, depth + 1):
                return True
            if isinstance(e.func, ast.Attribute) and e.func.attr in ("get", "pop", "setdefault") and len(e.args) == 2 \
                    and self.is_unordered(fi, mod, e.args[1], depth + 1):
                return True
            for t in self.ctx.cg.resolve_call(fi, mod, e):
                tf = t[1] if isinstance(t, tuple) and t[0] == "byname" else t
                if isinstance(tf, FuncInfo) and tf.key in self.ret_unord:
                    if isinstance(t, tuple) and fn.split(".")[-1] in ("get", "pop", "copy", "keys", "values", "items"):
                        continue
                    return True
            return False
        if isinstance(e, ast.BinOp) and isinstance(e.op, (ast.BitOr, ast.BitAnd, ast.Sub, ast.BitXor)):
            if self.is_unordered(fi, mod, e.left, depth + 1) or self.is_unordered(fi, mod, e.right, depth + 1):
                return True
            # dict views: d.keys() & other
            for side in (e.left, e.right):
                if isinstance(side, ast.Call) and isinstance(side.func, ast.Attribute) and side.func.attr in ("keys", "items"):
                    return True
            return False
        if isinstance(e, ast.IfExp):
            return self.is_unordered(fi, mod, e.body, depth + 1) or self.is_unordered(fi, mod, e.orelse, depth + 1)
        if isinstance(e, ast.BoolOp):
            return any(self.is_unordered(fi, mod, v, depth + 1) for v in e.values)
        if isinstance(e, ast.Attribute):
            if e.attr in self.unord_attrs:
                return True
            # property returning a set
            for f in self.prog.methods_named(e.attr):
                if f.is_property and f.key in self.ret_unord:
                    return True
            return False
        if isinstance(e, ast.Subscript):
            # element of a collection of sets: defaultdict(set)[k], Dict[K, Set[V]][k]
            base = e.value
            if isinstance(base, ast.Name) and fi is not None:
                return self._name_elem_unordered(fi, mod, base.id, base)
            if isinstance(base, ast.Attribute) and base.attr in self.elem_unord_attrs:
                return True
            return False
        if isinstance(e, ast.Name):
            if fi is None:
                return (mod.relpath, e.id) in self.unord_globals
            return self._name_unordered(fi, mod, e.id, depth, e)
        if isinstance(e, ast.NamedExpr):
            return self.is_unordered(fi, mod, e.value, depth + 1)
        return False

    def _defs_for(self, f: FuncInfo, name: str, use: Optional[ast.AST]):
        """Definitions of a local name that can reach ``use`` (all definitions when the use cannot be located)."""
        defs = all_defs(f, name)
        if use is None:
            return defs, True
        # comprehension variables are scoped to their comprehension
        p = f.module.parents.get(use)
        while p is not None and p is not f.node:
            if isinstance(p, (ast.ListComp, ast.SetComp, ast.DictComp, ast.GeneratorExp)):
                for g in p.generators:
                    if name in names_in(g.target):
                        return [g], False
            p = f.module.parents.get(p)
        rd = self.ctx.defs_reaching(f, use, name)
        if rd is None:
            return defs, True
        keep = []
        is_param = any(d is f.node for d in rd)
        for d in defs:
            if isinstance(d, ast.comprehension):
                continue
            if any(d is r for r in rd):
                keep.append(d)
        return keep, is_param

    def _name_unordered(self, fi: FuncInfo, mod: Module, name: str, depth: int, use: Optional[ast.AST] = None) -> bool:
        f: Optional[FuncInfo] = fi
        first = True
        while f is not None:
            if name in local_names(f.node):
                defs, is_param = self._defs_for(f, name, use if first else None)
                if is_param:
                    a = f.node.args
                    for p in a.posonlyargs + a.args + a.kwonlyargs:
                        if p.arg == name and self.ann_is_set(p.annotation):
                            return True
                for d in defs:
                    if isinstance(d, ast.AnnAssign) and self.ann_is_set(d.annotation):
                        return True
                    if isinstance(d, (ast.Assign, ast.AnnAssign)) and d.value is not None:
                        tg = d.targets[0] if isinstance(d, ast.Assign) else d.target
                        if isinstance(tg, ast.Name) and self.is_unordered(f, mod, d.value, depth + 1):
                            return True
                    if isinstance(d, (ast.For, ast.comprehension)):
                        # loop variable over a collection of sets
                        if self._iter_elem_unordered(f, mod, d.iter, d.target, name):
                            return True
                return False
            f = f.parent
            first = False
        r = self.prog.resolve_global(mod, name)
        if isinstance(r, ConstRef):
            return (r.module.relpath, r.name) in self.unord_globals
        return False

    def _name_elem_unordered(self, fi: FuncInfo, mod: Module, name: str, use: Optional[ast.AST] = None) -> bool:
        defs, _ = self._defs_for(fi, name, use)
        for d in defs:
            if isinstance(d, ast.AnnAssign) and self.ann_elem_is_set(d.annotation) and (
                    d.value is None or not isinstance(d.value, ast.Call) or norm(d.value.func) not in ("dict", "sorted", "list")):
                return True
            v = getattr(d, "value", None)
            if isinstance(v, ast.Call) and norm(v.func).split(".")[-1] == "defaultdict" and v.args and \
                    norm(v.args[0]) in SET_CTORS:
                return True
            if isinstance(v, (ast.ListComp, ast.GeneratorExp)) and self.is_unordered(fi, mod, v.elt):
                return True
            if isinstance(v, ast.List) and any(self.is_unordered(fi, mod, x) for x in v.elts):
                return True
            if isinstance(v, ast.Name):
                if self._name_elem_unordered(fi, mod, v.id, d):
                    return True
        return False

    def _iter_elem_unordered(self, fi, mod, it: ast.AST, target: ast.AST, name: str) -> bool:
        # for a, b in X.items(): b is the value
        if isinstance(it, ast.Call) and isinstance(it.func, ast.Attribute) and it.func.attr in ("items", "values"):
            base = it.func.value
            is_val = (it.func.attr == "values" and isinstance(target, ast.Name)) or (
                it.func.attr == "items" and isinstance(target, ast.Tuple) and len(target.elts) == 2
                and isinstance(target.elts[1], ast.Name) and target.elts[1].id == name)
            if is_val and isinstance(base, ast.Name):
                return self._name_elem_unordered(fi, mod, base.id, base)
            if is_val and isinstance(base, ast.Attribute):
                return base.attr in self.elem_unord_attrs
            return False
        if isinstance(target, ast.Name) and target.id == name:
            if isinstance(it, ast.Name):
                return self._name_elem_unordered(fi, mod, it.id, it)
            if isinstance(it, ast.Attribute):
                return it.attr in self.elem_unord_attrs
        return False


# ---------------------------------------------------------------------------------------------------------------
class Exposure:
    def __init__(self, fi: Optional[FuncInfo], mod: Module, src: ast.AST, how: str, node: ast.AST):
        self.fi, self.mod, self.src, self.how, self.node = fi, mod, src, how, node


def find_exposures(ctx: Ctx, oa: OrdAnalysis) -> List[Exposure]:
    out: List[Exposure] = []
    for m in ctx.prog.pkg_modules():
        for n in ast.walk(m.tree):
            fi = m.func_of_node(n) if not isinstance(n, (ast.FunctionDef,)) else None
            if isinstance(n, ast.For):
                if oa.is_unordered(fi, m, n.iter):
                    out.append(Exposure(fi, m, n.iter, "for-loop", n))
            elif isinstance(n, (ast.ListComp, ast.GeneratorExp, ast.DictComp, ast.SetComp)):
                for g in n.generators:
                    if oa.is_unordered(fi, m, g.iter):
                        if isinstance(n, ast.SetComp):
                            continue  # a set built from a set: order never observed
                        out.append(Exposure(fi, m, g.iter, type(n).__name__, n))
            elif isinstance(n, ast.Call):
                fn = norm(n.func)
                short = fn.split(".")[-1]
                if (fn in SEQ_PRESERVING or short in ("join",)) and n.args:
                    for a in n.args:
                        if isinstance(a, ast.Starred):
                            continue
                        if oa.is_unordered(fi, m, a):
                            if short == "join" and not isinstance(n.func, ast.Attribute):
                                continue
                            out.append(Exposure(fi, m, a, f"{fn}()", n))
                if fn == "sorted" and n.args and any(k.arg == "key" for k in n.keywords) and \
                        oa.is_unordered(fi, m, n.args[0]):
                    out.append(Exposure(fi, m, n.args[0], "sorted(key=...)", n))
                for a in n.args:
                    if isinstance(a, ast.Starred) and oa.is_unordered(fi, m, a.value):
                        par_ok = norm(n.func) in ORDER_NEUTRAL_CALLS
                        if not par_ok:
                            out.append(Exposure(fi, m, a.value, "*-unpacking into a call", n))
                if isinstance(n.func, ast.Attribute) and n.func.attr == "pop" and not n.args and \
                        oa.is_unordered(fi, m, n.func.value):
                    out.append(Exposure(fi, m, n.func.value, "set.pop()", n))
            elif isinstance(n, (ast.List, ast.Tuple)):
                for a in n.elts:
                    if isinstance(a, ast.Starred) and oa.is_unordered(fi, m, a.value):
                        out.append(Exposure(fi, m, a.value, "*-unpacking into a sequence display", n))
            elif isinstance(n, ast.JoinedStr):
                for v in n.values:
                    if isinstance(v, ast.FormattedValue) and oa.is_unordered(fi, m, v.value):
                        out.append(Exposure(fi, m, v.value, "f-string", n))
            elif isinstance(n, ast.Assign) and isinstance(n.targets[0], (ast.Tuple, ast.List)) and \
                    oa.is_unordered(fi, m, n.value):
                out.append(Exposure(fi, m, n.value, "tuple-unpacking", n))
    return out


class Discharger:
    """Decides whether the sequence produced by an exposure only flows into order-neutral consumers."""

    def __init__(self, ctx: Ctx, oa: OrdAnalysis):
        self.ctx, self.oa = ctx, oa
        self._param_neutral_cache: Dict[Tuple[str, str], Optional[str]] = {}
        self.allow_hits: List[tuple] = []
        self._acc_busy: Set[str] = set()
        self.trans_order_sensitive = self._order_sensitive_summaries()

    # functions that (transitively) append/insert into ordered containers or write dict keys / emit text
    def _order_sensitive_summaries(self) -> Dict[str, str]:
        ef = self.ctx.effects
        direct: Dict[str, str] = {}
        for f in self.ctx.prog.all_funcs():
            for w in ef.direct_writes(f):
                if w.kind == "mutcall":
                    meth = w.path.split(".")[-1]
                    if meth in ("append", "insert", "extend", "appendleft", "setdefault", "update", "sort"):
                        recv = w.node.func.value if isinstance(w.node, ast.Call) else None
                        if recv is not None and self.oa.is_unordered(f, f.module, recv):
                            continue
                        direct.setdefault(f.key, f"{w.path}() at line {w.line}")
                elif w.kind == "item" and w.root != "local":
                    if isinstance(w.node, ast.Assign):
                        # a table of the enclosing function that leaves it through sorted(...) only is not order-sensitive
                        tg = w.node.targets[0]
                        if f.parent is not None and isinstance(tg, ast.Subscript) and isinstance(tg.value, ast.Name) and \
                                self._only_read_sorted_closure(f, tg.value.id):
                            continue
                        direct.setdefault(f.key, f"{w.path} = ... at line {w.line}")
        trans = dict(direct)
        changed = True
        while changed:
            changed = False
            for f in self.ctx.prog.all_funcs():
                if f.key in trans:
                    continue
                for g in self.ctx.cg.callees(f, byname=False):
                    if g.key in trans:
                        trans[f.key] = f"calls {g.qualname} ({trans[g.key]})"
                        changed = True
                        break
        return trans

    def discharge(self, ex: Exposure, depth: int = 0) -> Tuple[bool, str]:
        n = ex.node
        mod, fi = ex.mod, ex.fi
        if isinstance(n, ast.For):
            return self._loop_commutative(fi, mod, n)
        if isinstance(n, ast.DictComp):
            return self._value_uses(fi, mod, n, "dict built in set order", depth)
        if isinstance(n, (ast.ListComp, ast.GeneratorExp, ast.Call, ast.List, ast.Tuple, ast.JoinedStr, ast.Assign)):
            if isinstance(n, ast.Call):
                fn = norm(n.func)
                if ex.how == "sorted(key=...)":
                    key = next(k.value for k in n.keywords if k.arg == "key")
                    return self._key_total(fi, mod, key)
                if fn.split(".")[-1] == "join":
                    return False, "joined into a string in set order"
                if ex.how.startswith("*-unpacking"):
                    return self._starred_into_call(fi, mod, n, ex, depth)
                if ex.how == "set.pop()":
                    return False, "set.pop() picks an arbitrary element"
            if isinstance(n, ast.JoinedStr):
                return False, "formatted into a string in set order"
            if isinstance(n, ast.Assign):
                return False, "tuple-unpacking assigns elements in set order"
            return self._value_uses(fi, mod, n, ex.how, depth)
        return False, f"unhandled exposure kind {type(n).__name__}"

    def _key_total(self, fi, mod, key: ast.AST) -> Tuple[bool, str]:
        """sorted(<set>, key=K) is deterministic only if K never ties on distinct elements."""
        if isinstance(key, ast.Lambda):
            arg = key.args.args[0].arg if key.args.args else None
            body = key.body
            # a tuple whose last component is the element itself breaks every tie
            if isinstance(body, ast.Tuple) and body.elts and norm(body.elts[-1]) == arg:
                return True, "sort key ends with the element itself (no ties)"
            if norm(body) == arg:
                return True, "identity key"
        ktxt = norm(key)
        if isinstance(key, ast.Lambda) and isinstance(key.body, ast.Tuple) and len(key.body.elts) == 1:
            # a one-element tuple orders exactly as its element
            ktxt = norm(ast.Lambda(args=key.args, body=key.body.elts[0]))
        k = (mod.relpath, fi.qualname if fi else "<module>", f"key={ktxt}")
        if k in KEY_ALLOW:
            self.allow_hits.append((k, getattr(key, "lineno", 0), "sort key accepted by table"))
            return True, KEY_ALLOW[k]
        return False, (f"sorted with key `{norm(key)[:60]}`: elements with equal keys stay in set order (the sort is "
                       f"stable), so ties are resolved by the hash seed")

    # -- loops ----------------------------------------------------------------------------------------------
    @staticmethod
    def _search_loop(lp: ast.For) -> bool:
        """`for x in S: if <test>: return <constant>` and nothing else: the loop answers "is there an element that ..." - every
        exit inside the loop returns the same constant, so it does not matter which element is met first."""
        consts = []

        def ok(stmts) -> bool:
            for st in stmts:
                if isinstance(st, (ast.Pass, ast.Continue)):
                    continue
                if isinstance(st, ast.If):
                    if any(isinstance(x, (ast.Call, ast.NamedExpr, ast.Await, ast.Yield)) and not (
                            isinstance(x, ast.Call) and isinstance(x.func, ast.Name) and x.func.id in ("len", "isinstance", "type", "str"))
                            and not (isinstance(x, ast.Call) and isinstance(x.func, ast.Attribute) and x.func.attr in (
                                "startswith", "endswith", "isdigit", "get", "match", "fullmatch", "search"))
                            for x in ast.walk(st.test)):
                        return False
                    if not ok(st.body) or not ok(st.orelse):
                        return False
                    continue
                if isinstance(st, ast.Return) and (st.value is None or isinstance(st.value, ast.Constant)):
                    consts.append(None if st.value is None else st.value.value)
                    continue
                return False
            return True

        return not lp.orelse and ok(lp.body) and bool(consts) and len({repr(c) for c in consts}) == 1

    def _loop_commutative(self, fi, mod, lp: ast.For) -> Tuple[bool, str]:
        lv = names_in(lp.target)
        if self._search_loop(lp):
            return True, "search loop: every exit inside the loop returns the same constant (an existence test)"
        for st in lp.body + lp.orelse:
            ok, why = self._stmt_commutative(fi, mod, st, lv, lp)
            if not ok:
                return False, why
        return True, "loop body has only per-element / set / flag effects (commutative over the elements)"

    def _stmt_commutative(self, fi, mod, st: ast.stmt, lv: Set[str], lp) -> Tuple[bool, str]:
        if isinstance(st, (ast.Pass, ast.Continue)):
            return True, ""
        if isinstance(st, (ast.Break, ast.Return)):
            return False, f"`{norm(st)[:40]}` leaves the loop at an element chosen by set order"
        if isinstance(st, ast.If):
            for s in st.body + st.orelse:
                ok, why = self._stmt_commutative(fi, mod, s, lv, lp)
                if not ok:
                    return False, why
            # the test may read the loop element and sets; if it reads a container the body writes, the effect of
            # one element depends on earlier ones (distinct_words): not commutative
            written = set()
            for s in st.body + st.orelse:
                for x in ast.walk(s):
                    if isinstance(x, ast.Call) and isinstance(x.func, ast.Attribute) and x.func.attr in (
                            "add", "remove", "discard", "update"):
                        c = attr_chain(x.func.value)
                        if c:
                            written.add(c[-1])
            outer_written = written
            tested = names_in(st.test) | {a.attr for a in ast.walk(st.test) if isinstance(a, ast.Attribute)}
            # membership of the *element* in a set being shrunk/grown by the same loop
            if tested & outer_written and not self._test_only_on_element(st.test, lv):
                return False, f"the condition `{norm(st.test)[:50]}` reads a set the loop itself updates"
            return True, ""
        if isinstance(st, ast.For):
            for s in st.body:
                ok, why = self._stmt_commutative(fi, mod, s, lv | names_in(st.target), lp)
                if not ok:
                    return False, why
            return True, ""
        if isinstance(st, ast.Expr) and isinstance(st.value, (ast.Yield, ast.YieldFrom)) and fi is not None:
            # a generator that yields in visiting order: what matters is what the callers do with the sequence
            return self._return_uses(fi, 1)
        if isinstance(st, ast.Expr) and isinstance(st.value, ast.Call):
            acc = self._accumulator(fi, mod, st.value)
            if acc is not None:
                return acc
            return self._call_commutative(fi, mod, st.value, lv)
        if isinstance(st, (ast.Assign, ast.AugAssign)):
            tgts = st.targets if isinstance(st, ast.Assign) else [st.target]
            for t in tgts:
                if isinstance(t, ast.Name):
                    # flag accumulation / counters / per-iteration temporaries
                    if isinstance(st, ast.AugAssign):
                        if isinstance(st.op, (ast.Add, ast.BitOr, ast.BitAnd)) and isinstance(st.value, (ast.Constant,)):
                            continue
                        return False, f"`{norm(st)[:50]}` accumulates in visiting order"
                    v = st.value
                    if isinstance(v, ast.Constant) and isinstance(v.value, bool):
                        continue
                    if isinstance(v, ast.BoolOp) and t.id in names_in(v):
                        continue
                    # temporaries used only inside the iteration
                    used_after = False
                    if fi is not None:
                        for x in walk_no_nested(fi.node):
                            if isinstance(x, ast.Name) and x.id == t.id and isinstance(x.ctx, ast.Load):
                                if not any(x is y for s in lp.body for y in ast.walk(s)):
                                    used_after = True
                    if used_after:
                        return False, f"`{t.id}` keeps the value of the last element visited (set order)"
                    continue
                if isinstance(t, ast.Subscript):
                    # D[x] = f(D[x]) for the loop element x: the key exists already, dict order untouched
                    if isinstance(t.slice, ast.Name) and t.slice.id in lv and any(
                            isinstance(x, ast.Subscript) and norm(x) == norm(t) and isinstance(x.ctx, ast.Load)
                            for x in ast.walk(st.value)):
                        continue
                    # the same entry was read earlier in this iteration (`cur = D[x]` ... `D[x] = f(cur)`): the read fails for a
                    # missing key, so the store replaces an existing entry and the order of the dict is untouched
                    if any(isinstance(x, ast.Subscript) and isinstance(x.ctx, ast.Load) and norm(x) == norm(t)
                           and (x.lineno, x.col_offset) < (st.lineno, st.col_offset) for b in lp.body for x in ast.walk(b)) and not any(
                            isinstance(x, ast.Delete) or (isinstance(x, ast.Call) and isinstance(x.func, ast.Attribute)
                                                          and x.func.attr in ("pop", "clear", "popitem") and norm(x.func.value) == norm(t.value))
                            for b in lp.body for x in ast.walk(b)):
                        continue
                    if self.oa.is_unordered(fi, mod, t.value):
                        continue
                    if isinstance(t.value, ast.Name) and fi is not None and self._only_read_sorted(fi, mod, t.value.id):
                        continue  # a local table whose content leaves the function through sorted(...) only
                    return False, f"`{norm(t)}` is inserted in visiting order"
                if isinstance(t, ast.Attribute):
                    base = attr_chain(t)
                    if base and base[0] in lv:
                        continue  # per-element attribute write
                    return False, f"`{norm(t)}` keeps the value of the last element visited"
            if isinstance(st.value, ast.Call):
                ok, why = self._call_commutative(fi, mod, st.value, lv)
                if not ok:
                    return False, why
            return True, ""
        if isinstance(st, ast.Delete):
            return True, ""
        return False, f"statement `{norm(st)[:50]}` not recognised as commutative"

    def _closure_worklist(self, fi, mod, name: str) -> bool:
        """`while W: x = W.pop() ... W.append(y)` with a visited table, no early exit, and every result returned through sorted(...)
        or as a set: which elements are reached does not depend on the visiting order."""
        loops = [n for n in walk_no_nested(fi.node) if isinstance(n, ast.While) and norm(n.test) == name]
        if len(loops) != 1:
            return False
        lp = loops[0]
        if not any(isinstance(x, ast.Call) and norm(x.func) == f"{name}.pop" for x in ast.walk(lp)):
            return False
        if any(isinstance(x, (ast.Break, ast.Return)) for x in ast.walk(lp)):
            return False
        rets = [r for r in walk_no_nested(fi.node) if isinstance(r, ast.Return) and r.value is not None]
        def _in_sorted_order(v: ast.AST) -> bool:
            if isinstance(v, ast.Call) and norm(v.func) == "sorted":
                return True
            # [T[k] for k in sorted(T)]: the entries of a table, in the order of its sorted keys
            return isinstance(v, (ast.ListComp, ast.GeneratorExp)) and len(v.generators) == 1 and not v.generators[0].ifs \
                and isinstance(v.generators[0].iter, ast.Call) and norm(v.generators[0].iter.func) == "sorted" \
                and not v.generators[0].iter.keywords and len(v.generators[0].iter.args) == 1
        return bool(rets) and all(_in_sorted_order(r.value) or self.oa.is_unordered(fi, mod, r.value) for r in rets)

    def _only_read_sorted_closure(self, f, name: str) -> bool:
        """`name` is a local of an enclosing function; all its reads (there and in the closures) are membership tests or inside
        sorted(...)."""
        top = f.parent
        while top is not None and name not in local_names(top.node):
            top = top.parent
        if top is None:
            return False
        if not self._only_read_sorted(top, top.module, name):
            return False
        for g in self.ctx.prog.all_funcs():
            if g.parent is top and name not in local_names(g.node):
                reads = [x for x in walk_no_nested(g.node) if isinstance(x, ast.Name) and x.id == name and isinstance(x.ctx, ast.Load)]
                for x in reads:
                    par = g.module.parents.get(x)
                    if isinstance(par, ast.Compare) and any(c is x for c in par.comparators) and all(isinstance(o, (ast.In, ast.NotIn)) for o in par.ops):
                        continue
                    if isinstance(par, ast.Subscript) and par.value is x and isinstance(par.ctx, ast.Store):
                        continue
                    return False
        return True

    @staticmethod
    def _only_read_sorted(fi, mod, name: str) -> bool:
        """Every read of the local `name` is a membership test or happens inside a sorted(...) call."""
        reads = [x for x in walk_no_nested(fi.node) if isinstance(x, ast.Name) and x.id == name and isinstance(x.ctx, ast.Load)]
        if not reads:
            return False
        for x in reads:
            par = mod.parents.get(x)
            if isinstance(par, ast.Compare) and any(c is x for c in par.comparators) and all(isinstance(o, (ast.In, ast.NotIn)) for o in par.ops):
                continue
            if isinstance(par, ast.Subscript) and par.value is x and isinstance(par.ctx, ast.Store):
                continue
            # `name[k]` for k running over sorted(name): the entries are taken in sorted key order
            if isinstance(par, ast.Subscript) and par.value is x and isinstance(par.ctx, ast.Load) and isinstance(par.slice, ast.Name):
                k = par.slice.id
                up, bound = mod.parents.get(par), False
                while up is not None and not isinstance(up, (ast.FunctionDef, ast.AsyncFunctionDef, ast.Lambda)):
                    gens = up.generators if isinstance(up, (ast.ListComp, ast.GeneratorExp, ast.SetComp, ast.DictComp)) else (
                        [up] if isinstance(up, ast.For) else [])
                    for g_ in gens:
                        tg_, it_ = (g_.target, g_.iter)
                        if isinstance(tg_, ast.Name) and tg_.id == k and isinstance(it_, ast.Call) and norm(it_.func) == "sorted" and it_.args \
                                and norm(it_.args[0]) in (name, f"{name}.keys()") and not it_.keywords:
                            bound = True
                    up = mod.parents.get(up)
                if bound:
                    continue
            cur, ok = x, False
            while cur is not None and not isinstance(cur, ast.stmt):
                if isinstance(cur, ast.Call) and norm(cur.func) == "sorted":
                    ok = True
                    break
                cur = mod.parents.get(cur)
            if not ok:
                return False
        return True

    @staticmethod
    def _test_only_on_element(test: ast.AST, lv: Set[str]) -> bool:
        """Conditions like `a is cls or b is cls` / `(t1, t2) in self.replaces` (a set not written by the loop)."""
        return False

    def _accumulator(self, fi, mod, call: ast.Call) -> Optional[Tuple[bool, str]]:
        """`acc.append(...)` / `acc.extend(...)` on a local list that starts empty: the list is a sequence in visiting order,
        exactly like `[... for x in S]`; it is harmless when every other use of the list is order-neutral."""
        f = call.func
        if fi is None or not (isinstance(f, ast.Attribute) and f.attr in ("append", "extend") and isinstance(f.value, ast.Name)):
            return None
        name = f.value.id
        if name in param_names(fi.node) or name in self._acc_busy:
            return None
        defs = [n for n in walk_no_nested(fi.node) if isinstance(n, (ast.Assign, ast.AnnAssign))
                and any(isinstance(t, ast.Name) and t.id == name for t in (n.targets if isinstance(n, ast.Assign) else [n.target]))]
        if len(defs) != 1:
            return None
        v = defs[0].value
        fresh = (isinstance(v, ast.List) and not v.elts) or (isinstance(v, ast.Call) and norm(v.func) == "list" and not v.args)
        if not fresh:
            return None
        uses = [x for x in walk_no_nested(fi.node) if isinstance(x, ast.Name) and x.id == name and isinstance(x.ctx, ast.Load)]
        self._acc_busy.add(name)
        try:
            for u in uses:
                par = mod.parents.get(u)
                if isinstance(par, ast.Attribute) and par.attr in ("append", "extend") and isinstance(mod.parents.get(par), ast.Call):
                    continue
                ok, why = self._value_uses(fi, mod, u, f"`{name}`", 1)
                if not ok:
                    return None            # the general rule reports the append itself
        finally:
            self._acc_busy.discard(name)
        return True, f"`{name}` collects the elements in visiting order and every use of it is order-neutral"

    def _call_commutative(self, fi, mod, call: ast.Call, lv: Set[str]) -> Tuple[bool, str]:
        f = call.func
        if isinstance(f, ast.Attribute):
            recv = f.value
            if f.attr in ("add", "discard", "remove", "update") and (
                    self.oa.is_unordered(fi, mod, recv) or f.attr in ("add", "discard")):
                return True, ""
            if f.attr in ("append", "extend") and isinstance(recv, ast.Name) and fi is not None and self._closure_worklist(fi, mod, recv.id):
                return True, ""     # feeding the work list of a reachability closure whose result leaves sorted
            if f.attr in ("append", "insert", "extend", "write", "appendleft"):
                return False, f"`{norm(call)[:60]}` records elements in visiting order"
        tgs = self.ctx.cg.resolve_call(fi, mod, call)
        for t in tgs:
            tf = t[1] if isinstance(t, tuple) and t[0] == "byname" else t
            if isinstance(tf, FuncInfo):
                if isinstance(t, tuple):
                    continue  # by-name guesses are not evidence of order-sensitive effects
                why = self.trans_order_sensitive.get(tf.key)
                if why:
                    return False, f"`{norm(call)[:50]}` reaches order-sensitive effects: {why}"
            elif isinstance(tf, ClassInfo):
                for init in self.ctx.prog.lookup_method(tf, "__init__"):
                    why = self.trans_order_sensitive.get(init.key)
                    if why:
                        return False, f"`{norm(call)[:50]}` reaches order-sensitive effects: {why}"
        return True, ""

    # -- value uses ---------------------------------------------------------------------------------------------
    def _value_uses(self, fi, mod, node: ast.AST, how: str, depth: int) -> Tuple[bool, str]:
        """`node` evaluates to a sequence in set order; is its consumer order-neutral?"""
        if depth > 4:
            return False, "flow too deep to follow"
        par = mod.parents.get(node)
        # transparent wrappers
        while isinstance(par, (ast.Starred,)):
            node, par = par, mod.parents.get(par)
        if isinstance(par, ast.Call):
            fn = norm(par.func)
            short = fn.split(".")[-1]
            if node is par.func:
                return False, "called"
            if fn == "sorted" and any(k.arg == "key" for k in par.keywords):
                return self._key_total(fi, mod, next(k.value for k in par.keywords if k.arg == "key"))
            if fn in ORDER_NEUTRAL_CALLS:
                return True, f"consumed by {fn}()"
            if isinstance(par.func, ast.Attribute) and short in ("update", "add", "issubset", "issuperset",
                                                                 "intersection", "union", "difference",
                                                                 "isdisjoint", "symmetric_difference",
                                                                 "difference_update", "intersection_update"):
                return True, f"consumed by set method .{short}()"
            if short == "join":
                return False, "joined into a string in set order"
            if isinstance(par.func, ast.Attribute) and short in ("extend", "append") and \
                    isinstance(par.func.value, ast.Name) and fi is not None:
                wname = par.func.value.id
                wuses = [x for x in walk_no_nested(fi.node) if isinstance(x, ast.Name) and x.id == wname
                         and isinstance(x.ctx, ast.Load)]
                wl = self._worklist_idiom(fi, mod, wname, wuses)
                if wl is not None:
                    return wl
            if fn in SEQ_PRESERVING:
                if short == "next" and fn == "next":
                    # next(iter(S)) is deterministic only when S has at most one element
                    g = self._singleton_guard(fi, mod, par)
                    if g:
                        return True, g
                    return False, "next(iter(<set>)) picks an arbitrary element"
                return self._value_uses(fi, mod, par, how, depth + 1)
            # passed to a repository function: follow the parameter
            return self._arg_flow(fi, mod, par, node, depth)
        if isinstance(par, ast.keyword):
            call = mod.parents.get(par)
            return self._arg_flow(fi, mod, call, node, depth, kw=par.arg)
        if isinstance(par, ast.Attribute) and par.value is node and par.attr == "sort" and isinstance(mod.parents.get(par), ast.Call):
            call = mod.parents.get(par)
            kw = [k for k in call.keywords if k.arg == "key"]
            if kw:
                return self._key_total(fi, mod, kw[0].value)
            return True, "sorted in place"
        if isinstance(par, ast.Compare):
            return True, "compared (membership / equality)"
        if isinstance(par, (ast.If, ast.While, ast.IfExp, ast.BoolOp, ast.UnaryOp)) and (
                getattr(par, "test", None) is node or isinstance(par, (ast.BoolOp, ast.UnaryOp))):
            return True, "used as a truth value"
        if isinstance(par, ast.comprehension) and par.iter is node:
            comp = mod.parents.get(par)
            if isinstance(comp, ast.SetComp):
                return True, "feeds a set comprehension"
            return self._value_uses(fi, mod, comp, how, depth + 1)
        if isinstance(par, ast.For) and par.iter is node:
            return self._loop_commutative(fi, mod, par)
        if isinstance(par, (ast.Assign, ast.AnnAssign)) and getattr(par, "value", None) is node:
            tg = par.targets[0] if isinstance(par, ast.Assign) else par.target
            if isinstance(tg, ast.Name) and fi is not None:
                return self._name_uses(fi, mod, tg.id, par, depth)
            return False, f"stored into `{norm(tg)}` in set order"
        if isinstance(par, ast.Return):
            if fi is not None:
                self.oa.ret_ordseq.setdefault(fi.key, how)
                return self._return_uses(fi, depth)
            return False, "returned"
        if isinstance(par, ast.Dict):
            return False, "stored in a dict literal in set order"
        if isinstance(par, ast.Subscript) and par.value is node:
            g = self._singleton_guard(fi, mod, par)
            if g:
                return True, g
            return False, "indexed: picks an element by set order"
        if isinstance(par, (ast.Tuple, ast.List)):
            return self._value_uses(fi, mod, par, how, depth + 1)
        if isinstance(par, ast.Expr):
            return True, "value discarded"
        if isinstance(par, ast.YieldFrom) or isinstance(par, ast.Yield):
            if fi is not None:
                return self._return_uses(fi, depth)
        return False, f"flows into {type(par).__name__} `{norm(par)[:50]}`"

    def _singleton_guard(self, fi, mod, node: ast.AST) -> Optional[str]:
        """Is `node` evaluated only where the collection has at most one element?"""
        p = mod.parents.get(node)
        child = node
        while p is not None and not isinstance(p, (ast.FunctionDef, ast.Lambda)):
            test = None
            in_true = in_false = False
            if isinstance(p, ast.IfExp):
                test = p.test
                in_true, in_false = p.body is child, p.orelse is child
            elif isinstance(p, ast.If):
                test = p.test
                in_true = any(child is s for s in p.body)
                in_false = any(child is s for s in p.orelse)
            if test is not None and isinstance(test, ast.Compare) and len(test.ops) == 1 and \
                    isinstance(test.left, ast.Call) and norm(test.left.func) == "len" and \
                    isinstance(test.comparators[0], ast.Constant):
                c = test.comparators[0].value
                op = type(test.ops[0])
                if in_true and ((op is ast.Eq and c == 1) or (op is ast.LtE and c == 1) or (op is ast.Lt and c == 2)):
                    return f"guarded by `{norm(test)}`: at most one element"
                if in_false and ((op is ast.Gt and c == 1) or (op is ast.GtE and c == 2) or (op is ast.NotEq and c == 1)):
                    return f"in the else-branch of `{norm(test)}`: at most one element"
            # an earlier `if len(C) > 1: return/raise/continue` in the same block: below it C has at most one element
            if isinstance(p, ast.stmt):
                blk = self._block_of(mod, p)
                if blk is not None:
                    read = {norm(x) for x in ast.walk(node) if isinstance(x, (ast.Name, ast.Attribute))}
                    for st in blk[:[i for i, x in enumerate(blk) if x is p][0]]:
                        if isinstance(st, ast.If) and not st.orelse and st.body and isinstance(st.body[-1], (ast.Return, ast.Raise, ast.Continue)) \
                                and isinstance(st.test, ast.Compare) and len(st.test.ops) == 1 and isinstance(st.test.left, ast.Call) \
                                and norm(st.test.left.func) == "len" and len(st.test.left.args) == 1 and norm(st.test.left.args[0]) in read \
                                and isinstance(st.test.comparators[0], ast.Constant):
                            c, op = st.test.comparators[0].value, type(st.test.ops[0])
                            if (op is ast.Gt and c == 1) or (op is ast.GtE and c == 2) or (op is ast.NotEq and c == 1):
                                target = norm(st.test.left.args[0])
                                between = blk[blk.index(st) + 1:[i for i, x in enumerate(blk) if x is p][0]]
                                if not any(isinstance(x, ast.Name) and x.id == target and isinstance(x.ctx, ast.Store)
                                           for b in between for x in ast.walk(b)):
                                    return f"after `if {norm(st.test)}: {norm(st.body[-1])[:20]}`: at most one element"
            child, p = p, mod.parents.get(p)
        return None

    @staticmethod
    def _block_of(mod, st: ast.stmt):
        par = mod.parents.get(st)
        for fld in ("body", "orelse", "finalbody"):
            blk = getattr(par, fld, None)
            if isinstance(blk, list) and any(x is st for x in blk):
                return blk
        return None

    def _name_uses(self, fi, mod, name: str, definition: ast.AST, depth: int) -> Tuple[bool, str]:
        uses = [x for x in walk_no_nested(fi.node) if isinstance(x, ast.Name) and x.id == name and isinstance(x.ctx, ast.Load)]
        # closures
        for g in self.ctx.prog.all_funcs():
            if g.parent is fi:
                uses += [x for x in walk_no_nested(g.node) if isinstance(x, ast.Name) and x.id == name
                         and isinstance(x.ctx, ast.Load) and name not in local_names(g.node)]
        if not uses:
            return True, f"`{name}` is never read"
        wl = self._worklist_idiom(fi, mod, name, uses)
        if wl is not None:
            return wl
        # `name = list(S)` ... `name.sort(...)` in the same block: later reads see the sorted list
        if isinstance(definition, ast.stmt):
            blk = self._block_of(mod, definition)
            if blk is not None:
                for st in blk[blk.index(definition) + 1:]:
                    if isinstance(st, ast.Expr) and isinstance(st.value, ast.Call) and isinstance(st.value.func, ast.Attribute) and \
                            st.value.func.attr == "sort" and norm(st.value.func.value) == name:
                        uses = [u for u in uses if u.lineno <= st.lineno]
                        break
                    if any(isinstance(x, ast.Name) and x.id == name and isinstance(x.ctx, ast.Store) for x in ast.walk(st)):
                        break
        for u in uses:
            ok, why = self._value_uses(fi, mod, u, f"`{name}`", depth + 1)
            if not ok:
                return False, f"`{name}` (line {u.lineno}): {why}"
        return True, f"every use of `{name}` is order-neutral"

    def _worklist_idiom(self, fi, mod, name: str, uses) -> Optional[Tuple[bool, str]]:
        """`W = list(<set-ordered>)`; `while W: x = W.pop(); ...; W.extend(...)` with a visited set: a reachability
        closure.  Its result does not depend on the visiting order provided the loop never leaves early and only
        adds to sets."""
        loops = [n for n in walk_no_nested(fi.node) if isinstance(n, ast.While) and norm(n.test) == name]
        if len(loops) != 1:
            return None
        lp = loops[0]
        for u in uses:
            par = mod.parents.get(u)
            if par is lp:
                continue
            if isinstance(par, ast.Attribute) and par.attr in ("pop", "extend", "append") and \
                    isinstance(mod.parents.get(par), ast.Call):
                continue
            return None
        for st in lp.body:
            for x in walk_no_nested(st):
                if isinstance(x, (ast.Break, ast.Return)):
                    return False, (f"work-list loop over `{name}` leaves early (`{norm(x)[:30]}`): which elements were "
                                   f"processed by then depends on set order")
                if isinstance(x, ast.Call) and isinstance(x.func, ast.Attribute):
                    recv = norm(x.func.value)
                    if x.func.attr in ("append", "insert") and recv != name:
                        return False, f"work-list loop records elements in visiting order via `{norm(x)[:40]}`"
                    if x.func.attr in ("extend",) and recv != name:
                        return False, f"work-list loop records elements in visiting order via `{norm(x)[:40]}`"
                if isinstance(x, ast.Assign):
                    for t in x.targets:
                        if isinstance(t, (ast.Subscript, ast.Attribute)):
                            return False, f"work-list loop writes `{norm(t)[:40]}` in visiting order"
        # whatever escapes the function must be a set (or nothing)
        for r in walk_no_nested(fi.node):
            if isinstance(r, ast.Return) and r.value is not None and not self.oa.is_unordered(fi, mod, r.value):
                return False, "work-list loop's function returns an ordered value"
        return True, (f"`{name}` is a work-list of a visited-set closure: no early exit, only set additions, and the "
                      f"function returns a set")

    def _return_uses(self, fi: FuncInfo, depth: int) -> Tuple[bool, str]:
        """The function returns a set-ordered sequence: check every call site."""
        sites = []
        for g in self.ctx.prog.all_funcs():
            for n in walk_no_nested(g.node):
                if isinstance(n, ast.Call) and fi in [t for t in self.ctx.cg.resolve_call(g, g.module, n)
                                                      if isinstance(t, FuncInfo)]:
                    sites.append((g, n))
        if fi.is_property:
            for g in self.ctx.prog.all_funcs():
                for n in walk_no_nested(g.node):
                    if isinstance(n, ast.Attribute) and n.attr == fi.name and isinstance(n.ctx, ast.Load):
                        sites.append((g, n))
        for g, n in sites:
            ok, why = self._value_uses(g, g.module, n, f"{fi.qualname}()", depth + 1)
            if not ok:
                k = (g.relpath, g.qualname, norm(n))
                if k in ALLOW:
                    self.allow_hits.append((k, n.lineno, why))
                    continue
                return False, f"returned to {g.qualname} (line {n.lineno}) as `{norm(n)}`: {why}"
        return True, f"returned; all {len(sites)} call sites consume it order-neutrally"

    def _arg_flow(self, fi, mod, call: ast.Call, arg: ast.AST, depth: int, kw: Optional[str] = None) -> Tuple[bool, str]:
        tgs = [t for t in self.ctx.cg.resolve_call(fi, mod, call) if isinstance(t, (FuncInfo, ClassInfo))]
        if not tgs:
            return False, f"passed to `{norm(call.func)}` (not analysable) in set order"
        for t in tgs:
            tf = t
            if isinstance(t, ClassInfo):
                inits = self.ctx.prog.lookup_method(t, "__init__")
                if not inits:
                    return False, f"passed to constructor {t.qualname}"
                tf = inits[0]
            params = param_names(tf.node)
            off = 1 if (tf.cls is not None and not tf.is_static and (isinstance(call.func, ast.Attribute) or isinstance(t, ClassInfo))) else 0
            pname = None
            if kw:
                pname = kw
            else:
                idx = None
                for i, a in enumerate(call.args):
                    if a is arg or (isinstance(a, ast.Starred) and a.value is arg):
                        idx = i
                        starred = isinstance(a, ast.Starred)
                if idx is None:
                    return False, "argument position not found"
                a_ = tf.node.args
                pos = [p.arg for p in a_.posonlyargs + a_.args][off:]
                if starred:
                    pname = a_.vararg.arg if a_.vararg and idx >= len(pos) else (pos[idx] if idx < len(pos) else None)
                    if a_.vararg and idx < len(pos):
                        pname = pos[idx]  # first elements bind positionally: order-dependent binding
                        return False, f"*-unpacked into positional parameter `{pname}` of {tf.qualname}"
                else:
                    pname = pos[idx] if idx < len(pos) else (a_.vararg.arg if a_.vararg else None)
            if pname is None:
                return False, f"cannot bind argument to a parameter of {tf.qualname}"
            key = (tf.key, pname)
            if key in self._param_neutral_cache:
                why = self._param_neutral_cache[key]
            else:
                self._param_neutral_cache[key] = None  # optimistic for recursion
                ok, w = self._name_uses(tf, tf.module, pname, tf.node, depth + 1)
                why = None if ok else w
                self._param_neutral_cache[key] = why
            if why is not None:
                return False, f"parameter `{pname}` of {tf.qualname}: {why}"
        return True, f"bound to parameter(s) whose uses are order-neutral"

    def _starred_into_call(self, fi, mod, call: ast.Call, ex: Exposure, depth: int) -> Tuple[bool, str]:
        for a in call.args:
            if isinstance(a, ast.Starred) and a.value is ex.src:
                if norm(call.func) in ORDER_NEUTRAL_CALLS:
                    return True, "unpacked into an order-neutral builtin"
                return self._arg_flow(fi, mod, call, ex.src, depth)
        return False, "starred argument not found"


def rule_ord1(ctx: Ctx) -> RuleResult:
    rr = RuleResult("ORD-1", "no hash-/identity-ordered iteration reaches an order-sensitive use", floor=10)
    oa = OrdAnalysis(ctx)
    exps = find_exposures(ctx, oa)
    dis = Discharger(ctx, oa)
    rr.notes.append(f"unordered attribute cells: {sorted(oa.unord_attrs)}; functions returning sets: "
                    f"{sorted(k.split('::')[1] for k in oa.ret_unord)}")
    # count unordered source expressions (anti-vacuity for the typing step)
    n_src = 0
    for m in ctx.prog.pkg_modules():
        for n in ast.walk(m.tree):
            if isinstance(n, (ast.Set, ast.SetComp)) or (isinstance(n, ast.Call) and norm(n.func) in SET_CTORS):
                n_src += 1
    rr.notes.append(f"set-constructing expressions: {n_src}; exposure sites: {len(exps)}")
    if n_src < 15:
        raise AnalysisError(f"ORD-1: only {n_src} set-constructing expressions found (25 on the pinned tree)")
    used_allow = set()
    seen_keys = set()
    for ex in exps:
        rr.instances += 1
        where = ex.fi.qualname if ex.fi else ex.mod.qual_of_node(ex.node)
        text = norm(ex.src)
        k = (ex.mod.relpath, where, text)
        st = (f"the order in which `{text}` (an unordered collection) is visited by {ex.how} must not be observable in "
              f"generated text, registry order, field order or class order")
        ok, why = dis.discharge(ex)
        if ok:
            rr.ob(ex.mod.relpath, where, f"{text} [{ex.how}]", st, DISCHARGED, why, ex.node.lineno)
        elif k in ALLOW:
            used_allow.add(k)
            rr.ob(ex.mod.relpath, where, f"{text} [{ex.how}]", st, ALLOWED, ALLOW[k] + f" (rule said: {why})",
                  ex.node.lineno)
        else:
            rr.ob(ex.mod.relpath, where, f"{text} [{ex.how}]", st, VIOLATED,
                  why + " - the result depends on PYTHONHASHSEED / object addresses", ex.node.lineno)
    for k, line, why in dis.allow_hits:
        if k not in used_allow:
            used_allow.add(k)
            rr.instances += 1
            rr.ob(k[0], k[1], k[2], "a set-ordered sequence is consumed order-neutrally", ALLOWED,
                  (ALLOW.get(k) or KEY_ALLOW.get(k, "")) + f" (rule said: {why})", line)
    for k in list(ALLOW) + list(KEY_ALLOW):
        if k not in used_allow:
            rr.stale_allow.append(f"{k[0]}::{k[1]} `{k[2]}`")
    return rr


# ---------------------------------------------------------------------------------------------------------------
NDET_CALLS = {"id", "hash", "random.random", "random.choice", "random.shuffle", "random.randint", "random.sample",
              "time.time", "time.time_ns", "time.monotonic", "time.perf_counter", "datetime.now", "datetime.today",
              "datetime.utcnow", "date.today", "os.getenv", "os.listdir", "os.scandir", "os.urandom", "os.getpid",
              "uuid.uuid4", "uuid.uuid1", "glob.glob", "glob.iglob", "object.__hash__", "os.walk", "tempfile.mkdtemp",
              "secrets.token_hex", "threading.get_ident", "os.times",
              # results in the order in which concurrent work happens to finish
              "as_completed", "concurrent.futures.as_completed", "futures.as_completed", "concurrent.futures.wait", "futures.wait",
              "asyncio.as_completed", "asyncio.wait", "select.select"}
NDET_METHODS = {"glob", "iterdir", "rglob", "imap_unordered", "as_completed"}


def rule_ndet1(ctx: Ctx) -> RuleResult:
    rr = RuleResult("NDET-1", "nondeterministic primitives occur only where the property permits them", floor=4)
    st_hash = "tokens derived from hash() are used for equality / membership only"
    lib = ctx.lib_cone
    for f in sorted(ctx.prog.all_funcs(), key=lambda x: x.key):
        for n in walk_no_nested(f.node):
            if not isinstance(n, ast.Call):
                continue
            fn = norm(n.func)
            hit = fn in NDET_CALLS or fn.startswith("random.") or fn.startswith("uuid.") or (
                isinstance(n.func, ast.Attribute) and n.func.attr in NDET_METHODS) or "environ" in fn
            if not hit and isinstance(n.func, ast.Attribute) and n.func.attr in ("now", "today", "utcnow"):
                hit = True
            if not hit:
                continue
            rr.instances += 1
            st = "output must not depend on object identity, hash values, time, environment or directory order"
            text = norm(n)[:70]
            in_lib = f in lib
            if fn in ("id", "hash"):
                if f.name == "__hash__":
                    rr.ob(f.relpath, f.qualname, text, st, DISCHARGED, "defines hashing only (__hash__): affects set/dict "
                          "placement, which ORD-1 treats as unordered", n.lineno)
                    continue
                # hash(...) rendered to a token used for equality/de-duplication only
                if f.name == "get_hash_string":
                    # NDET-3: the token keeps every bit of the hash.  A narrowed value (mask, modulo, shift, slice of its
                    # text) makes distinct object shapes collide, and which ones collide changes with the hash seed.
                    narrowed = None
                    cur, par = n, f.module.parents.get(n)
                    while par is not None and not isinstance(par, ast.stmt):
                        if isinstance(par, ast.BinOp) and isinstance(par.op, (ast.BitAnd, ast.Mod, ast.RShift, ast.FloorDiv, ast.Div)) \
                                and (par.left is cur or isinstance(par.op, ast.BitAnd)):
                            narrowed = f"`{norm(par)[-40:]}` keeps only part of the value"
                        if isinstance(par, ast.Subscript) and par.value is cur:
                            narrowed = f"`{norm(par)[-40:]}` keeps only part of the text"
                        if isinstance(par, ast.Call) and norm(par.func) in ("int", "abs", "bool", "len", "round", "divmod"):
                            narrowed = f"`{norm(par.func)}(...)` maps different hashes to one value"
                        cur, par = par, f.module.parents.get(par)
                    if narrowed:
                        rr.ob(f.relpath, f.qualname, text, st_hash, VIOLATED,
                              f"{narrowed}: two differently shaped objects get the same de-duplication token with "
                              f"non-negligible probability, one of them is dropped from the union, and which pair collides "
                              f"depends on PYTHONHASHSEED", n.lineno)
                        continue
                    rr.ob(f.relpath, f.qualname, text, st, ALLOWED, "hash of a tuple of (key, hash string) pairs rendered "
                          "to a de-duplication token compared for equality only; never ordered or emitted", n.lineno)
                    continue
                rr.ob(f.relpath, f.qualname, text, st, VIOLATED if in_lib else ALLOWED,
                      "identity/hash value used outside hashing: differs between processes" if in_lib else "CLI-only",
                      n.lineno)
                continue
            if in_lib:
                rr.ob(f.relpath, f.qualname, text, st, VIOLATED, "nondeterministic primitive on a library path", n.lineno)
                continue
            # CLI-only sites: header timestamp, glob order, coverage switch
            if f.name == "version_string" and (fn.endswith("now") or fn.endswith("today")):
                rr.ob(f.relpath, f.qualname, text, st, ALLOWED, "the timestamp line of the CLI header (explicitly "
                      "permitted by the property)", n.lineno)
            elif isinstance(n.func, ast.Attribute) and n.func.attr in NDET_METHODS and f.name == "process_path":
                rr.ob(f.relpath, f.qualname, text, st, ALLOWED, "files matched by one glob pattern: order explicitly "
                      "unspecified (C16)", n.lineno)
            elif fn in ("os.getenv",) and f.name == "main":
                rr.ob(f.relpath, f.qualname, text, st, ALLOWED, "coverage switch for CI: does not influence output", n.lineno)
            else:
                rr.ob(f.relpath, f.qualname, text, st, VIOLATED, "nondeterministic primitive on a CLI path outside the "
                      "permitted sites (header timestamp, glob, coverage switch)", n.lineno)
    # NDET-2: de-duplication tokens (which embed hash() for raw objects) are compared for equality only - never ordered
    for f in sorted(ctx.prog.all_funcs(), key=lambda x: x.key):
        for n in walk_no_nested(f.node):
            if isinstance(n, ast.Call) and (norm(n.func) in ("sorted", "min", "max") or (
                    isinstance(n.func, ast.Attribute) and n.func.attr == "sort")):
                for k in n.keywords:
                    if k.arg == "key" and any((isinstance(x, ast.Name) and x.id == "get_hash_string") or (
                            isinstance(x, ast.Attribute) and x.attr in ("to_hash_string", "_to_hash_string")) for x in ast.walk(k.value)):
                        rr.instances += 1
                        rr.ob(f.relpath, f.qualname, norm(n)[:70], st_hash, VIOLATED,
                              "the hash token is used as a sort key: for raw objects it is str(hash(...)), which changes with "
                              "PYTHONHASHSEED, so the resulting order (and the merged field order) differs between runs", n.lineno)
    return rr
