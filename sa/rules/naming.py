"""Naming discipline of the renderer (C04, C11, C14).

The constructor of every generator normalises the class name of its model *in place* (``set_raw_name``).  Three
structural consequences are decided here:

NAMEORD-2  a model's name is looked up when a class is rendered, never while the layout is composed or the reference
           context is set up: those run before the generators exist, so a name captured there is the raw one and the
           emitted reference does not match the emitted class (and a second rendering differs from the first).
RENAME-1   the in-place renaming passes the model's own generated-name flag back and converts with the instance's
           converter: rendering must not turn generated names into user-given ones (the registry would then stop
           regenerating them after a later merge).
OPTFWD-1   naming options reach the code that uses them: framework generators forward the options they accept to the
           base constructor, and every label conversion in a generator class is parameterised by the instance's
           ``convert_unicode`` option.
"""
from __future__ import annotations

import ast
from typing import List

from ..ctx import Ctx
from ..model import AnalysisError, FuncInfo, norm, walk_no_nested
from ..report import DISCHARGED, VIOLATED, RuleResult

BASE = "json_to_models/models/base.py"
META = "json_to_models/dynamic_typing/models_meta.py"


def _pre_render_functions(ctx: Ctx) -> List[FuncInfo]:
    """Functions that run before any generator has been constructed: the layout composers, the reference context
    and `generate_code` itself (not the helpers it hands the structure to)."""
    prog = ctx.prog
    out: List[FuncInfo] = []
    for rel in ("json_to_models/models/structure.py", "json_to_models/models/utils.py"):
        m = prog.modules.get(rel)
        if m is not None:
            out.extend(m.all_funcs)
    meta = prog.module(META)
    for f in meta.all_funcs:
        q = f.qualname
        if q.startswith("AbsoluteModelRef.") and not q.endswith("to_typing_code") and "to_typing_code" not in q:
            out.append(f)
    out.append(prog.func(BASE, "generate_code"))
    return out


def _inside(mod, node, kinds) -> bool:
    p = mod.parents.get(node)
    while p is not None:
        if isinstance(p, kinds):
            return True
        if isinstance(p, (ast.FunctionDef, ast.AsyncFunctionDef, ast.Lambda)):
            return False
        p = mod.parents.get(p)
    return False


def rule_nameord2(ctx: Ctx) -> RuleResult:
    rr = RuleResult("NAMEORD-2", "model names are read at rendering time, not while the layout or the reference context "
                    "is built", floor=6)
    funcs = _pre_render_functions(ctx)
    if len(funcs) < 6:
        raise AnalysisError(f"NAMEORD-2: only {len(funcs)} pre-render functions found")
    st = ("code that runs before the generators are constructed does not capture a model's name (the constructors rename "
          "models in place afterwards); it passes the model object on and the name is read when the reference is rendered")
    for f in funcs:
        reads = []
        for n in ast.walk(f.node):
            if isinstance(n, ast.Attribute) and n.attr in ("name", "_name") and isinstance(n.ctx, ast.Load):
                if _inside(f.module, n, (ast.Raise, ast.Assert)):
                    continue
                reads.append(n)
            if isinstance(n, ast.Call) and isinstance(n.func, ast.Name) and n.func.id == "getattr" and len(n.args) >= 2 \
                    and isinstance(n.args[1], ast.Constant) and n.args[1].value in ("name", "_name"):
                reads.append(n)
        rr.instances += 1
        if not reads:
            rr.ob(f.relpath, f.qualname, f.name, st, DISCHARGED, "no name is read here (error messages aside)", f.node.lineno)
        for n in reads:
            stmt = n
            while stmt in f.module.parents and not isinstance(stmt, ast.stmt):
                stmt = f.module.parents[stmt]
            rr.ob(f.relpath, f.qualname, norm(stmt)[:100], st, VIOLATED,
                  f"`{norm(n)}` is evaluated before the generators have normalised the class names: the raw name is "
                  f"captured", n.lineno)
    # positive half: the reference renderer does read the name (otherwise the rule guards nothing)
    ren = [f for f in ctx.prog.module(META).all_funcs if f.qualname.startswith("AbsoluteModelRef.") and f.name == "to_typing_code"]
    if not ren or not any(isinstance(n, ast.Attribute) and n.attr == "name" for n in ast.walk(ren[0].node)):
        raise AnalysisError("NAMEORD-2: AbsoluteModelRef.to_typing_code no longer reads a model name; rule out of date")
    return rr


def rule_rename1(ctx: Ctx) -> RuleResult:
    rr = RuleResult("RENAME-1", "the renderer's in-place renaming keeps the generated-name flag and uses the instance's converter",
                    floor=1)
    prog = ctx.prog
    setter = prog.func(META, "ModelMeta.set_raw_name")
    # the flag parameter and its default
    params = [a.arg for a in setter.node.args.args]
    if len(params) < 3:
        raise AnalysisError("RENAME-1: ModelMeta.set_raw_name has no flag parameter any more")
    flag = params[2]
    sites = []
    for m in prog.modules.values():
        if not m.relpath.startswith("json_to_models/models/"):
            continue
        for f in m.all_funcs:
            for n in walk_no_nested(f.node):
                if isinstance(n, ast.Call) and isinstance(n.func, ast.Attribute) and n.func.attr == "set_raw_name":
                    sites.append((f, n))
    if not sites:
        raise AnalysisError("RENAME-1: no renaming site in json_to_models/models/")
    for f, n in sites:
        rr.instances += 1
        recv = norm(n.func.value)
        flagv = None
        if len(n.args) >= 2:
            flagv = n.args[1]
        for kw in n.keywords:
            if kw.arg == flag:
                flagv = kw.value
        problems = []
        if flagv is None:
            problems.append(f"`{flag}` is not passed: the model is marked as named by the user from now on")
        elif norm(flagv) != f"{recv}.is_name_generated" and norm(flagv) != f"{recv}._name_generated":
            problems.append(f"`{flag}={norm(flagv)}` is not the model's own flag")
        namev = n.args[0] if n.args else None
        if namev is None or not (isinstance(namev, ast.Call) and norm(namev.func) == "self.convert_class_name"
                                 and namev.args and norm(namev.args[0]) == f"{recv}.name"):
            problems.append("the new name is not self.convert_class_name(<the model's current name>)")
        rr.ob(f.relpath, f.qualname, norm(n)[:100], "rendering renames a model only to the converted form of its current "
              "name and leaves the generated-name flag as it was", VIOLATED if problems else DISCHARGED,
              "; ".join(problems) if problems else "flag passed back, converter applied to the current name", n.lineno)
    return rr


def rule_optfwd1(ctx: Ctx) -> RuleResult:
    rr = RuleResult("OPTFWD-1", "naming and rendering options reach the code that applies them", floor=5)
    prog = ctx.prog
    init = prog.func(BASE, "GenericModelCodeGenerator.__init__")
    gbase = prog.cls(BASE, "GenericModelCodeGenerator")
    bparams = set(init.params) - {"self", "model"}
    # (a) constructors
    for k in prog.subclasses(gbase, strict=True):
        for f in k.methods.get("__init__", []):
            rr.instances += 1
            sup = [c for c in walk_no_nested(f.node) if isinstance(c, ast.Call) and (
                norm(c.func) in ("super().__init__", f"super({k.name}, self).__init__") or
                (norm(c.func).endswith(".__init__") and c.args and norm(c.args[0]) == "self"))]
            named = [p for p in f.params if p in bparams]
            problems = []
            if not sup:
                problems.append("base constructor is not called")
            else:
                c = sup[0]
                kws = {kw.arg: norm(kw.value) for kw in c.keywords if kw.arg}
                star = {nm for kw in c.keywords if kw.arg is None for nm in
                        ([x.id for x in ast.walk(kw.value) if isinstance(x, ast.Name)])}
                if f.node.args.kwarg and f.node.args.kwarg.arg not in star:
                    problems.append(f"**{f.node.args.kwarg.arg} is not forwarded (options such as convert_unicode stop here)")
                for p in named:
                    if kws.get(p) != p and p not in [norm(a) for a in c.args]:
                        forced = any(isinstance(n, ast.Assign) and isinstance(n.targets[0], ast.Subscript) and
                                     isinstance(n.targets[0].slice, ast.Constant) and n.targets[0].slice.value == p
                                     for n in walk_no_nested(f.node))
                        if not forced:
                            problems.append(f"parameter `{p}` is accepted but not passed to the base constructor")
                # popped / deleted before the call
                kw = f.node.args.kwarg.arg if f.node.args.kwarg else None
                for n in walk_no_nested(f.node):
                    if kw and isinstance(n, ast.Call) and isinstance(n.func, ast.Attribute) and norm(n.func.value) == kw \
                            and n.func.attr in ("pop", "clear", "popitem") and n.lineno < c.lineno:
                        a = n.args[0].value if n.args and isinstance(n.args[0], ast.Constant) else None
                        if a in bparams or a is None:
                            problems.append(f"`{norm(n)[:40]}` removes an option before the base constructor sees it")
            rr.ob(f.relpath, f.qualname, norm(sup[0])[:70] if sup else "__init__", "options accepted by a framework generator "
                  "reach the base constructor", VIOLATED if problems else DISCHARGED,
                  "; ".join(problems) if problems else "forwarded", f.node.lineno)
    # (b) the base constructor stores the option unconditionally
    rr.instances += 1
    st = [n for n in init.node.body if isinstance(n, ast.Assign) and norm(n.targets[0]) == "self.convert_unicode"]
    ok = len(st) == 1 and norm(st[0].value) == "convert_unicode"
    rr.ob(init.relpath, init.qualname, norm(st[0]) if st else "self.convert_unicode", "the unicode option is stored as given",
          DISCHARGED if ok else VIOLATED, "stored" if ok else "not stored as given / stored conditionally", init.node.lineno)
    # (c) every label conversion in a generator class uses the instance's option
    n_calls = 0
    for k in prog.subclasses(gbase):
        for ms in k.methods.values():
            for f in ms:
                for n in walk_no_nested(f.node):
                    if isinstance(n, ast.Call) and isinstance(n.func, ast.Name) and n.func.id == "prepare_label":
                        n_calls += 1
                        rr.instances += 1
                        v = None
                        for kw in n.keywords:
                            if kw.arg == "convert_unicode":
                                v = kw.value
                        if v is None and len(n.args) >= 2:
                            v = n.args[1]
                        ok = v is not None and norm(v) == "self.convert_unicode"
                        rr.ob(f.relpath, f.qualname, norm(n)[:90], "label conversion inside a generator is governed by the "
                              "instance's convert_unicode option", DISCHARGED if ok else VIOLATED,
                              "convert_unicode=self.convert_unicode" if ok else
                              f"convert_unicode={norm(v) if v is not None else '<missing>'}: the option is ignored here",
                              n.lineno)
    if n_calls < 2:
        raise AnalysisError(f"OPTFWD-1: only {n_calls} label conversions found in generator classes")
    return rr
